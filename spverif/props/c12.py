"""C12 -- level-crossing positions are exact for the piecewise-linear record.

 O1 regrid.py / fit_offsets.py resolve against the installed libraries
 O2 half-open counting rule: both ends of a pair rounded with `ceil` of
    y / y_step; rising pair enumerates range(lo, hi) of the two rounded
    ends, falling pair the mirrored range (order-cell evaluation)
 O3 bracket [x[i], x[i+1]] for the same i; root of interpolant(x) - target
 O4 linear interpolant by default and the only caller does not override
 O5 build_head_mapping averages repeated crossings per (interval, level)
 O6 the sample arrays handed in are never changed in place (alias.py)
"""

import ast

from .. import apires
from ..flow import Flow
from ..norm import NotAlgebraic, Poly, py_poly
from ..ordercell import CellEval, Undecided
from ..report import where_of
from ..source import dotted_name, enclosing_func, enclosing_stmt, is_ancestor

CEILS = {"numpy.ceil", "math.ceil"}
BAD_ROUND = {"numpy.floor", "math.floor", "numpy.round", "numpy.rint", "numpy.around", "round",
             "numpy.trunc", "math.trunc", "numpy.fix", "int", "numpy.round_"}


def api_obligations(ctx, chk, rule, modules):
    n = 0
    for name in modules:
        m = ctx.repo.module(name)
        for node, full in apires.external_chains(m):
            ok, detail = apires.resolve_dotted(full)
            n += 1
            if ok is None:
                chk.indeterminate(rule, (m.relpath, "<module>", node.lineno), detail)
                continue
            f = enclosing_func(node)
            fn = f.name if f is not None else "<module>"
            if ok:
                chk.count("api_chains_resolved")
                continue
            chk.ob(rule, False, (m.relpath, fn, node.lineno),
                   "%s does not resolve: %s" % (full, detail),
                   "every library attribute used exists in the installed library",
                   key="%s|%s|api:%s" % (m.relpath, fn, full),
                   why="an unresolved attribute raises AttributeError before any result is produced")
    return n


def full_call_name(mod, call):
    d = dotted_name(call.func)
    if not d:
        return None
    head, _, rest = d.partition(".")
    tgt = mod.aliases.get(head)
    if tgt:
        return tgt + ("." + rest if rest else "")
    return d



def _float_enumeration(f, mod, outer, inner, pstep):
    """An np.arange call with an explicit non-integer step (or np.linspace)
    among the definitions that flow into the inner loop's iterable."""
    names = {n.id for n in ast.walk(inner.iter) if isinstance(n, ast.Name)}
    exprs = [inner.iter]
    changed = True
    seen = set()
    while changed:
        changed = False
        for st in ast.walk(f.node):
            if isinstance(st, ast.Assign) and id(st) not in seen:
                tn = set()
                for t in st.targets:
                    tn |= {n.id for n in ast.walk(t) if isinstance(n, ast.Name)}
                if tn & names:
                    seen.add(id(st))
                    exprs.append(st.value)
                    new = {n.id for n in ast.walk(st.value) if isinstance(n, ast.Name)}
                    if not new <= names:
                        names |= new
                    changed = True
    for e in exprs:
        for c in ast.walk(e):
            if not isinstance(c, ast.Call):
                continue
            fn = full_call_name(mod, c) or ""
            if fn.endswith("arange"):
                step = c.args[2] if len(c.args) >= 3 else next((k.value for k in c.keywords if k.arg == "step"), None)
                if step is None:
                    continue
                try:
                    cv = py_poly(step).const_or_none()
                except NotAlgebraic:
                    cv = None
                if cv is not None and cv == int(cv):
                    continue
                if cv is not None or pstep in {n.id for n in ast.walk(step) if isinstance(n, ast.Name)}:
                    return c
    return None


def _is_int_cast(mod, ex):
    """np.array(v, dtype=<int>) / v.astype(<int>) / np.int64(v) / np.trunc / np.fix"""
    def intish(n):
        t = ast.unparse(n).replace(" ", "").replace('"', "'")
        return t in ("int", "'int'", "'int64'", "'int32'", "'i8'", "'i4'") or t.endswith(".int64") or t.endswith(".int32") or t.endswith(".int_") or t.endswith(".intp")
    if isinstance(ex, ast.Call):
        fn = full_call_name(mod, ex) or ""
        if any(k.arg == "dtype" and intish(k.value) for k in ex.keywords):
            return True
        if isinstance(ex.func, ast.Attribute) and ex.func.attr == "astype" and ex.args and intish(ex.args[0]):
            return True
        if fn in ("numpy.int64", "numpy.int32", "numpy.int_", "numpy.trunc", "numpy.fix"):
            return True
    return False

def input_dtype_buffers(ctx, chk, rule, modules, key_prefix, why):
    """Zero expected: a buffer for computed values is not given the dtype of the input (`dtype=x.dtype` with x an argument, an
    element of an argument, or `np.asarray` of one).  Crossing positions, means and integrals are real numbers whatever the
    input holds: with integer abscissae (UNIX epochs, a sample index) they are truncated toward zero when stored."""
    def find(fnode):
        out = []
        params = {a.arg for a in fnode.args.posonlyargs + fnode.args.args + fnode.args.kwonlyargs}
        # names that are (elements of / arrays of) the arguments
        derived = set(params)
        for _r in range(4):
            for n in ast.walk(fnode):
                tg, val = None, None
                if isinstance(n, ast.Assign) and len(n.targets) == 1:
                    tg, val = n.targets[0], n.value
                elif isinstance(n, (ast.For, ast.comprehension)):
                    tg, val = n.target, n.iter
                if tg is None:
                    continue
                core = val
                for _h in range(4):
                    if isinstance(core, ast.Call) and core.args and ((isinstance(core.func, ast.Attribute) and core.func.attr in ("asarray", "array", "asanyarray", "items", "values"))
                                                                      or (isinstance(core.func, ast.Name) and core.func.id in ("enumerate", "zip", "list", "tuple", "iter"))):
                        core = core.args[0] if core.args else core.func.value
                    elif isinstance(core, ast.Call) and isinstance(core.func, ast.Attribute) and core.func.attr in ("items", "values") and not core.args:
                        core = core.func.value
                    elif isinstance(core, ast.Subscript):
                        core = core.value
                    else:
                        break
                srcs = [core] if not isinstance(core, (ast.Tuple, ast.List)) else list(core.elts)
                if any(isinstance(x, ast.Name) and x.id in derived for src in srcs for x in ast.walk(src) if isinstance(src, ast.AST)):
                    for x in ast.walk(tg):
                        if isinstance(x, ast.Name):
                            derived.add(x.id)
        for c in ast.walk(fnode):
            if isinstance(c, ast.Call):
                for k in c.keywords:
                    if k.arg == "dtype" and isinstance(k.value, ast.Attribute) and k.value.attr == "dtype" and isinstance(k.value.value, ast.Name) \
                            and k.value.value.id in derived:
                        nm = c.func.attr if isinstance(c.func, ast.Attribute) else (c.func.id if isinstance(c.func, ast.Name) else "")
                        if nm in ("fromiter", "array", "asarray", "empty", "zeros", "ones", "full", "empty_like", "zeros_like", "full_like", "astype"):
                            out.append((c, k.value))
        return out
    n = 0
    for modname in modules:
        m = ctx.repo.modules.get(modname)
        if m is None:
            continue
        for q, fi in sorted(m.functions.items()):
            if ".<locals>." in q:
                continue
            n += 1
            for c, d in find(fi.node):
                chk.ob(rule, False, where_of(fi, c), "%s: computed values are stored in the dtype of the input (%s)" % (ast.unparse(c)[:70], ast.unparse(d)),
                       "a floating-point buffer for computed positions / means, whatever the dtype of the series passed in",
                       key="%s|input-dtype-buffer|%s" % (key_prefix, q), why=why, local=True)
    ctl = ast.parse("def f(series):\n    for t, y in series:\n        t = np.asarray(t)\n        v = np.fromiter(g(t, y), dtype=t.dtype)\n        w = np.fromiter(g(t, y), dtype=float)\n")
    if len(find(ctl.body[0])) != 1:
        chk.errors.append("%s positive control (input-dtype buffer) did not match" % rule)
    chk.count("%s functions scanned for buffers in the dtype of the input" % key_prefix, n)


def run(ctx, chk, tier="quick"):
    chk.explanation = (
        "API resolution of regrid.py / fit_offsets.py against the installed numpy / scipy; "
        "def-use expansion of the integer level array and classification of its rounding function; "
        "order-cell evaluation of the branch that enumerates targets for rising and falling pairs; "
        "index agreement of the brentq bracket with the pair; default interpolant and caller; "
        "structure of the per-(interval, level) averaging."
    )
    chk.assumptions = ["scipy.optimize.brentq finds the root within its default tolerance",
                       "scipy.interpolate.interp1d(kind='linear') is the straight-line interpolant"]
    input_dtype_buffers(ctx, chk, "C12.O5", ("regrid", "fit_offsets"), "crossings",
                        "crossing positions lie between the samples: with integer abscissae (int64 epochs, a sample index) every position, and the per-level mean built from them, is truncated toward zero, so the reported crossing is not where the interpolant equals the level")
    n = api_obligations(ctx, chk, "C12.O1", ["regrid", "fit_offsets"])
    chk.floor("library attribute chains resolved in regrid.py, fit_offsets.py", n, 12)
    if chk.counters.get("api_chains_resolved", 0) == n:
        chk.ob("C12.O1", True, ("spowtd/regrid.py", "<module>", 1), "%d library attribute chains resolve" % n,
               "every library attribute used exists in the installed library", key="regrid+fit_offsets|api-all")

    # ---- O6: the samples handed in are read, never changed (the caller goes on using them)
    from ..alias import read_only_arguments
    chk.floor("functions examined for in-place changes of their array arguments",
              read_only_arguments(ctx, chk, "C12.O6", ("regrid.regrid", "fit_offsets.build_head_mapping", "fit_offsets.get_series_time_offsets"),
                                  "the series is the caller's: once it is rescaled in place a reported position is no longer a crossing of the caller's samples, and regridding the same series again (another step, the same step) reports crossings of y / step"), 3)
    f = ctx.func("regrid.regrid")
    flow = Flow.of(f)
    mod = f.module
    params = f.params
    if len(params) < 3:
        chk.indeterminate("C12.O2", where_of(f, f.node), "regrid signature changed")
        return
    px, py_, pstep = params[0], params[1], params[2]

    # ---- the yield and its loops
    yields = [n for n in ast.walk(f.node) if isinstance(n, ast.Yield) and enclosing_func(n) is f.node]
    if len(yields) != 1 or not isinstance(yields[0].value, ast.Tuple) or len(yields[0].value.elts) != 2:
        chk.indeterminate("C12.O2", where_of(f, f.node), "expected one `yield (level, position)`")
        return
    y = yields[0]
    inner = outer = None
    n = y
    while n is not None and n is not f.node:
        if isinstance(n, ast.For):
            if inner is None:
                inner = n
            elif outer is None:
                outer = n
        n = n.parent
    if inner is None or outer is None:
        chk.indeterminate("C12.O2", where_of(f, y), "expected the yield inside `for pair: for target:`")
        return
    # the pair loop: `for i in range(len(R) - 1)` or `for i, (s, t) in enumerate(zip(R[:-1], R[1:]))`
    elem_sym = {}
    ivar = None
    if isinstance(outer.target, ast.Name):
        ivar = outer.target.id
    elif isinstance(outer.target, ast.Tuple) and len(outer.target.elts) == 2 and isinstance(outer.target.elts[0], ast.Name) \
            and isinstance(outer.iter, ast.Call) and isinstance(outer.iter.func, ast.Name) and outer.iter.func.id == "enumerate" \
            and len(outer.iter.args) == 1 and not outer.iter.keywords:
        tv, seq = outer.target.elts[1], outer.iter.args[0]
        if isinstance(tv, (ast.Tuple, ast.List)) and isinstance(seq, ast.Call) and isinstance(seq.func, ast.Name) and seq.func.id == "zip" \
                and len(seq.args) == len(tv.elts) and all(isinstance(t, ast.Name) for t in tv.elts):
            ok_ = True
            for t, a in zip(tv.elts, seq.args):
                # R[k:] or R[k:-m]: element i is R[i + k]
                if isinstance(a, ast.Subscript) and isinstance(a.value, ast.Name) and isinstance(a.slice, ast.Slice) and a.slice.step is None \
                        and (a.slice.lower is None or (isinstance(a.slice.lower, ast.Constant) and a.slice.lower.value in (0, 1))):
                    elem_sym[t.id] = "%s@%d" % (a.value.id, a.slice.lower.value if a.slice.lower is not None else 0)
                else:
                    ok_ = False
            if ok_:
                ivar = outer.target.elts[0].id
            else:
                elem_sym = {}
    if ivar is None or not isinstance(inner.target, ast.Name):
        chk.indeterminate("C12.O2", where_of(f, outer), "the loop over pairs is neither `for i in range(...)` nor `for i, (a, b) in enumerate(zip(R[:-1], R[1:]))`")
        return
    tvar = inner.target.id
    _pair_coverage(chk, f, flow, mod, outer, ivar, elem_sym, px, py_)
    # yielded level is the target variable
    lvl = y.value.elts[0]
    chk.ob("C12.O3", isinstance(lvl, ast.Name) and lvl.id == tvar, where_of(f, y),
           "yielded level = %s" % ast.unparse(lvl), "the level reported is the target being solved for",
           key="regrid|yield-level", why="reporting another level attaches the crossing to the wrong grid line")

    # ---- O2: symbols S = R[i], T = R[i+1] where R = ceil(y / step)
    # collect subscripts R[i] / R[i+1] used by the target enumeration
    targets_expr = inner.iter
    keep = {ivar}

    def sym_of(node):
        if isinstance(node, ast.Name) and node.id in elem_sym:
            return elem_sym[node.id]
        if isinstance(node, ast.Subscript) and isinstance(node.value, ast.Name):
            try:
                idx = py_poly(node.slice)
            except NotAlgebraic:
                return None
            base = node.value.id
            if idx == Poly.atom(ivar):
                return "%s@0" % base
            if idx == Poly.atom(ivar) + Poly.const(1):
                return "%s@1" % base
        return None

    # find all subscript symbols appearing in the slice of statements of the outer loop body
    bases = set()
    for node in ast.walk(outer):
        s = sym_of(node)
        if s and is_ancestor(outer, node):
            bases.add(s.split("@")[0])
    bases |= {v.split("@")[0] for v in elem_sym.values()}
    # candidate rounded arrays: bases whose definition involves a rounding call
    rounded = {}
    for b in sorted(bases):
        # definition of b reaching the loop header
        probe = None
        for node in ast.walk(outer):
            if isinstance(node, ast.Name) and node.id == b and isinstance(node.ctx, ast.Load):
                probe = node
                break
        v = flow.def_value(probe) if probe is not None else None
        if v is None:
            continue
        ex = flow.expand(v)
        kinds = []
        for c in ast.walk(ex):
            if isinstance(c, ast.Call):
                fn = full_call_name(mod, c)
                if fn in CEILS:
                    kinds.append(("ceil", c))
                elif fn in BAD_ROUND and fn != "int":
                    kinds.append((fn, c))
            if isinstance(c, ast.BinOp) and isinstance(c.op, ast.FloorDiv):
                kinds.append(("floordiv", c))
        if not kinds and _is_int_cast(mod, ex):
            # an integer cast with no rounding call truncates toward zero
            kinds.append(("truncation", ex))
        if kinds:
            rounded[b] = (ex, kinds)
    # (a) levels enumerated in floating point: np.arange with a non-integer step
    fl = _float_enumeration(f, mod, outer, inner, pstep)
    if fl is not None or len(rounded) != 1:
        if fl is not None:
            chk.ob("C12.O2", False, where_of(f, fl),
                   "levels of a pair enumerated by %s" % ast.unparse(fl)[:100],
                   "an integer range between the rounded ends; numpy computes the length of a float arange as ceil((stop - start) / step) "
                   "in floating point, so the level the upper sample sits on can be included",
                   key="regrid|float-enumeration",
                   why="the upper-excluded rule is lost for steps that are not exactly representable (0.1, 0.3, ...): a level is reported twice")
            return
        all_kinds = sorted({k for (_ex, ks) in rounded.values() for (k, _c) in ks})
        if len(rounded) >= 2 and all_kinds != ["ceil"]:
            chk.ob("C12.O2", False, where_of(f, outer),
                   "integer level indices come from %d differently rounded arrays: %s (%s)" % (len(rounded), sorted(rounded), ", ".join(all_kinds)),
                   "both ends of each pair are rounded by the same function (ceil of y / step)",
                   key="regrid|rounding-array", why="mixed rounding counts a level twice or never")
            return
        chk.indeterminate("C12.O2", where_of(f, outer),
                          "the enumeration of a pair's levels is not built from one array of rounded level indices "
                          "subscripted at i and i + 1 (%d candidate arrays)" % len(rounded))
        return
    rname, (rex, kinds) = next(iter(rounded.items()))
    kind, rcall = kinds[0]
    arg_ok = False
    if kind == "ceil" and len(kinds) == 1:
        try:
            ap = py_poly(rcall.args[0])
            arg_ok = ap == Poly.atom(py_) * Poly.atom(pstep).inverse()
        except (NotAlgebraic, IndexError):
            arg_ok = False
    chk.ob("C12.O2", kind == "ceil" and len(kinds) == 1 and arg_ok, where_of(f, outer),
           "level indices %s = %s" % (rname, ast.unparse(rex)[:120]),
           "ceil(y / y_step) for both ends of every pair",
           key="regrid|rounding-function",
           why="floor reports a level below the lower sample; rounding counts levels outside the pair")

    # the two ends of a pair are adjacent elements i, i+1 of the rounded array
    odd = []
    for node in ast.walk(outer):
        if isinstance(node, ast.Subscript) and isinstance(node.value, ast.Name) and node.value.id == rname and not isinstance(node.slice, ast.Slice):
            try:
                ip = py_poly(node.slice)
            except NotAlgebraic:
                continue
            if ip not in (Poly.atom(ivar), Poly.atom(ivar) + Poly.const(1)):
                odd.append(node)
    if odd:
        chk.ob("C12.O2", False, where_of(f, odd[0]), "pair end taken from %s" % ast.unparse(odd[0]),
               "%s[i] and %s[i + 1]: consecutive samples" % (rname, rname), key="regrid|adjacent-pair",
               why="levels between non-adjacent samples are attributed to the wrong segment")
        return
    # order-cell evaluation of the enumeration
    S, T = "%s@0" % rname, "%s@1" % rname
    body = outer.body

    def run_cell(cell):
        """Execute the straight-line/if statements of the outer loop body up
        to the inner loop; return evaluated (lo, hi) of the range feeding it,
        or 'empty'."""
        ev = CellEval(cell, sym_of)
        ranges = {}

        def apply(call, args, evl):
            nm = call.func.id if isinstance(call.func, ast.Name) else None
            if nm in ("list", "reversed", "sorted", "tuple", "iter") and len(call.args) == 1:
                return evl.eval(call.args[0])
            if nm == "range":
                if len(call.args) == 2 and args[0] is not None and args[1] is not None:
                    key = "range#%d" % len(ranges)
                    ranges[key] = (args[0], args[1])
                    return Poly.atom(key)
                if len(call.args) == 3 and args[0] is not None and args[1] is not None and args[2] is not None and args[2].const_or_none() in (1, -1):
                    # range(a, b, -1) enumerates b+1 .. a: as a set, range(b + 1, a + 1)
                    key = "range#%d" % len(ranges)
                    ranges[key] = (args[0], args[1]) if args[2].const_or_none() == 1 else (args[1] + Poly.const(1), args[0] + Poly.const(1))
                    return Poly.atom(key)
                raise Undecided("range with %d args" % len(call.args))
            return None

        ev.apply = apply

        def exec_block(stmts):
            for st in stmts:
                if st is inner:
                    v = ev.eval(inner.iter)
                    return v
                if isinstance(st, ast.Assign):
                    val = st.value
                    tg = st.targets[0]
                    if isinstance(tg, ast.Name):
                        try:
                            ev.env[tg.id] = ev.eval(val)
                        except Undecided:
                            ev.env.pop(tg.id, None)
                    elif isinstance(tg, ast.Tuple) and isinstance(val, ast.Tuple) and len(tg.elts) == len(val.elts):
                        vals = []
                        for e in val.elts:
                            try:
                                vals.append(ev.eval(e))
                            except Undecided:
                                vals.append(None)
                        for t_, v_ in zip(tg.elts, vals):
                            if isinstance(t_, ast.Name) and v_ is not None:
                                ev.env[t_.id] = v_
                elif isinstance(st, ast.If):
                    br = st.body if ev.test(st.test) else st.orelse
                    r = exec_block(br)
                    if r is not None:
                        return r
                elif isinstance(st, (ast.Expr, ast.Pass, ast.Assert, ast.Delete)):
                    continue
                else:
                    raise Undecided("statement %s" % type(st).__name__)
            return None

        v = exec_block(body)
        if v is None:
            return "skipped", None
        st = v.single_term()
        if st and len(st[0]) == 1 and st[0][0][0] in ranges:
            return "range", ranges[st[0][0][0]]
        raise Undecided("inner loop does not iterate over a range")

    expect = {
        "rising": ({S: 0, T: 1}, (S, T)),
        "falling": ({S: 1, T: 0}, (T, S)),
    }
    for label, (cell, (lo, hi)) in expect.items():
        try:
            kind_, rng = run_cell(cell)
        except Undecided as exc:
            chk.indeterminate("C12.O2", where_of(f, outer), "order-cell evaluation (%s pair): %s" % (label, exc))
            continue
        if kind_ == "skipped":
            found = "nothing enumerated"
            ok = False
        else:
            found = "range(%s, %s)" % (rng[0].key(), rng[1].key())
            ok = rng[0] == Poly.atom(lo) and rng[1] == Poly.atom(hi)
        chk.ob("C12.O2", ok, where_of(f, inner),
               "%s pair (%s): targets = %s" % (label, "ceil(Y_i) < ceil(Y_i+1)" if label == "rising" else "ceil(Y_i) > ceil(Y_i+1)", found),
               "range(%s, %s): every integer level in the half-open interval, once" % (lo, hi),
               key="regrid|targets-%s" % label,
               why="an off-by-one bound reports a level outside the pair or drops the lowest level inside it")
    # flat pair
    try:
        kind_, rng = run_cell({S: 0, T: 0})
        empty = kind_ == "skipped" or rng[0] == rng[1] or (rng[0] - rng[1]).is_zero() \
            or {rng[0].key(), rng[1].key()} == {Poly.atom(S).key(), Poly.atom(T).key()}
        chk.ob("C12.O2", empty, where_of(f, inner), "flat pair: %s" % ("empty range" if empty else "range(%s,%s)" % (rng[0].key(), rng[1].key())),
               "a pair with equal rounded ends enumerates nothing", key="regrid|targets-flat")
    except Undecided as exc:
        chk.indeterminate("C12.O2", where_of(f, outer), "order-cell evaluation (flat pair): %s" % exc)

    # ---- O3: bracket
    solves = [c for c in ast.walk(inner) if isinstance(c, ast.Call) and (full_call_name(mod, c) or "").endswith("brentq")]
    # a position computed in closed form on some path (not by the root finder)
    pos_ = y.value.elts[1]
    closed = []
    if isinstance(pos_, ast.Name):
        for dn_ in (flow.reaching_defs(pos_) or ()):
            st_ = flow.cfg.stmt_of.get(dn_)
            v_ = getattr(st_, "value", None)
            if v_ is not None and not any(v_ is c_ for c_ in solves):
                closed.append((st_, v_))
    elif not any(pos_ is c_ for c_ in solves):
        closed.append((y, pos_))
    for st_, v_ in closed:
        ex_ = flow.expand(v_, keep={px, py_, pstep, ivar, tvar})
        nm_ = {n_.id for n_ in ast.walk(ex_) if isinstance(n_, ast.Name)}
        raw_ = [n_ for n_ in ast.walk(ex_) if isinstance(n_, ast.Subscript) and isinstance(n_.value, ast.Name) and n_.value.id == py_]
        # the tests that select this path: a raw sample compared with the target (a grid number)
        mixed_test = None
        a_ = getattr(st_, "parent", None)
        while a_ is not None and a_ is not inner:
            if isinstance(a_, ast.If):
                for cmp_ in ast.walk(a_.test):
                    if isinstance(cmp_, ast.Compare) and len(cmp_.comparators) == 1:
                        sides = [flow.expand(cmp_.left, keep={px, py_, pstep, ivar, tvar}), flow.expand(cmp_.comparators[0], keep={px, py_, pstep, ivar, tvar})]
                        names_s = [{n_.id for n_ in ast.walk(sd_) if isinstance(n_, ast.Name)} for sd_ in sides]
                        raws_s = [[n_ for n_ in ast.walk(sd_) if isinstance(n_, ast.Subscript) and isinstance(n_.value, ast.Name) and n_.value.id == py_] for sd_ in sides]
                        for k_ in (0, 1):
                            if tvar in names_s[k_] and raws_s[1 - k_] and pstep not in (names_s[0] | names_s[1]):
                                mixed_test = (cmp_, raws_s[1 - k_][0])
            a_ = getattr(a_, "parent", None)
        if mixed_test is not None:
            chk.ob("C12.O3", False, where_of(f, mixed_test[0]), "position = %s on the path selected by `%s`: the target %s is a grid number (a multiple of 1 of y / %s), %s is a sample in the units of %s" % (
                       ast.unparse(v_)[:40], ast.unparse(mixed_test[0])[:60], tvar, pstep, ast.unparse(mixed_test[1]), py_),
                   "target and samples on the same scale (both y / step, or both y)", key="regrid|closed-form-scale",
                   why="for a step other than 1 a sample whose raw value equals a level NUMBER is taken for a sample on that level: the knot's abscissa is reported for a level the segment crosses elsewhere")
        elif tvar in nm_ and raw_ and pstep not in nm_:
            chk.ob("C12.O3", False, where_of(f, st_), "position = %s: the target %s is a grid number (a multiple of 1 of y / %s), %s is a sample in the units of %s" % (
                       ast.unparse(v_)[:90], tvar, pstep, ast.unparse(raw_[0]), py_),
                   "target and samples on the same scale (both y / step, or both y)", key="regrid|closed-form-scale",
                   why="for any step other than 1 the point returned is where the segment reaches level number = y, not level number x step: it is not a crossing of a multiple of the step and can lie outside the pair")
        else:
            chk.indeterminate("C12.O3", where_of(f, st_), "the position is computed in closed form (%s) on some path; this rule reads positions found by brentq on the interpolant" % ast.unparse(v_)[:70])
    if len(solves) != 1:
        chk.indeterminate("C12.O3", where_of(f, inner), "expected exactly one brentq call in the target loop, found %d" % len(solves))
    else:
        c = solves[0]
        args = list(c.args)
        kw = {k.arg: k.value for k in c.keywords}
        fa = args[0] if args else kw.get("f")
        a = args[1] if len(args) > 1 else kw.get("a")
        b = args[2] if len(args) > 2 else kw.get("b")

        def xidx(node):
            if isinstance(node, ast.Subscript) and isinstance(node.value, ast.Name) and node.value.id == px:
                try:
                    return py_poly(node.slice)
                except NotAlgebraic:
                    return None
            return None

        a = flow.expand(a, keep={px, ivar}) if a is not None else a       # through temporaries
        b = flow.expand(b, keep={px, ivar}) if b is not None else b
        ia, ib = xidx(a), xidx(b)
        i0, i1 = Poly.atom(ivar), Poly.atom(ivar) + Poly.const(1)
        ok = ia is not None and ib is not None and {ia.key(), ib.key()} == {i0.key(), i1.key()}
        if ia is None or ib is None:
            chk.indeterminate("C12.O3", where_of(f, c), "bracket [%s, %s] is not a pair of elements of the abscissa array" % (
                ast.unparse(a)[:40] if a is not None else "?", ast.unparse(b)[:40] if b is not None else "?"))
        else:
          chk.ob("C12.O3", ok, where_of(f, c),
               "bracket = [%s, %s]" % (ast.unparse(a) if a is not None else "?", ast.unparse(b) if b is not None else "?"),
               "[x[i], x[i+1]] for the pair index i that produced the targets",
               key="regrid|bracket", why="a bracket from another pair puts the crossing between the wrong samples")
        # function: interpolant(x) - target
        okf = False
        desc = ast.unparse(fa)[:100] if fa is not None else "?"
        # a local `def g(x, t): return spline(x) - t` passed with args=(target,) is the same thing as the lambda
        extra_args = kw.get("args")
        body_ = None
        if isinstance(fa, ast.Name):
            for d_ in ast.walk(f.node):
                if isinstance(d_, ast.FunctionDef) and d_ is not f.node and d_.name == fa.id:
                    stmts_ = [b_ for b_ in d_.body if not (isinstance(b_, ast.Expr) and isinstance(b_.value, ast.Constant))]
                    if len(stmts_) == 1 and isinstance(stmts_[0], ast.Return) and stmts_[0].value is not None and not d_.args.defaults:
                        pn_ = [x.arg for x in d_.args.args]
                        xa_ = list(extra_args.elts) if isinstance(extra_args, ast.Tuple) else ([] if extra_args is None else None)
                        if xa_ is not None and len(pn_) == 1 + len(xa_):
                            fa = ast.Lambda(args=ast.arguments(posonlyargs=[], args=[ast.arg(arg=pn_[0])] + [ast.arg(arg=q) for q in pn_[1:]],
                                                               kwonlyargs=[], kw_defaults=[], defaults=xa_), body=stmts_[0].value)
                            desc = "def %s(%s): return %s ; args=%s" % (d_.name, ", ".join(pn_), ast.unparse(stmts_[0].value)[:60],
                                                                          ast.unparse(extra_args) if extra_args is not None else "()")
        if not isinstance(fa, ast.Lambda):
            chk.indeterminate("C12.O3", where_of(f, c), "the function handed to brentq (%s) is neither a lambda nor a one-line local function" % desc)
        if isinstance(fa, ast.Lambda):
            largs = fa.args
            pnames = [x.arg for x in largs.args]
            defaults = dict(zip(pnames[len(pnames) - len(largs.defaults):], largs.defaults))
            body_ = fa.body
            if isinstance(body_, ast.BinOp) and isinstance(body_.op, ast.Sub):
                lhs, rhs = body_.left, body_.right
                rhs_is_target = False
                if isinstance(rhs, ast.Name):
                    if rhs.id == tvar and rhs.id not in pnames:
                        rhs_is_target = True
                    elif rhs.id in defaults and isinstance(defaults[rhs.id], ast.Name) and defaults[rhs.id].id == tvar:
                        rhs_is_target = True
                lhs_is_interp = False
                if isinstance(lhs, ast.Call) and isinstance(lhs.func, ast.Name) and len(lhs.args) == 1 \
                        and isinstance(lhs.args[0], ast.Name) and lhs.args[0].id == pnames[0]:
                    iv = flow.def_value(lhs.func)
                    if iv is None:
                        # `spline = None` on the path that uses a closed form: the interpolant is the definition that builds one
                        vals_ = [getattr(flow.cfg.stmt_of.get(d_), "value", None) for d_ in (flow.reaching_defs(lhs.func) or ())]
                        vals_ = [v_ for v_ in vals_ if v_ is not None and not (isinstance(v_, ast.Constant) and v_.value is None)]
                        iv = vals_[0] if len(vals_) == 1 else None
                    if isinstance(iv, ast.Call) and (full_call_name(mod, iv) or "").endswith("interp1d"):
                        # interp1d(x, y/step, kind=interpolant)
                        try:
                            a0 = py_poly(iv.args[0], flow.resolver())
                            a1 = py_poly(iv.args[1], flow.resolver())
                            lhs_is_interp = a0 == Poly.atom(px) and a1 == Poly.atom(py_) * Poly.atom(pstep).inverse()
                            kinds_kw = {k.arg: k.value for k in iv.keywords}
                            kk = kinds_kw.get("kind", iv.args[2] if len(iv.args) > 2 else None)
                            if kk is None:
                                pass  # interp1d default is linear
                            elif isinstance(kk, ast.Name) and len(params) > 3 and kk.id == params[3]:
                                pass
                            elif isinstance(kk, ast.Constant) and kk.value == "linear":
                                pass
                            else:
                                lhs_is_interp = False
                        except (NotAlgebraic, IndexError):
                            lhs_is_interp = False
                okf = rhs_is_target and lhs_is_interp
        if isinstance(fa, ast.Lambda):
          chk.ob("C12.O3", okf, where_of(f, c), "root function = %s" % desc,
               "interp1d(x, y / y_step)(x) - target",
               key="regrid|root-function", why="solving another equation does not locate the crossing of that level")
        # yielded position is the root
        pos = y.value.elts[1]
        pv = flow.def_value(pos) if isinstance(pos, ast.Name) else pos
        if closed:
            pass
        else:
          chk.ob("C12.O3", pv is c, where_of(f, y), "yielded position = %s" % (ast.unparse(pv)[:80] if pv is not None else ast.unparse(pos)),
               "the brentq root", key="regrid|yield-position")

    # ---- O4: default interpolant, caller does not override
    dflt = None
    a_ = f.node.args
    if len(params) > 3 and a_.defaults:
        allp = a_.posonlyargs + a_.args
        dmap = dict(zip([x.arg for x in allp][len(allp) - len(a_.defaults):], a_.defaults))
        dflt = dmap.get(params[3])
    chk.ob("C12.O4", isinstance(dflt, ast.Constant) and dflt.value == "linear", where_of(f, f.node),
           "default interpolant = %s" % (ast.unparse(dflt) if dflt is not None else "none"), "'linear'",
           key="regrid|default-interpolant", why="a curved interpolant moves every crossing off the straight line")
    callers = 0
    for fq, calls in ctx.cg.calls.items():
        for call, tg in calls:
            if f.fq in tg and ctx.cg.func(fq).module.name != "regrid":
                callers += 1
                override = len(call.args) > 3 or any(k.arg == params[3] for k in call.keywords if len(params) > 3) \
                    or any(k.arg is None for k in call.keywords)
                chk.ob("C12.O4", not override, where_of(ctx.cg.func(fq), call),
                       "caller passes %d positional args%s" % (len(call.args), ", overrides interpolant" if override else ""),
                       "callers keep the linear default", key="%s|regrid-call-interpolant" % fq)
                # argument order (x = abscissa, y = level, step)
                cf = ctx.cg.func(fq)
    chk.floor("callers of regrid.regrid", callers, 1)

    # ---- O5: averaging of repeated crossings
    _averaging(ctx, chk)


def _pair_coverage(chk, f, flow, mod, outer, ivar, elem_sym, px, py_):
    """C12.O2: the outer loop visits every pair of consecutive samples (0 .. n-2) once.  A loop over a filtered index
    array is read: a filter that is exact (rounded or raw ends differ) keeps every pair that has a crossing; a
    tolerance test (isclose / allclose / abs(.) > eps) drops pairs that have one."""
    where = where_of(f, outer)
    req = "every pair of consecutive samples is visited once (pairs without a crossing may be skipped only by an exact test)"
    why = "a skipped pair loses every level crossed between its two samples"
    # a pair abandoned inside the loop: `if T: continue` before the level loop.  Whether a pair has a crossing depends on its
    # two ordinates only; a test that reads the abscissae (spacing in time) skips pairs that have crossings
    for st_ in outer.body:
        if isinstance(st_, ast.For):
            break
        if isinstance(st_, ast.If) and any(isinstance(x_, (ast.Continue, ast.Break)) for b_ in st_.body for x_ in ast.walk(b_)):
            tx = flow.expand(st_.test, keep={px, py_})
            names_ = {n_.id for n_ in ast.walk(tx) if isinstance(n_, ast.Name)}
            if px in names_ and py_ not in names_:
                chk.ob("C12.O2", False, where_of(f, st_), "a pair of consecutive samples is skipped when `%s` (= %s): a test of the abscissae" % (ast.unparse(st_.test)[:40], ast.unparse(tx)[:70]),
                       req, key="regrid|pair-skipped-by-abscissa", local=True,
                       why=why + "; the record is piecewise linear between consecutive samples however far apart they are in time, so every multiple of the step between their ordinates is a crossing")
                return
    it = outer.iter
    if elem_sym:
        # enumerate(zip(R[:-1], R[1:])): all pairs by construction (the slices were matched above)
        seq = it.args[0]
        ok = all(isinstance(a, ast.Subscript) and isinstance(a.slice, ast.Slice) for a in seq.args)
        lows = sorted((a.slice.lower.value if a.slice.lower is not None else 0) for a in seq.args)
        ups = sorted(ast.unparse(a.slice.upper) if a.slice.upper is not None else "" for a in seq.args)
        chk.ob("C12.O2", ok and lows == [0, 1] and ups == ["", "-1"], where, "pairs = %s" % ast.unparse(seq)[:80], req, key="regrid|pair-coverage", why=why)
        return

    def samples_len(e):
        """len(A) - 1 with A one of the sample arrays (or .size / .shape[0])."""
        try:
            p = py_poly(e, callname=lambda c: ("LEN" if (isinstance(c.func, ast.Name) and c.func.id == "len" and len(c.args) == 1) else None))
        except NotAlgebraic:
            return None
        ats = sorted(p.atoms())
        if len(ats) != 1 or not ats[0].startswith("LEN("):
            return None
        if p.coeff_of_atom(ats[0]).const_or_none() != 1:
            return None
        return p.without_atom(ats[0]).const_or_none()

    itv = flow.def_value(it) if isinstance(it, ast.Name) else it
    if isinstance(itv, ast.Call) and isinstance(itv.func, ast.Name) and itv.func.id == "range" and not itv.keywords:
        a = itv.args
        start = 0
        if len(a) >= 2:
            try:
                start = py_poly(a[0]).const_or_none()
            except NotAlgebraic:
                start = None
        stop = samples_len(a[0] if len(a) == 1 else a[1])
        step_ok = len(a) < 3 or (isinstance(a[2], ast.Constant) and a[2].value == 1)
        if start is None or stop is None or not step_ok:
            chk.indeterminate("C12.O2", where, "bounds of the pair loop %s not read" % ast.unparse(itv)[:60])
            return
        chk.ob("C12.O2", start == 0 and stop == -1, where, "pairs i = %s .. len%+d - 1" % (start, int(stop)), req + ": i = 0 .. len - 2", key="regrid|pair-coverage", why=why)
        return
    # a filtered index array: np.flatnonzero(C) / np.nonzero(C)[0] / np.where(C)[0]
    core = itv
    while isinstance(core, ast.Subscript) and isinstance(core.slice, ast.Constant) and core.slice.value == 0:
        core = core.value
    if isinstance(core, ast.Call) and (full_call_name(mod, core) or "").split(".")[-1] in ("flatnonzero", "nonzero", "where", "argwhere") and len(core.args) == 1:
        cond = flow.expand(core.args[0])
        txt = ast.unparse(cond)
        tol = [c for c in ast.walk(cond) if isinstance(c, ast.Call) and (full_call_name(mod, c) or "").split(".")[-1] in ("isclose", "allclose")]
        tol += [c for c in ast.walk(cond) if isinstance(c, ast.Compare) and len(c.ops) == 1 and isinstance(c.ops[0], (ast.Gt, ast.GtE, ast.Lt, ast.LtE))
                and any(isinstance(x, ast.Call) and (full_call_name(mod, x) or "").split(".")[-1] in ("abs", "fabs", "absolute") for x in ast.walk(c))]
        if tol:
            chk.ob("C12.O2", False, where_of(f, tol[0]) if hasattr(tol[0], "lineno") else where,
                   "pairs are selected by a tolerance test (%s): a pair whose ends differ by less than the tolerance is skipped although a level can lie between them" % txt[:80],
                   req, key="regrid|pair-coverage", why=why + "; numpy's isclose is relative to the magnitude of the values (rtol 1e-5), so the tolerance grows with |level / step|")
            return
        exact = isinstance(cond, ast.Compare) and len(cond.ops) == 1 and isinstance(cond.ops[0], ast.NotEq)
        if exact:
            l, r = cond.left, cond.comparators[0]
            shape = None
            if isinstance(l, ast.Subscript) and isinstance(r, ast.Subscript) and ast.dump(l.value) == ast.dump(r.value):
                sl = sorted([ast.unparse(l.slice), ast.unparse(r.slice)])
                shape = set(sl) == {":-1", "1:"}
            elif isinstance(l, ast.Call) and (full_call_name(mod, l) or "").endswith("diff") and isinstance(r, ast.Constant) and r.value == 0:
                shape = True
            if shape:
                chk.ob("C12.O2", True, where, "pairs with different ends only (%s): exact test, a pair with equal ends has no level between them" % txt[:70], req, key="regrid|pair-coverage", why=why)
                return
        chk.indeterminate("C12.O2", where, "pairs are selected by %s: not an exact test this rule reads" % txt[:80])
        return
    chk.indeterminate("C12.O2", where, "which pairs the loop over %s visits is not read" % ast.unparse(it)[:60])


def _averaging(ctx, chk):
    f = ctx.func("fit_offsets.build_head_mapping")
    flow = Flow.of(f)
    mod = f.module
    # the append that fills the returned mapping with (series_id, value)
    rets = [n for n in ast.walk(f.node) if isinstance(n, ast.Return) and n.value is not None]
    rv = rets[0].value if len(rets) == 1 else None
    if isinstance(rv, ast.Call) and isinstance(rv.func, ast.Name) and rv.func.id == "dict" and len(rv.args) == 1 and not rv.keywords:
        rv = rv.args[0]          # return dict(mapping): a copy of a defaultdict
    if not isinstance(rv, ast.Name):
        chk.indeterminate("C12.O5", where_of(f, f.node), "expected a single `return <mapping>`")
        return
    mname = rv.id
    appends = []
    for c in ast.walk(f.node):
        if isinstance(c, ast.Call) and isinstance(c.func, ast.Attribute) and c.func.attr == "append" and len(c.args) == 1:
            recv = c.func.value
            root = recv
            while isinstance(root, (ast.Call, ast.Attribute, ast.Subscript)):
                root = root.func if isinstance(root, ast.Call) else root.value
            if isinstance(root, ast.Name) and root.id == mname:
                appends.append(c)
    if len(appends) != 1:
        chk.indeterminate("C12.O5", where_of(f, f.node), "expected one append into the returned mapping, found %d" % len(appends))
        return
    ap = appends[0]
    item = ap.args[0]
    if not (isinstance(item, ast.Tuple) and len(item.elts) == 2):
        chk.indeterminate("C12.O5", where_of(f, ap), "appended item is not a (series, value) pair")
        return
    val = item.elts[1]
    from ..loops import binding as _lb
    MEANS = ("numpy.mean", "numpy.average", "statistics.mean", "statistics.fmean")

    def partner_key(b):
        """key variable of the .items() loop / generator that binds a 'value' variable"""
        t = b.loop.target
        if isinstance(t, (ast.Tuple, ast.List)) and len(t.elts) == 2 and isinstance(t.elts[0], ast.Name):
            return t.elts[0].id
        return None

    # (value expression, accumulator name, key variable that pairs with it): followed through
    # `for k, m in {k2: mean(v2) for k2, v2 in ACC.items()}.items()`
    vex = flow.def_value(val) if isinstance(val, ast.Name) else val
    key_var = None
    verdict = None          # None = not read
    desc = ast.unparse(vex)[:80] if vex is not None else ast.unparse(val)
    key_used = _mapping_key(ap.func.value)
    if vex is None and isinstance(val, ast.Name):
        b = _lb(val)
        if b is not None and b.kind == "value" and isinstance(b.container, (ast.Name, ast.DictComp)):
            dv = flow.def_value(b.container) if isinstance(b.container, ast.Name) else b.container
            kouter = partner_key(b)
            if isinstance(dv, ast.DictComp) and len(dv.generators) == 1 and not dv.generators[0].ifs and isinstance(dv.key, ast.Name) \
                    and isinstance(dv.generators[0].target, (ast.Tuple, ast.List)) and len(dv.generators[0].target.elts) == 2 \
                    and isinstance(dv.generators[0].target.elts[0], ast.Name) and dv.key.id == dv.generators[0].target.elts[0].id \
                    and key_used is not None and key_used == kouter:
                vex = dv.value
                desc = "%s (through %s)" % (ast.unparse(vex)[:60], ast.unparse(dv)[:50])
                key_used = dv.key.id
    if isinstance(vex, ast.Call) and vex.args and isinstance(vex.args[0], ast.Name):
        fn = full_call_name(mod, vex) or ""
        arg = vex.args[0]
        b = _lb(arg)
        if b is not None and b.kind == "value" and isinstance(b.container, ast.Name) and partner_key(b) == key_used and key_used is not None:
            acc = b.container.id
            # the accumulator is filled per series from regrid's (level, position) pairs
            fills = [c for c in ast.walk(f.node)
                     if isinstance(c, ast.Call) and isinstance(c.func, ast.Attribute) and c.func.attr == "append"
                     and c is not ap and _root_name(c.func.value) == acc]
            filled = False
            for fc in fills:
                rl = fc
                while rl is not None and not (isinstance(rl, ast.For) and isinstance(rl.iter, ast.Call)
                                               and any(t.endswith("regrid.regrid") or t == "regrid.regrid" for t in ctx.cg.resolve_callee(f, rl.iter.func))):
                    rl = getattr(rl, "parent", None)
                if rl is not None and isinstance(rl.target, ast.Tuple) and len(rl.target.elts) == 2:
                    lv, ps = rl.target.elts
                    if isinstance(lv, ast.Name) and isinstance(ps, ast.Name) and _mapping_key(fc.func.value) == lv.id \
                            and isinstance(fc.args[0], ast.Name) and fc.args[0].id == ps.id:
                        filled = True
            if filled:
                # the per-level list of this series' crossing positions is reduced by `fn`
                verdict = fn in MEANS
    elif isinstance(vex, ast.Subscript) and isinstance(vex.value, ast.Name):
        b = _lb(vex.value)
        if b is not None and b.kind == "value" and partner_key(b) == key_used and key_used is not None:
            verdict = False          # one element of the list instead of its mean
    if verdict is None:
        chk.indeterminate("C12.O5", where_of(f, ap), "value entered per (series, level) = %s: not traced to the list of that series' crossings of that level" % desc)
    else:
        chk.ob("C12.O5", verdict, where_of(f, ap),
               "value entered per (series, level) = %s" % desc,
               "mean of that series' crossing positions of that level",
               key="fit_offsets|build_head_mapping|averaging",
               why="taking the first/last/median crossing changes the master curve wherever a level is crossed repeatedly")
    # series id in the pair is the enumerate index of the series loop
    sid = item.elts[0]
    sl = ap
    while sl is not None and not (isinstance(sl, ast.For) and isinstance(sl.iter, ast.Call)
                                  and isinstance(sl.iter.func, ast.Name) and sl.iter.func.id == "enumerate"):
        sl = getattr(sl, "parent", None)
    ok_sid = sl is not None and isinstance(sl.target, ast.Tuple) and isinstance(sl.target.elts[0], ast.Name) \
        and isinstance(sid, ast.Name) and sid.id == sl.target.elts[0].id
    chk.ob("C12.O5", ok_sid, where_of(f, ap), "series id entered = %s" % ast.unparse(sid),
           "index of the series whose samples were regridded", key="fit_offsets|build_head_mapping|series-id")
    # regrid call arguments: (abscissa, level, step) in that order from the (t, H) pair
    for c in ast.walk(f.node):
        if isinstance(c, ast.Call) and any(t == "regrid.regrid" for t in ctx.cg.resolve_callee(f, c.func)):
            lp = c
            while lp is not None and not (isinstance(lp, ast.For) and isinstance(lp.iter, ast.Call)
                                          and isinstance(lp.iter.func, ast.Name) and lp.iter.func.id == "enumerate"):
                lp = getattr(lp, "parent", None)
            ok_args = False
            if lp is not None and isinstance(lp.target, ast.Tuple) and isinstance(lp.target.elts[1], ast.Tuple) \
                    and len(lp.target.elts[1].elts) == 2 and len(c.args) >= 3:
                tn, hn = lp.target.elts[1].elts
                a0, a1, a2 = c.args[:3]
                ok_args = isinstance(a0, ast.Name) and isinstance(tn, ast.Name) and a0.id == tn.id \
                    and isinstance(a1, ast.Name) and isinstance(hn, ast.Name) and a1.id == hn.id \
                    and isinstance(a2, ast.Name) and a2.id in f.params
            chk.ob("C12.O5", ok_args, where_of(f, c), "regrid(%s)" % ", ".join(ast.unparse(a) for a in c.args),
                   "regrid(abscissa, level, step) of the same series", key="fit_offsets|build_head_mapping|regrid-args",
                   why="swapped axes regrid time instead of level")


def _iter_items(loop):
    it = loop.iter
    # list(x.items()) or x.items()
    if isinstance(it, ast.Call) and isinstance(it.func, ast.Name) and it.func.id in ("list", "sorted", "tuple") and it.args:
        it = it.args[0]
    if isinstance(it, ast.Call) and isinstance(it.func, ast.Attribute) and it.func.attr == "items" and isinstance(it.func.value, ast.Name):
        return it.func.value.id
    return None


def _root_name(node):
    while isinstance(node, (ast.Call, ast.Attribute, ast.Subscript)):
        node = node.func if isinstance(node, ast.Call) else node.value
    return node.id if isinstance(node, ast.Name) else None


def _mapping_key(recv):
    """Key used in m.setdefault(k, []) / m[k]."""
    if isinstance(recv, ast.Call) and isinstance(recv.func, ast.Attribute) and recv.func.attr == "setdefault" and recv.args:
        k = recv.args[0]
        return k.id if isinstance(k, ast.Name) else None
    if isinstance(recv, ast.Subscript):
        k = recv.slice
        return k.id if isinstance(k, ast.Name) else None
    return None
