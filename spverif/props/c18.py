"""C18 -- the simulated recession curve obeys the water-balance equation.

 O1 integrand normal form = Sy / (-ET - curvature * T)
 O2 cell integrals / cumulative sum / mean shift (as C17.O1-O2)
 O3 units: every converted keyword argument, SQL alias and bound name of
    the command carries the unit of its expression; the denominator adds
    like units (km^-1 x m2/d = mm/d)
 O4 ET is averaged over all steps of the recession intervals: the ET
    query bounds the ET time column by both ends of each interval
 O5 output rows from highest to lowest level (ordering parity); labels,
    columns and units agree
"""

import ast

from .. import simfacts
from ..flow import Flow
from ..norm import NotAlgebraic, Poly, py_poly
from ..report import where_of
from ..source import dotted_name, enclosing_func, enclosing_stmt
from ..sqlbind import binding_of, select_column_name
from ..sqlmodel import conjuncts, walk_expr
from ..units import DIMENSIONLESS, FlowUnits, UnitError, UnitEval, div, fmt, mul, unit_of_name
from .c17 import resolve_vector, check_output_table, column_role, sql_alias_unit, strip_tolist, vector_dumps, output_table


def _section_keys(e):
    """Constant keys of subscript chains X['a']['b'] in an expression: [('a', 'b'), ...]"""
    out = []
    for n in ast.walk(e):
        if isinstance(n, ast.Subscript) and isinstance(n.slice, ast.Constant) and isinstance(n.slice.value, str):
            chain = []
            m = n
            while isinstance(m, ast.Subscript) and isinstance(m.slice, ast.Constant) and isinstance(m.slice.value, str):
                chain.append(m.slice.value)
                m = m.value
            out.append(tuple(reversed(chain)))
    # keep maximal chains only
    return [c for c in out if not any(o != c and o[:len(c)] == c for o in out)]


def _conversion_keyed_on_own_section(ctx, chk, g):
    """The m2/s -> m2/d conversion applies to the PEATCLSM *transmissivity*: the test that selects it reads the
    `type` of the section the transmissivity function is built from.  The two sections of a parameter file carry
    independent types."""
    flow = Flow.of(g)
    fac = [c for c in ast.walk(g.node) if isinstance(c, ast.Call) and ctx.cg.resolve_callee(g, c.func) == ["transmissivity.create_transmissivity_function"]]
    secs = set()
    for c in fac:
        if c.args:
            for ch in _section_keys(flow.expand(c.args[0], keep=set(g.params))):
                secs.add(ch[0])
    tests = []
    for n in ast.walk(g.node):
        if isinstance(n, (ast.If, ast.IfExp)) and enclosing_func(n) is g.node:
            te = flow.expand(n.test, keep=set(g.params))
            if any(isinstance(k, ast.Constant) and k.value == "peatclsm" for k in ast.walk(te)):
                tests.append((n, te))
    if len(secs) != 1 or not tests:
        chk.indeterminate("C18.O3", where_of(g, g.node), "the test selecting the PEATCLSM unit conversion, or the section the transmissivity is built from, is not read (sections %s, %d tests)" % (sorted(secs), len(tests)))
        return
    sec = next(iter(secs))
    for n, te in tests:
        chains = [ch for ch in _section_keys(te) if ch[-1] == "type"]
        if not chains:
            chk.indeterminate("C18.O3", where_of(g, n), "test `%s` compares with 'peatclsm' but the section it reads is not identified" % ast.unparse(n.test)[:60])
            continue
        own = all(len(ch) >= 2 and ch[-2] == sec for ch in chains)
        chk.ob("C18.O3", own, where_of(g, n), "m2/s -> m2/d conversion selected by %s; transmissivity built from section '%s'" % (", ".join("[%s]" % "][".join(repr(k) for k in ch) for ch in chains), sec),
               "the type of the section the transmissivity function is built from", key="simulate_recession|conversion-own-section",
               why="each section of the parameter file has its own type: keyed on the other section, a PEATCLSM transmissivity in m2/s enters the balance as m2/d (or a spline one is multiplied by 86400)")


def run(ctx, chk, tier="quick"):
    chk.explanation = (
        "Algebraic normal form of the integrand of compute_recession_curve against the water-balance "
        "equation; affine index facts of the cell integrals; unit bookkeeping (identifier-suffix "
        "convention, SQL aliases, conversion literals) through the simulate-recession command; the "
        "interval predicate of the ET query against the closed-interval convention of recession "
        "intervals; ordering parity and label/unit agreement of the tabulated output."
    )
    chk.assumptions = ["scipy.integrate.quad integrates its first argument between its 2nd and 3rd",
                       "identifier suffixes state units; `curvature_km` means km^-1 (override table)"]
    from ..sqlrules import lossy_functions
    lossy_functions(ctx, chk, "C18.O3", ("simulate_recession",), "simulate_recession",
                    "the level column is both the grid of the integration and the first column of the table: rounded levels give zero-width and double-width cells and attach measured times to other levels")
    from .. import sqltypes
    sqltypes.check(ctx, chk, "C18.O3", modules=("simulate_recession",), views=("average_recession_time",))
    f = ctx.func("simulate_recession.compute_recession_curve")
    p = f.params  # specific_yield, transmissivity_m2_d, zeta_grid_mm, mean_elapsed_time_d, curvature_km, et_mm_d
    if len(p) < 6:
        chk.indeterminate("C18.O1", where_of(f, f.node), "compute_recession_curve signature changed")
        return
    sy, tr, grid, mean, curv, et = p[:6]
    from ..perm import sorted_values_regathered
    from ..perm import fixed_order_quadrature
    fixed_order_quadrature(ctx, chk, "C18.O2", ('simulate_recession',), "simulate_recession", 'a cell integral from a fixed-order rule is not the integral of the water-balance integrand between the two levels: refining the grid changes values at shared levels')
    sorted_values_regathered(ctx, chk, "C18.O2", ('simulate_recession', 'transmissivity'), "simulate_recession")
    facts, probs = simfacts.extract(ctx, f, grid, mean)
    simfacts.report(chk, "C18.O2", "C18.O2", f, facts, probs, "elapsed time", "quadrature of the integrand")
    flow = Flow.of(f)
    if facts is not None:
        c = facts.call
        fn = dotted_name(c.func) or ""
        isquad = fn.split(".")[-1] == "quad" and facts.result_index == "0"
        integrand = c.args[0] if c.args else None
        chk.ob("C18.O2", isquad, where_of(f, c), "cell value = %s[%s]" % (ast.unparse(c)[:80], facts.result_index),
               "quad(integrand, lower, upper)[0]", key="compute_recession_curve|quad-call",
               why="element 1 of quad's result is the error estimate")
        # ---- O1 integrand
        idef = None
        if isinstance(integrand, ast.Name):
            for q, fi in f.module.functions.items():
                if q == "%s.<locals>.%s" % (f.qualname, integrand.id):
                    idef = fi
        if isinstance(integrand, ast.Lambda):
            body, arg = integrand.body, integrand.args.args[0].arg
            inode = integrand
        elif idef is not None:
            rets = [n for n in ast.walk(idef.node) if isinstance(n, ast.Return) and n.value is not None]
            body = rets[0].value if len(rets) == 1 else None
            arg = idef.params[0] if idef.params else None
            inode = idef.node
        else:
            body = arg = inode = None
        if body is None:
            chk.indeterminate("C18.O1", where_of(f, c), "integrand function not found")
        else:
            def callname(call):
                d = dotted_name(call.func)
                if d in (sy, tr):
                    return d
                return None
            # names of the enclosing function that the integrand closes over: bound once there to an expression of the parameters
            def closure_value(name_node):
                if name_node.id in (arg, et, curv) or name_node.id in f.params:
                    return None
                stores = [n for n in ast.walk(f.node) if isinstance(n, ast.Assign) and len(n.targets) == 1 and isinstance(n.targets[0], ast.Name)
                          and n.targets[0].id == name_node.id]
                other = [n for n in ast.walk(f.node) if isinstance(n, ast.Name) and isinstance(n.ctx, ast.Store) and n.id == name_node.id]
                if len(stores) == 1 and len(other) == 1 and enclosing_func(stores[0]) is f.node:
                    return stores[0].value
                return None
            try:
                got = py_poly(body, resolve=closure_value, callname=callname)
                spec = ast.parse("%s(%s) / (-%s - %s * %s(%s))" % (sy, arg, et, curv, tr, arg), mode="eval").body
                want = py_poly(spec, callname=callname)
                chk.ob("C18.O1", got == want, where_of(f, inode), "integrand = %s" % got.key(), want.key(),
                       key="compute_recession_curve|integrand",
                       why="dt/dzeta = Sy / (-ET - curvature x T): any other form breaks the water balance")
            except NotAlgebraic as exc:
                chk.indeterminate("C18.O1", where_of(f, inode), "integrand not algebraic: %s" % exc)
            # units of the denominator
            try:
                ue = UnitEval(call_unit=lambda call, ev: unit_of_name(dotted_name(call.func) or "") or (DIMENSIONLESS if dotted_name(call.func) == sy else None))
                den = body.right if isinstance(body, ast.BinOp) and isinstance(body.op, ast.Div) else None
                if den is not None:
                    ud = ue.unit(den)
                    cell_unit = mul(div(DIMENSIONLESS, ud), unit_of_name(grid))
                    dname = facts.increments
                    du = unit_of_name(dname)
                    chk.ob("C18.O3", True, where_of(f, inode), "denominator terms add in unit [%s]" % fmt(ud),
                           "ET [mm/d] and curvature x T [km^-1 x m2/d] are the same unit", key="compute_recession_curve|denominator-unit")
                    if du is not None:
                        chk.ob("C18.O3", du == cell_unit, where_of(f, facts.store),
                               "integral of 1/[%s] over [%s] = [%s]; stored in %s [%s]" % (fmt(ud), fmt(unit_of_name(grid)), fmt(cell_unit), dname, fmt(du)),
                               "elapsed time in days", key="compute_recession_curve|cell-unit")
            except UnitError as exc:
                chk.ob("C18.O3", False, where_of(f, inode), "denominator: %s" % exc,
                       "ET [mm/d] and curvature x T [km^-1 x m2/d] are the same unit", key="compute_recession_curve|denominator-unit",
                       why="adding terms in different units is off by powers of ten")

    _command(ctx, chk, f)


def _command(ctx, chk, compute):
    g = ctx.func("simulate_recession.simulate_recession")
    gflow = Flow.of(g)
    p = compute.params
    sites = [s for s in ctx.sites_in(g) if s.stmt is not None and s.stmt.kind == "select"]
    curve_site = et_site = curv_site = None
    for s in sites:
        tabs = {src.table for src in s.stmt.sources}
        if "average_recession_time" in tabs:
            curve_site = s
        elif "evapotranspiration" in tabs:
            et_site = s
        elif tabs == {"curvature"} and s.stmt.columns and s.stmt.columns[0][0][0] == "col":
            curv_site = s
    if curve_site is None or et_site is None or curv_site is None:
        chk.indeterminate("C18.O3", where_of(g, g.node), "master-curve / ET / curvature queries not all found")
        return
    roles = {}
    units_of = {}
    for s in (curve_site, et_site, curv_site):
        b = binding_of(ctx, g, s)
        if b is None:
            chk.indeterminate("C18.O3", where_of(g, s.call), "result binding not recognised")
            continue
        from ..report import row_integrity
        row_integrity(chk, "C18.O3", g, b, "simulate_recession|row-integrity")
        for i, nm in enumerate(b.names):
            if nm is None:
                continue
            ue, ua, cname = sql_alias_unit(s.stmt, i)
            if ue is not None and ua is not None:
                chk.ob("C18.O3", ue == ua, where_of(g, s.call), "SQL column %s: expression [%s], name [%s]" % (cname, fmt(ue), fmt(ua)),
                       "alias unit = expression unit", key="simulate_recession|sql-alias-unit|%s" % cname,
                       why="a conversion constant that does not match the alias scales every value")
            pu = unit_of_name(nm)
            cu = ua if ua is not None else ue
            if pu is not None and cu is not None:
                chk.ob("C18.O3", pu == cu, where_of(g, b.stmt), "Python name %s [%s] bound to SQL column %s [%s]" % (nm, fmt(pu), cname, fmt(cu)),
                       "name and column carry the same unit", key="simulate_recession|bind-unit|%s" % nm)
            if s is curve_site:
                roles[nm] = column_role(s.stmt.columns[i][0])
    # ---- call of compute_recession_curve: units of every keyword
    calls = [c for c in ast.walk(g.node) if isinstance(c, ast.Call) and ctx.cg.resolve_callee(g, c.func) == [compute.fq]]
    if len(calls) != 1:
        chk.indeterminate("C18.O3", where_of(g, g.node), "call of compute_recession_curve not found")
        return
    c = calls[0]
    bind = {}
    for i, a in enumerate(c.args):
        bind[p[i]] = a
    for k in c.keywords:
        bind[k.arg] = k.value

    def call_unit(call, ev):
        fn = dotted_name(call.func) or ""
        last = fn.split(".")[-1]
        if last in ("array", "asarray", "mean", "float") and call.args:
            return ev.unit(call.args[0])
        if isinstance(call.func, ast.Attribute) and call.func.attr == "mean" and not call.args:
            return ev.unit(call.func.value)
        u = unit_of_name(last)
        return u

    fu = FlowUnits(ctx, g, call_unit=call_unit)
    ue = fu.evaluator()
    for kw in (p[2], p[3], p[4], p[5]):
        a = bind.get(kw)
        if a is None:
            chk.indeterminate("C18.O3", where_of(g, c), "argument %s not passed" % kw)
            continue
        try:
            got = ue.unit(a)
            want = unit_of_name(kw)
            chk.ob("C18.O3", got == want, where_of(g, c), "%s = %s  [%s]" % (kw, ast.unparse(a), fmt(got)),
                   "[%s]" % fmt(want), key="simulate_recession|arg-unit|%s" % kw,
                   why="a wrong conversion constant scales the recession curve")
        except UnitError as exc:
            chk.info("C18.O3", where_of(g, c), "unit of %s = %s not determinable: %s" % (kw, ast.unparse(a), exc), "not decided")
    # roles of grid / mean
    grid = bind.get(p[2])
    gnames = sorted({n.id for n in ast.walk(grid) if isinstance(n, ast.Name)} - {"np", "float"}) if grid is not None else []
    chk.ob("C18.O3", len(gnames) == 1 and roles.get(gnames[0]) == "level", where_of(g, c),
           "grid argument from %s (%s)" % (gnames, [roles.get(n) for n in gnames]), "the measured curve's level column",
           key="simulate_recession|grid-arg")
    mean = bind.get(p[3])
    mnames = sorted({n.id for n in ast.walk(mean) if isinstance(n, ast.Name)} - {"np"}) if mean is not None else []
    is_mean = mean is not None and "mean" in ast.unparse(mean)
    chk.ob("C18.O2", is_mean and len(mnames) == 1 and roles.get(mnames[0]) == "measured", where_of(g, c),
           "requested mean = %s" % (ast.unparse(mean) if mean is not None else "?"), "mean of the measured elapsed-time column",
           key="simulate_recession|mean-arg", why="the mean of the simulated curve must equal the mean of the measured one")
    # transmissivity: peatclsm branch converts m2/s -> m2/d
    tname = bind.get(p[1])
    for q, fi in g.module.functions.items():
        if q.startswith(g.qualname + ".<locals>.") and isinstance(tname, ast.Name) and fi.name == tname.id:
            rets = [n for n in ast.walk(fi.node) if isinstance(n, ast.Return) and n.value is not None]
            if len(rets) == 1:
                try:
                    got = FlowUnits(ctx, g).unit(rets[0].value)
                    want = unit_of_name(fi.name)
                    if want is None:
                        raise UnitError("the wrapper's name carries no unit")
                    chk.ob("C18.O3", got == want, where_of(fi, rets[0]), "%s returns %s [%s]" % (fi.name, ast.unparse(rets[0].value), fmt(got)),
                           "[%s]" % fmt(want), key="simulate_recession|peatclsm-T-unit",
                           why="PEATCLSM transmissivity is in m2/s; the balance needs m2/d")
                except UnitError as exc:
                    chk.info("C18.O3", where_of(fi, rets[0]), "unit of the PEATCLSM wrapper not determinable: %s" % exc, "not decided")
    _conversion_keyed_on_own_section(ctx, chk, g)
    # et argument is the query result
    eta = bind.get(p[5])
    etb = binding_of(ctx, g, et_site)
    ok_et = isinstance(eta, ast.Name) and etb is not None and eta.id in etb.names
    chk.ob("C18.O4", ok_et, where_of(g, c), "ET argument = %s" % (ast.unparse(eta) if eta is not None else "?"),
           "the result of the ET query", key="simulate_recession|et-arg")
    # curvature argument from curvature table
    cb = binding_of(ctx, g, curv_site)
    cva = bind.get(p[4])
    cn = sorted({n.id for n in ast.walk(cva) if isinstance(n, ast.Name)}) if cva is not None else []
    chk.ob("C18.O3", cb is not None and len(cn) == 1 and cn[0] in cb.names, where_of(g, c),
           "curvature argument from %s" % cn, "the stored site curvature", key="simulate_recession|curvature-arg")

    # ---- O4: ET query
    _et_query(ctx, chk, g, et_site)

    # ---- O5: output
    d = ctx.func("simulate_recession.dump_simulated_recession")
    dflow = Flow.of(d)
    # names returned by simulate_recession, unpacked in dump
    rets = [n for n in ast.walk(g.node) if isinstance(n, ast.Return) and n.value is not None and enclosing_func(n) is g.node]
    droles = {}
    order = {}
    if len(rets) == 1 and isinstance(rets[0].value, ast.Tuple):
        ret_names = [e.id if isinstance(e, ast.Name) else None for e in rets[0].value.elts]
        cst = enclosing_stmt(c)
        sim_name = cst.targets[0].id if isinstance(cst, ast.Assign) and isinstance(cst.targets[0], ast.Name) else None
        ret_roles = [("simulated" if n == sim_name else roles.get(n)) for n in ret_names]
        for st in ast.walk(d.node):
            if isinstance(st, ast.Assign) and isinstance(st.value, ast.Call) and ctx.cg.resolve_callee(d, st.value.func) == [g.fq] \
                    and isinstance(st.targets[0], ast.Tuple) and len(st.targets[0].elts) == len(ret_names):
                for t, r, rn in zip(st.targets[0].elts, ret_roles, ret_names):
                    if isinstance(t, ast.Name):
                        droles[t.id] = r
                        pu, ru = unit_of_name(t.id), unit_of_name(rn) if rn else None
                        if pu is not None and ru is not None:
                            chk.ob("C18.O5", pu == ru, where_of(d, st), "name %s [%s] receives %s [%s]" % (t.id, fmt(pu), rn, fmt(ru)),
                                   "same unit on both sides of the call", key="dump_simulated_recession|unpack-unit|%s" % t.id)
    if not droles:
        chk.indeterminate("C18.O5", where_of(d, d.node), "unpacking of simulate_recession's result not recognised")
        return
    dunits = {}
    try:
        gfu = FlowUnits(ctx, g)
        cst_ = enclosing_stmt(c)
        for st in ast.walk(d.node):
            if isinstance(st, ast.Assign) and isinstance(st.value, ast.Call) and ctx.cg.resolve_callee(d, st.value.func) == [g.fq] \
                    and isinstance(st.targets[0], ast.Tuple) and len(rets) == 1 and isinstance(rets[0].value, ast.Tuple):
                for t, e in zip(st.targets[0].elts, rets[0].value.elts):
                    if isinstance(t, ast.Name):
                        try:
                            u = gfu.unit(e)
                            if u[0] != "const":
                                dunits[t.id] = u
                        except UnitError:
                            # the simulated curve: unit of the callee's name
                            if isinstance(e, ast.Name) and isinstance(cst_, ast.Assign) and isinstance(cst_.targets[0], ast.Name) \
                                    and cst_.targets[0].id == e.id:
                                u = unit_of_name(compute.name.replace("compute_", "").replace("_curve", "")) or unit_of_name(compute.params[3])
                                if u is not None:
                                    dunits[t.id] = u
    except Exception:  # noqa
        dunits = {}
    check_output_table(ctx, chk, "C18.O5", d, droles, "elapsed time", extra_units=dunits)
    # ordering parity: query direction x reversed
    sel = curve_site.stmt
    qdir = None
    if sel.order_by:
        e, dirn = sel.order_by[0]
        if column_role(e) == "level":
            qdir = dirn
    ot = output_table(ctx, d)
    if ot is not None and qdir is not None:
        dump, labels, z = ot
        rev = z.rev
        if all(strip_tolist(a)[1] is True for a in z.args):
            rev = not rev              # every column individually reversed
        final = qdir if not rev else ("DESC" if qdir == "ASC" else "ASC")
        chk.ob("C18.O5", final == "DESC", where_of(d, dump), "query ORDER BY level %s, table %s -> rows %s" % (qdir, "reversed" if rev else "not reversed", final),
               "rows from highest to lowest level", key="dump_simulated_recession|table-order",
               why="the recession is tabulated in the order it is traversed: from the highest level down")
    elif qdir is None:
        chk.ob("C18.O5", False, where_of(g, curve_site.call), "master-curve query is not ordered by level", "ORDER BY level",
               key="simulate_recession|order-by", why="without an order the rows (and the cumulative sum) follow an arbitrary order")
    for wcall, marker, dumpc in vector_dumps(ctx, d):
        ok = False
        desc = "?"
        if dumpc is None:
            chk.indeterminate("C18.O5", where_of(d, wcall), "how the vector is written after marker %r is not read (no yaml.dump, no loop of one-item writes)" % marker.strip())
            continue
        if dumpc is not None and dumpc.args and qdir is not None:
            core, rev = resolve_vector(Flow.of(d), dumpc.args[0])
            desc = ast.unparse(dumpc.args[0])
            if not isinstance(core, ast.Name) or core.id not in droles:
                chk.indeterminate("C18.O5", where_of(d, wcall), "vector written after the marker, %s, is not one of the curve arrays (possibly converted / reversed)" % desc[:80])
                continue
            final = "by value" if rev == "by-value" else (qdir if not rev else ("DESC" if qdir == "ASC" else "ASC"))
            ok = droles.get(core.id) == "simulated" and final == "DESC"
        chk.ob("C18.O5", ok, where_of(d, wcall), "after marker %r the vector written is %s" % (marker.strip(), desc),
               "the simulated curve from highest to lowest level", key="dump_simulated_recession|vector")


def _reversal_parity(zipcall, root):
    """Is the zip(...) wrapped in an odd number of reversed()/[::-1]/sorted(reverse=True)?"""
    rev = False
    n = zipcall
    while n is not None and n is not root:
        pnode = getattr(n, "parent", None)
        if isinstance(pnode, ast.Call) and isinstance(pnode.func, ast.Name) and pnode.func.id == "reversed":
            rev = not rev
        if isinstance(pnode, ast.Subscript) and isinstance(pnode.slice, ast.Slice) and pnode.slice.step is not None \
                and ast.unparse(pnode.slice.step) == "-1":
            rev = not rev
        n = pnode
    # each zipped column individually reversed? (all or none)
    col_rev = [strip_tolist(a)[1] for a in zipcall.args]
    if all(col_rev):
        rev = not rev
    return rev


def _et_query(ctx, chk, g, site):
    sel = site.stmt
    alias = {s.alias: s.table for s in sel.sources}
    et_alias = [a for a, t in alias.items() if t == "evapotranspiration"]
    if len(et_alias) != 1:
        chk.indeterminate("C18.O4", where_of(g, site.call), "evapotranspiration source not unique")
        return
    ea = et_alias[0]
    preds = []
    for s in sel.sources:
        preds += conjuncts(s.on)
        if s.using:
            for u in s.using:
                preds.append(("using", u, s.alias))
    preds += conjuncts(sel.where)

    def owner(col):
        """table of a column reference"""
        if col[1] is not None:
            return alias.get(col[1], col[1])
        cands = [t for a, t in alias.items() if t in ctx.schema.tables and ctx.schema.tables[t].col(col[2])]
        return cands[0] if len(cands) == 1 else None

    lower = upper = None
    eq_start = False
    for pr in preds:
        if pr[0] != "bin" or pr[1] not in ("=", "<", "<=", ">", ">="):
            continue
        l, r = pr[2], pr[3]
        op = pr[1]
        if l[0] != "col" or r[0] != "col":
            continue
        if owner(r) == "evapotranspiration" and owner(l) != "evapotranspiration":
            l, r = r, l
            op = {"<": ">", ">": "<", "<=": ">=", ">=": "<=", "=": "="}[op]
        if owner(l) != "evapotranspiration":
            continue
        ocol, otab = r[2], owner(r)
        if otab not in ("zeta_interval", "recession_interval"):
            continue
        if op == "=" and ocol == "start_epoch" and l[2] == "from_epoch":
            eq_start = True
        if op in (">=", ">") and ocol == "start_epoch":
            lower = (l[2], op)
        if op in ("<", "<=") and ocol == "thru_epoch":
            upper = (l[2], op)
    # the interval rows must be recession intervals: recession_interval joined (start_epoch)
    tabs = set(alias.values())
    has_ri = "recession_interval" in tabs
    good_lower = lower == ("from_epoch", ">=")
    good_upper = upper in (("from_epoch", "<"), ("thru_epoch", "<="))
    found = "ET steps selected by: %s%s%s" % (
        "from_epoch = interval start only" if eq_start and not (lower or upper) else "",
        ("lower %s %s start" % lower) if lower else "",
        ("; upper %s %s thru" % upper) if upper else "")
    chk.ob("C18.O4", has_ri and good_lower and good_upper and not eq_start, where_of(g, site.call), found,
           "every ET step inside each recession interval: from_epoch >= start AND (from_epoch < thru | thru_epoch <= thru), intervals restricted to recession_interval",
           key="simulate_recession|et-interval-predicate",
           why="equality with the interval start selects one step per interval instead of the time-average over all its steps")
    # the aggregate is avg over ET
    e0 = sel.columns[0][0]
    aggs = [x for x in walk_expr(e0) if x[0] == "call" and x[1] in ("AVG", "SUM", "TOTAL", "MIN", "MAX", "COUNT")]
    ok = len(aggs) == 1 and aggs[0][1] == "AVG" and any(y[0] == "col" and y[2] == "evapotranspiration_mm_h" for y in walk_expr(aggs[0]))
    chk.ob("C18.O4", ok, where_of(g, site.call), "aggregate = %s" % (aggs[0][1] if aggs else "none"),
           "AVG(evapotranspiration_mm_h): the time-average over uniform steps", key="simulate_recession|et-aggregate")
