"""C16 -- PEATCLSM functions follow the published formulation.

 O1 specific_yield.py / transmissivity.py resolve against the installed libraries
 O2 cross-language agreement (algebraic normal forms) between the shipped
    R reference and specific_yield.py: Campbell branch condition and both
    branch values, theta_Fs, microtopography CDF, accumulation term,
    Sy_soil[i], surface term, knot abscissae, sum soil + surface
 O3 transmissivity normal form = Ksmacz0 (zeta_max - zeta_cm)^(1-alpha) /
    (100 (alpha-1)), zeta_cm = zeta_mm / 10; equals the R function at
    zeta_max = 1, z[m]*100 = zeta_cm
 O4 refusal above zeta_max dominates the return and raises
 O5 order-1 spline through the tabulated knots (linear in between)
 O6 the factories hand the parameter mapping to the constructors by name
"""

import ast
from fractions import Fraction

from ..flow import Flow
from ..guards import guards_of
from ..norm import NotAlgebraic, Poly, cmp_nf, num_fraction, py_poly, to_poly
from ..report import where_of
from ..rlang import functions as r_functions, parse_r, toplevel_assignments
from ..source import AnalysisError, dotted_name, enclosing_func
from .c12 import api_obligations, full_call_name

RFILE = "spowtd/test/peatclsm_hydraulic_functions.R"
PNORM_FORMALS = ["q", "mean", "sd", "lower.tail", "log.p"]


# ------------------------------------------------------------------ R side
class REnv:
    """Sequential substitution environment for R statements."""

    def __init__(self, funcs, env=None):
        self.funcs = funcs
        self.env = dict(env or {})
        self.piecewise = {}

    def term(self, e):
        k = e[0]
        if k == "num":
            return ("num", num_fraction(e[1]))
        if k == "name":
            if e[1] in self.env:
                return self.env[e[1]]
            return ("sym", e[1])
        if k == "bool":
            return ("sym", "TRUE" if e[1] else "FALSE")
        if k == "un" and e[1] == "-":
            return ("neg", self.term(e[2]))
        if k == "bin":
            op = {"+": "add", "-": "sub", "*": "mul", "/": "div", "^": "pow"}.get(e[1])
            if op:
                return (op, self.term(e[2]), self.term(e[3]))
            return ("call", "op" + e[1], [self.term(e[2]), self.term(e[3])])
        if k == "index":
            return ("idx", self.term(e[1]), self.term(e[2][0]))
        if k == "dollar":
            name = "%s$%s" % (e[1][1], e[2]) if e[1][0] == "name" else None
            if name in self.env:
                return self.env[name]
            return ("sym", e[2])
        if k == "call":
            fn = e[1][1] if e[1][0] == "name" else "?"
            if fn == "pnorm":
                return ("call", "normcdf", self._pnorm_args(e[2]))
            if fn in self.funcs:
                return ("call", "R:" + fn, [("call", "arg:%s" % (n or i), [self.term(a)]) for i, (n, a) in enumerate(e[2])])
            return ("call", fn, [self.term(a) for _, a in e[2]])
        raise NotAlgebraic("R expr %r" % (k,))

    def _pnorm_args(self, args):
        slots = {}
        rest = []
        for n, a in args:
            if n is not None:
                match = [f for f in PNORM_FORMALS if f.startswith(n)]
                if match:
                    slots[match[0]] = a
                    continue
            rest.append(a)
        for f in PNORM_FORMALS:
            if f not in slots and rest:
                slots[f] = rest.pop(0)
        q = self.term(slots["q"])
        mean = self.term(slots["mean"]) if "mean" in slots else ("num", Fraction(0))
        sd = self.term(slots["sd"]) if "sd" in slots else ("num", Fraction(1))
        for flag, default in (("lower.tail", True), ("log.p", False)):
            if flag in slots and slots[flag] != ("bool", default):
                raise NotAlgebraic("pnorm with %s" % flag)
        return [q, mean, sd]

    def run(self, stmts):
        """Straight-line execution; returns the returned term (if any)."""
        for st in stmts:
            if st[0] == "assign":
                tgt, val = st[1], st[2]
                if tgt[0] == "name":
                    self.env[tgt[1]] = self.term(val)
                elif tgt[0] == "index" and tgt[1][0] == "name" and len(tgt[2]) == 1 and tgt[2][0][0] == "bin" \
                        and tgt[2][0][1] in (">=", ">", "<", "<=", "==", "!="):
                    # masked assignment x[cond] = v  -> piecewise
                    name = tgt[1][1]
                    c = tgt[2][0]
                    cond = (c[1], self.term(c[2]), self.term(c[3]))
                    old = self.env.get(name, ("sym", name))
                    self.piecewise[name] = (cond, self.term(val), old)
                    self.env[name] = ("sym", "PW:" + name)
                elif tgt[0] == "index" and tgt[1][0] == "name":
                    self.env["%s[%s]" % (tgt[1][1], to_poly(self.term(tgt[2][0])).key())] = self.term(val)
            elif st[0] == "return":
                return self.term(st[1])
        return None


# ------------------------------------------------------------- Python side
class PyTerms:
    """Python expression -> term language with def-use expansion and
    distribution of an index over element-wise array expressions."""

    def __init__(self, flow, mod, array_names=(), selfmap=None, keep=()):
        self.flow = flow
        self.mod = mod
        self.arrays = set(array_names)
        self.selfmap = selfmap or {}
        self.keep = set(keep)

    def term(self, node, idx=None, depth=0):
        if depth > 30:
            raise NotAlgebraic("too deep")
        t = self.term
        if isinstance(node, ast.Constant) and isinstance(node.value, (int, float)) and not isinstance(node.value, bool):
            return ("num", num_fraction(node.value))
        if isinstance(node, ast.Name):
            if node.id not in self.keep:
                v = self.flow.def_value(node)
                if v is not None:
                    return t(v, idx, depth + 1)
            s = ("sym", node.id)
            if idx is not None and (node.id in self.arrays):
                return ("idx", s, idx)
            return s
        if isinstance(node, ast.Attribute):
            d = dotted_name(node)
            if d and d.startswith("self."):
                nm = self.selfmap.get(d[5:], d[5:])
                return ("sym", nm)
            return ("sym", d or ast.unparse(node))
        if isinstance(node, ast.UnaryOp) and isinstance(node.op, ast.USub):
            return ("neg", t(node.operand, idx, depth + 1))
        if isinstance(node, ast.BinOp):
            op = {ast.Add: "add", ast.Sub: "sub", ast.Mult: "mul", ast.Div: "div", ast.Pow: "pow"}.get(type(node.op))
            if op is None:
                raise NotAlgebraic("operator")
            return (op, t(node.left, idx, depth + 1), t(node.right, idx, depth + 1))
        if isinstance(node, ast.Subscript):
            if idx is not None:
                raise NotAlgebraic("nested index")
            j = t(node.slice, None, depth + 1)
            return t(node.value, j, depth + 1)
        if isinstance(node, ast.Call):
            fn = full_call_name(self.mod, node) or ""
            if fn.endswith("stats.norm.cdf"):
                kw = {k.arg: k.value for k in node.keywords}
                x = t(node.args[0], idx, depth + 1)
                loc = t(kw["loc"], None, depth + 1) if "loc" in kw else (t(node.args[1], None, depth + 1) if len(node.args) > 1 else ("num", Fraction(0)))
                sc = t(kw["scale"], None, depth + 1) if "scale" in kw else (t(node.args[2], None, depth + 1) if len(node.args) > 2 else ("num", Fraction(1)))
                return ("call", "normcdf", [x, loc, sc])
            if fn == "len" and len(node.args) == 1:
                return ("call", "len", [t(node.args[0], None, depth + 1)])
            raise NotAlgebraic("call %s" % fn)
        raise NotAlgebraic(type(node).__name__)


def factory_binding(ctx, chk, rule, fq):
    """The parameter file is a mapping; the factory must hand its entries to the constructor by name
    (`cls(**parameters)` or explicit keywords equal to the keys).  A starred sequence built from the
    mapping's values binds by the order the keys happen to have in the file."""
    try:
        f = ctx.func(fq)
    except Exception:
        chk.indeterminate(rule, ("spowtd/%s.py" % fq.split(".")[0], fq.split(".")[-1], 0), "factory %s not found" % fq)
        return
    flow = Flow.of(f)
    rets = [n for n in ast.walk(f.node) if isinstance(n, ast.Return) and n.value is not None and enclosing_func(n) is f.node]
    calls = []
    for r in rets:
        v = r.value
        if isinstance(v, ast.Name):
            v = flow.def_value(v) or v
        if isinstance(v, ast.Call):
            calls.append(v)
    if len(calls) != 1:
        chk.indeterminate(rule, where_of(f, f.node), "factory does not return one constructor call")
        return
    c = calls[0]
    p0 = f.params[0] if f.params else None
    star = [a for a in c.args if isinstance(a, ast.Starred)]
    dstar = [k for k in c.keywords if k.arg is None]
    named = [k for k in c.keywords if k.arg is not None]

    def from_mapping(e):
        e = flow.expand(e, keep={p0}) if p0 else e
        return any(isinstance(x, ast.Name) and x.id == p0 for x in ast.walk(e))
    if star and any(from_mapping(a.value) for a in star):
        chk.ob(rule, False, where_of(f, c), "constructor called with `*%s`: values bound by the order of the keys in the parameter mapping" % ast.unparse(star[0].value)[:70],
               "entries of the parameter mapping reach the constructor by name (`**parameters`)", key="%s|by-name" % f.qualname,
               why="a parameter file lists its keys in any order (yaml.safe_dump sorts them); bound by position, sd receives b and the function is not the published one for the values given")
        return
    if dstar and not star and not c.args:
        ok = all(from_mapping(k.value) for k in dstar)
        if ok:
            chk.ob(rule, True, where_of(f, c), "constructor called with `**%s`" % ast.unparse(dstar[0].value)[:40],
                   "entries of the parameter mapping reach the constructor by name (`**parameters`)", key="%s|by-name" % f.qualname)
            return
    if named and not star and not dstar and not c.args:
        bad = []
        for k in named:
            v = k.value
            key = v.slice.value if isinstance(v, ast.Subscript) and isinstance(v.slice, ast.Constant) else None
            if key is None:
                bad = None
                break
            if key != k.arg:
                bad.append((k.arg, key))
        if bad is not None:
            chk.ob(rule, not bad, where_of(f, c), "constructor keywords %s" % (", ".join("%s <- [%r]" % b for b in bad) if bad else "equal to the keys they read"),
                   "each constructor parameter receives the entry of the same name", key="%s|by-name" % f.qualname,
                   why="a parameter bound to another key's value gives a function for other parameter values than those in the file")
            return
    chk.indeterminate(rule, where_of(f, c), "how the parameter mapping reaches the constructor is not read: %s" % ast.unparse(c)[:80])


def run(ctx, chk, tier="quick"):
    chk.explanation = (
        "API resolution of specific_yield.py / transmissivity.py against the installed numpy / scipy; "
        "the shipped R reference is parsed with a purpose-built R parser and each formula of the "
        "Dettmann-Bechtold discretisation is compared, as an algebraic normal form under a variable "
        "correspondence table, with the Python implementation; transmissivity's closed form, its "
        "refusal above the ceiling, and the order-1 spline through the tabulated knots."
    )
    chk.assumptions = ["scipy.stats.norm.cdf and R's pnorm are the same normal CDF",
                       "the R file shipped with the repository is the reference formulation",
                       "loop extents (R sums 200 cells, Python 201) are recorded as information, not compared"]
    from .c14 import sy_delegation
    sy_delegation(ctx, chk, "C16.O5", "the PEATCLSM specific yield is the order-1 spline through its tabulated knots, constant beyond the table: that is what the shared SpecificYield.__call__ / integrate evaluate; a look-up of its own (a scalar fast path) has its own behaviour beyond the table")
    from ..memo import memo_keys
    memo_keys(ctx, chk, "C16.O1", ("specific_yield", "transmissivity"), "peatclsm")
    n = api_obligations(ctx, chk, "C16.O1", ["specific_yield", "transmissivity", "spline"])
    chk.floor("library attribute chains resolved in specific_yield.py, transmissivity.py, spline.py", n, 15)
    if chk.counters.get("api_chains_resolved", 0) == n:
        chk.ob("C16.O1", True, ("spowtd/specific_yield.py", "<module>", 1), "%d library attribute chains resolve" % n,
               "every library attribute used exists in the installed library", key="sy+T|api-all")

    for fq_ in ("specific_yield.create_specific_yield_function", "transmissivity.create_transmissivity_function"):
        factory_binding(ctx, chk, "C16.O6", fq_)
    try:
        rsrc = ctx.repo.read_text(RFILE)
        rprog = parse_r(rsrc)
    except AnalysisError as exc:
        chk.indeterminate("C16.O2", (RFILE, "<file>", 0), "cannot parse R reference: %s" % exc)
        rprog = None
    if rprog is not None:
        _specific_yield(ctx, chk, rprog)
        _transmissivity_r(ctx, chk, rprog)
    _transmissivity(ctx, chk)


def _eq(a, b, symmap_a=None, symmap_b=None):
    return to_poly(a, symmap_a) == to_poly(b, symmap_b)


def _specific_yield(ctx, chk, rprog):
    rf = r_functions(rprog)
    rtop = toplevel_assignments(rprog)
    mod = ctx.repo.module("specific_yield")
    if "Campbell_1d_Az" not in rf or "get_Sy_soil" not in rf:
        chk.indeterminate("C16.O2", (RFILE, "<file>", 0), "R functions Campbell_1d_Az / get_Sy_soil not found")
        return
    # ---- Campbell: R
    rparams = [p for p, _ in rf["Campbell_1d_Az"][1]]
    renv = REnv(rf)
    rret = renv.run(rf["Campbell_1d_Az"][2])
    if "theta" not in renv.piecewise or rret is None:
        chk.indeterminate("C16.O2", (RFILE, "Campbell_1d_Az", 0), "masked assignment of theta not found in R reference")
        return
    (rop, rl, rr), r_sat, r_unsat = renv.piecewise["theta"]
    r_fs = renv.env.get("Fs")
    # ---- Campbell: Python
    pf = ctx.func("specific_yield.campbell_1d_az")
    pflow = Flow.of(pf)
    pt = PyTerms(pflow, mod, keep=set(pf.params))
    ifs = [s for s in pf.node.body if isinstance(s, ast.If)]
    rets = [s for s in ast.walk(pf.node) if isinstance(s, ast.Return)]
    if len(ifs) != 1 or len(rets) != 1 or not ifs[0].orelse:
        # saturation must be decided by the pressure-head test (zlu - z_ vs psi_s), as in the reference;
        # min/max/clip of the retention curve is a different function below the water table
        has_head_test = False
        for c in ast.walk(pf.node):
            if isinstance(c, ast.Compare):
                nm = {x.id for x in ast.walk(c) if isinstance(x, ast.Name)}
                if {"zlu", "z_", "psi_s"} <= nm or {pf.params[2], pf.params[1], pf.params[4]} <= nm:
                    has_head_test = True
        clips = [c for c in ast.walk(pf.node) if isinstance(c, ast.Call) and (dotted_name(c.func) or "").split(".")[-1] in ("min", "max", "minimum", "maximum", "clip")]
        if not has_head_test and clips:
            chk.ob("C16.O2", False, where_of(pf, clips[0]), "saturation decided by `%s`, without comparing the pressure head (zlu - z_) with psi_s" % ast.unparse(clips[0])[:90],
                   "theta = theta_s where (zlu - z_) >= psi_s, the Campbell curve elsewhere (as in the R reference)",
                   key="campbell|condition", why="below the water table the ratio is negative: its power is NaN or, for integer 1/b, a real number below theta_s; capping is not the branch")
        else:
            chk.indeterminate("C16.O2", where_of(pf, pf.node), "expected one if/else and one return in campbell_1d_az")
        return
    iff = ifs[0]

    def branch_value(stmts):
        if len(stmts) == 1 and isinstance(stmts[0], ast.Assign) and isinstance(stmts[0].targets[0], ast.Name):
            return stmts[0].targets[0].id, stmts[0].value
        return None, None

    tname, then_v = branch_value(iff.body)
    ename, else_v = branch_value(iff.orelse)
    if tname is None or tname != ename:
        chk.indeterminate("C16.O2", where_of(pf, iff), "branches of campbell_1d_az do not assign one variable")
        return
    try:
        test = iff.test
        neg = False
        while isinstance(test, ast.UnaryOp) and isinstance(test.op, ast.Not):
            neg = not neg
            test = test.operand
        pop = {ast.GtE: ">=", ast.Gt: ">", ast.Lt: "<", ast.LtE: "<=", ast.Eq: "==", ast.NotEq: "!="}[type(test.ops[0])]
        pc = cmp_nf(pop, to_poly(pt.term(test.left)), to_poly(pt.term(test.comparators[0])), neg)
        rc = cmp_nf(rop, to_poly(rl), to_poly(rr))
        # R's condition selects the saturated value; Python's `if` branch is `then`
        p_then, p_else = to_poly(pt.term(then_v)), to_poly(pt.term(else_v))
        r_s, r_u = to_poly(r_sat), to_poly(r_unsat)
    except (NotAlgebraic, KeyError, AttributeError, IndexError) as exc:
        chk.indeterminate("C16.O2", where_of(pf, iff), "cannot normalise Campbell branches: %s" % exc)
        return
    where = where_of(pf, iff)
    same_cond = pc == rc
    if not same_cond:
        # maybe complementary with swapped branches
        from ..norm import _NEG
        if (_NEG[pc[0]], pc[1]) == rc:
            p_then, p_else = p_else, p_then
            same_cond = True
    chk.ob("C16.O2", same_cond, where, "saturation test: %s 0 %s" % (pc[1].key(), pc[0]),
           "R reference: %s 0 %s" % (rc[1].key(), rc[0]), key="campbell|condition",
           why="a different switch point changes theta between the air-entry pressure and the water table")
    chk.ob("C16.O2", p_then == r_s, where, "saturated branch = %s" % p_then.key(), "R reference: %s" % r_s.key(),
           key="campbell|saturated-value")
    chk.ob("C16.O2", p_else == r_u, where, "unsaturated branch = %s" % p_else.key(), "R reference: %s" % r_u.key(),
           key="campbell|unsaturated-value", why="the Campbell retention curve is theta_s (psi/psi_s)^(-1/b)")
    # theta_Fs
    try:
        pt2 = PyTerms(pflow, mod, keep=set(pf.params) | {tname})
        p_ret = to_poly(pt2.term(rets[0].value))
        r_ret = to_poly(rret, {"PW:theta": tname})
        # in R, Fs is computed inside; substitute its symbol
        r_ret2 = to_poly(_subst(rret, renv.env.get("Fs"), ("sym", "Fs")), {"PW:theta": tname})
        chk.ob("C16.O2", p_ret == r_ret2, where_of(pf, rets[0]), "theta_Fs = %s" % p_ret.key(), "R reference: %s" % r_ret2.key(),
               key="campbell|theta_Fs", why="the microtopographic weighting is (1 - Fs) theta")
    except NotAlgebraic as exc:
        chk.indeterminate("C16.O2", where_of(pf, rets[0]), "cannot normalise theta_Fs: %s" % exc)

    # ---- get_Sy_soil
    cls_f = ctx.func("specific_yield.PeatclsmSpecificYield.get_Sy_soil")
    sflow = Flow.of(cls_f)
    sparams = cls_f.params  # self, Sy_soil, zl_, zu_
    if len(sparams) < 4:
        chk.indeterminate("C16.O2", where_of(cls_f, cls_f.node), "get_Sy_soil signature changed")
        return
    out_arr, zl_n, zu_n = sparams[1], sparams[2], sparams[3]
    symmap_py = {zl_n: "zl_", zu_n: "zu_"}
    fors = [n for n in ast.walk(cls_f.node) if isinstance(n, ast.For)]
    outer = [n for n in fors if not any(isinstance(p, ast.For) for p in _ancestors(n, cls_f.node))]
    inner = [n for n in fors if n not in outer]
    # a quadrature routine in place of the layer sum: readable, and another discretisation
    QUAD = ("trapezoid", "trapz", "simpson", "simps", "cumulative_trapezoid", "cumtrapz", "romb")
    quads = [c for c in ast.walk(cls_f.node) if isinstance(c, ast.Call) and (full_call_name(mod, c) or dotted_name(c.func) or "").split(".")[-1] in QUAD]
    if quads:
        chk.ob("C16.O2", False, where_of(cls_f, quads[0]),
               "the soil-layer sum is computed by %s: end layers get half weight (trapezoid) or other quadrature weights" % ast.unparse(quads[0].func),
               "R reference: the sum over layers of dz[j] * (A(zu) - A(zl)) with every layer at full weight (midpoint sum on the layer centres)",
               key="get_Sy_soil|quadrature", why="the published discretisation is the midpoint sum; with another rule the top layer's term is wrong by half its weight, which shows for wide microtopography")
        return
    if len(outer) != 1 or len(inner) != 1:
        chk.indeterminate("C16.O2", where_of(cls_f, cls_f.node), "expected one loop over levels with one loop over cells inside")
        return
    outer, inner = outer[0], inner[0]
    if not (isinstance(outer.target, ast.Name) and isinstance(inner.target, ast.Name)):
        chk.indeterminate("C16.O2", where_of(cls_f, outer), "the level / cell loops do not run over plain index variables")
        return
    iv, jv = outer.target.id, inner.target.id
    st = PyTerms(sflow, mod, array_names={zl_n, zu_n}, keep={zl_n, zu_n, iv, jv})
    # accumulation statement inside the inner loop
    acc = None
    for s in inner.body:
        if isinstance(s, ast.Assign) and isinstance(s.targets[0], ast.Name) and isinstance(s.value, ast.BinOp) \
                and any(isinstance(x, ast.Name) and x.id == s.targets[0].id for x in ast.walk(s.value)):
            acc = s
        if isinstance(s, ast.AugAssign) and isinstance(s.op, ast.Add) and isinstance(s.target, ast.Name):
            acc = s
    if acc is None:
        chk.indeterminate("C16.O2", where_of(cls_f, inner), "accumulation statement not found")
        return
    accname = acc.targets[0].id if isinstance(acc, ast.Assign) else acc.target.id

    # Campbell calls become atoms keyed by (z_, zlu) after checking the other arguments
    camp_checks = []

    def camp_atom(call):
        tg = ctx.cg.resolve_callee(cls_f, call.func)
        if tg != [pf.fq]:
            raise NotAlgebraic("call %s" % ast.unparse(call.func))
        bind = {}
        for i, a in enumerate(call.args):
            bind[pf.params[i]] = a
        for k in call.keywords:
            bind[k.arg] = k.value
        camp_checks.append((call, bind))
        z = to_poly(st.term(bind["z_"]), symmap_py).key()
        zlu = to_poly(st.term(bind["zlu"]), symmap_py).key()
        return ("sym", "Campbell{z=%s;zlu=%s}" % (z, zlu))

    class ST(PyTerms):
        def term(self, node, idx=None, depth=0):
            if isinstance(node, ast.Call) and ctx.cg.resolve_callee(cls_f, node.func) == [pf.fq]:
                return camp_atom(node)
            return PyTerms.term(self, node, idx, depth)

    st = ST(sflow, mod, array_names={zl_n, zu_n}, selfmap={}, keep={zl_n, zu_n, iv, jv, accname})
    try:
        if isinstance(acc, ast.Assign):
            inc = to_poly(st.term(acc.value), symmap_py) - Poly.atom(accname)
        else:
            inc = to_poly(st.term(acc.value), symmap_py)
    except (NotAlgebraic, KeyError) as exc:
        chk.indeterminate("C16.O2", where_of(cls_f, acc), "cannot normalise the accumulation term: %s" % exc)
        return
    # R side
    rparams_s = [p for p, _ in rf["get_Sy_soil"][1]]
    rbody = rf["get_Sy_soil"][2]
    rfor_o = [s for s in rbody if s[0] == "for"]
    if len(rfor_o) != 1:
        chk.indeterminate("C16.O2", (RFILE, "get_Sy_soil", 0), "R outer loop not found")
        return
    ro = rfor_o[0]
    ri = [s for s in ro[3] if s[0] == "for"]
    if len(ri) != 1:
        chk.indeterminate("C16.O2", (RFILE, "get_Sy_soil", 0), "R inner loop not found")
        return
    ri = ri[0]
    renv2 = REnv(rf)
    # straight-line prefix of the function and of the outer loop body
    renv2.run([s for s in rbody if s[0] == "assign"])
    renv2.run([s for s in ro[3] if s[0] == "assign" and not (s[1][0] == "name" and s[1][1] == "A") and s[1][0] == "name"])
    racc = [s for s in ri[3] if s[0] == "assign" and s[1] == ("name", "A")]
    renv3 = REnv(rf, renv2.env)
    renv3.run([s for s in ri[3] if s[0] == "assign" and s[1] != ("name", "A")])
    if len(racc) != 1:
        chk.indeterminate("C16.O2", (RFILE, "get_Sy_soil", 0), "R accumulation statement not found")
        return

    def r_camp(term):
        """Replace R:Campbell_1d_Az(...) applications by the same atoms."""
        if term[0] == "call" and term[1] == "R:Campbell_1d_Az":
            args = {}
            formals = [p for p, _ in rf["Campbell_1d_Az"][1]]
            pos = 0
            for a in term[2]:
                nm = a[1][4:]
                val = a[2][0]
                if nm.isdigit():
                    args[formals[int(nm)]] = val
                else:
                    args[nm] = val
            z = to_poly(r_camp(args["z_"]), rsym).key()
            zlu = to_poly(r_camp(args["zlu"]), rsym).key()
            return ("sym", "Campbell{z=%s;zlu=%s}" % (z, zlu))
        if isinstance(term, tuple):
            return tuple(r_camp(x) if isinstance(x, tuple) else ([r_camp(y) for y in x] if isinstance(x, list) else x) for x in term)
        return term

    rsym = {ro[1]: iv, ri[1]: jv}
    try:
        r_inc = to_poly(r_camp(renv3.term(racc[0][2])), rsym) - Poly.atom("A")
        r_inc = to_poly(("sym", "dummy")) * Poly.const(0) + r_inc
        # rename accumulator
        p_inc = inc
        r_inc_key = r_inc.key().replace("A", accname) if accname != "A" else r_inc.key()
    except (NotAlgebraic, KeyError) as exc:
        chk.indeterminate("C16.O2", (RFILE, "get_Sy_soil", 0), "cannot normalise R accumulation: %s" % exc)
        return
    chk.ob("C16.O2", p_inc.key() == r_inc_key, where_of(cls_f, acc),
           "cell contribution = %s" % p_inc.key(), "R reference: %s" % r_inc_key, key="get_Sy_soil|accumulation",
           why="Sy_soil is the storage change of the profile between the two water levels")
    # Campbell call sites: Fs argument is the CDF at the same z_, the other parameters are the instance's own
    nfs = 0
    for call, bind in camp_checks:
        try:
            fs = to_poly(st.term(bind["Fs"]), symmap_py)
            z = to_poly(st.term(bind["z_"]), symmap_py)
            want = to_poly(("call", "normcdf", [("opaque", "Z"), ("num", Fraction(0)), ("sym", "sd")]))
            got_key = fs.key().replace(z.key(), "(<Z>)")
            ok = got_key == want.key()
            nfs += 1
            chk.ob("C16.O2", ok, where_of(cls_f, call), "Fs argument = %s" % fs.key(),
                   "normal CDF (mean 0, sd) evaluated at the same elevation z_ = %s" % z.key(),
                   key="get_Sy_soil|Fs-arg|%s" % ("zl" if "zl_" in to_poly(st.term(bind["zlu"]), symmap_py).key() else "zu"),
                   why="R computes Fs = pnorm(z_, 0, sd) inside the Campbell function")
            for pname in ("theta_s", "psi_s", "b"):
                a = bind.get(pname)
                if a is None:
                    chk.indeterminate("C16.O2", where_of(cls_f, call), "the %s argument of the Campbell call is not passed positionally / by keyword (starred arguments?)" % pname)
                    continue
                v = sflow.def_value(a) if isinstance(a, ast.Name) else a
                okp = isinstance(v, ast.Attribute) and dotted_name(v) == "self.%s" % pname
                chk.ob("C16.O2", okp, where_of(cls_f, call), "%s argument = %s" % (pname, ast.unparse(v) if v is not None else ast.unparse(a)),
                       "the instance's %s" % pname, key="get_Sy_soil|param-%s|%d" % (pname, nfs))
        except (NotAlgebraic, KeyError) as exc:
            chk.indeterminate("C16.O2", where_of(cls_f, call), "cannot normalise Campbell call: %s" % exc)
    # Sy_soil[i]
    outs = [s for s in outer.body if isinstance(s, ast.Assign) and isinstance(s.targets[0], ast.Subscript)
            and isinstance(s.targets[0].value, ast.Name) and s.targets[0].value.id == out_arr]
    routs = [s for s in ro[3] if s[0] == "assign" and s[1][0] == "index"]
    if len(outs) == 1 and len(routs) == 1:
        try:
            st_out = ST(sflow, mod, array_names={zl_n, zu_n}, keep={zl_n, zu_n, iv, jv, accname})
            p_out = to_poly(st_out.term(outs[0].value), symmap_py)
            r_out = to_poly(renv2.term(routs[0][2]), rsym)
            rk = r_out.key().replace("A", accname) if accname != "A" else r_out.key()
            chk.ob("C16.O2", p_out.key() == rk, where_of(cls_f, outs[0]), "Sy_soil[i] = %s" % p_out.key(),
                   "R reference: %s" % rk, key="get_Sy_soil|normalisation",
                   why="the storage change is divided by the water-level increment of that level")
        except ZeroDivisionError:
            chk.ob("C16.O2", False, where_of(cls_f, outs[0]), "Sy_soil[i] = %s divides by zero" % ast.unparse(outs[0].value),
                   "A / (zu[i] - zl[i])", key="get_Sy_soil|normalisation",
                   why="the storage change is divided by the water-level increment of that level")
        except NotAlgebraic as exc:
            chk.indeterminate("C16.O2", where_of(cls_f, outs[0]), "cannot normalise Sy_soil[i]: %s" % exc)
    else:
        chk.indeterminate("C16.O2", where_of(cls_f, outer), "store into the output profile not found")
    # loop extents: information
    chk.info("C16.O2", where_of(cls_f, inner), "Python sums over %s" % ast.unparse(inner.iter),
             "R sums over %s (recorded, not compared)" % (ri[2],))

    # ---- _construct_spline: abscissae, surface term, sum, spline order
    cf = ctx.func("specific_yield.PeatclsmSpecificYield._construct_spline")
    cflow = Flow.of(cf)
    calls = [c for c in ast.walk(cf.node) if isinstance(c, ast.Call)]
    gs = [c for c in calls if ctx.cg.resolve_callee(cf, c.func) == [cls_f.fq]]
    if len(gs) != 1:
        chk.indeterminate("C16.O2", where_of(cf, cf.node), "call of get_Sy_soil not found in _construct_spline")
        return
    g = gs[0]
    # arguments: (Sy_soil, zl_, zu_)
    zl_arg, zu_arg = g.args[1], g.args[2]

    def linspace_of(node):
        v = cflow.def_value(node) if isinstance(node, ast.Name) else node
        if isinstance(v, ast.Call) and (full_call_name(cf.module, v) or "").endswith("numpy.linspace") and len(v.args) >= 3:
            try:
                return tuple(py_poly(a).const_or_none() for a in v.args[:3])
            except Exception:
                return None
        return None

    def rseq(name):
        v = rtop.get(name, [None])[0]
        if v and v[0] == "call" and v[1] == ("name", "seq") and len(v[2]) == 3:
            a, b, by = (to_poly(REnv(rf).term(x[1])).const_or_none() for x in v[2])
            return (a, b, (b - a) / by + 1)
        return None

    for label, arg, rname in (("lower", zl_arg, "zl_"), ("upper", zu_arg, "zu_")):
        p, r = linspace_of(arg), rseq(rname)
        chk.ob("C16.O2", p is not None and r is not None and p == r, where_of(cf, g),
               "%s levels = linspace%s" % (label, tuple(str(x) for x in p) if p else "?"),
               "R reference seq -> (start, end, count) = %s" % (tuple(str(x) for x in r) if r else "?",),
               key="_construct_spline|levels-%s" % label, why="the profile is tabulated at 201 levels 1 cm apart")
    # knots, surface term, sum
    spl = [c for c in calls if (full_call_name(cf.module, c) or "").endswith("Spline.from_points") or
           (isinstance(c.func, ast.Attribute) and c.func.attr == "from_points")]
    if len(spl) != 1:
        chk.indeterminate("C16.O5", where_of(cf, cf.node), "Spline.from_points call not found")
        return
    sp = spl[0]
    kw = {k.arg: k.value for k in sp.keywords}
    order = kw.get("order", sp.args[2] if len(sp.args) > 2 else None)
    sval = kw.get("s", sp.args[1] if len(sp.args) > 1 else None)
    chk.ob("C16.O5", isinstance(order, ast.Constant) and order.value == 1 and (sval is None or (isinstance(sval, ast.Constant) and sval.value == 0)),
           where_of(cf, sp), "spline order=%s s=%s" % (ast.unparse(order) if order is not None else "default(3)", ast.unparse(sval) if sval is not None else "default(0)"),
           "order 1, no smoothing: linear between the tabulated levels", key="_construct_spline|order")
    pts = sp.args[0] if sp.args else kw.get("points")
    if not (isinstance(pts, ast.Call) and isinstance(pts.func, ast.Name) and pts.func.id == "zip" and len(pts.args) == 2):
        chk.indeterminate("C16.O2", where_of(cf, sp), "points are not zip(levels, values)")
        return
    arrays = set()
    for a in (zl_arg, zu_arg):
        if isinstance(a, ast.Name):
            arrays.add(a.id)
    soil_name = g.args[0].id if isinstance(g.args[0], ast.Name) else None
    selfattr = {}
    for s in ast.walk(cf.node):
        if isinstance(s, ast.Assign) and isinstance(s.targets[0], ast.Attribute) and dotted_name(s.targets[0]) and dotted_name(s.targets[0]).startswith("self."):
            selfattr[dotted_name(s.targets[0])[5:]] = s.value

    class CT(PyTerms):
        def term(self, node, idx=None, depth=0):
            if isinstance(node, ast.Attribute):
                d = dotted_name(node)
                if d and d.startswith("self.") and d[5:] in selfattr:
                    return self.term(selfattr[d[5:]], idx, depth + 1)
            return PyTerms.term(self, node, idx, depth)

    ctm = CT(cflow, cf.module, array_names=arrays, keep=arrays | ({soil_name} if soil_name else set()))
    symm = {}
    if isinstance(zl_arg, ast.Name):
        symm[zl_arg.id] = "zl_"
    if isinstance(zu_arg, ast.Name):
        symm[zu_arg.id] = "zu_"
    if soil_name:
        symm[soil_name] = "Sy1_soil"
    try:
        x_knots = to_poly(ctm.term(pts.args[0]), symm)
        y_knots = to_poly(ctm.term(pts.args[1]), symm)
        r_wl = to_poly(REnv(rf).term(rtop["wl"][0]))
        renv_top = REnv(rf)
        r_surface = renv_top.term(rtop["Sy1_surface"][0])
        r_sum = to_poly(("add", ("sym", "Sy1_soil"), r_surface))
        chk.ob("C16.O2", x_knots == r_wl * Poly.const(1000), where_of(cf, sp), "knot levels = %s" % x_knots.key(),
               "1000 mm/m x R reference mid-levels %s" % r_wl.key(), key="_construct_spline|knot-levels",
               why="values are tabulated at the mid-point of each 1 cm cell, in mm")
        chk.ob("C16.O2", y_knots == r_sum, where_of(cf, sp), "knot values = %s" % y_knots.key(),
               "R reference: %s" % r_sum.key(), key="_construct_spline|knot-values",
               why="specific yield = soil term + microtopography CDF at the mid-level (Dettmann-Bechtold eqs 2, 3)")
    except (NotAlgebraic, KeyError) as exc:
        chk.indeterminate("C16.O2", where_of(cf, sp), "cannot normalise knots: %s" % exc)


def _ancestors(node, stop):
    n = getattr(node, "parent", None)
    while n is not None and n is not stop:
        yield n
        n = getattr(n, "parent", None)


def _subst(term, what, by):
    if what is None:
        return term
    if term == what:
        return by
    if isinstance(term, tuple):
        return tuple(_subst(x, what, by) if isinstance(x, tuple) else ([_subst(y, what, by) for y in x] if isinstance(x, list) else x) for x in term)
    return term


def _transmissivity_expr(ctx):
    f = ctx.func("transmissivity.PeatclsmTransmissivity.__call__")
    flow = Flow.of(f)
    rets = [n for n in ast.walk(f.node) if isinstance(n, ast.Return) and n.value is not None]
    return f, flow, rets


def _transmissivity(ctx, chk):
    f, flow, rets = _transmissivity_expr(ctx)
    mod = f.module
    if len(rets) != 1:
        chk.indeterminate("C16.O3", where_of(f, f.node), "expected one return in PeatclsmTransmissivity.__call__")
        return
    wl = f.params[1]
    selfmap = {}

    def resolve(name_node):
        v = flow.def_value(name_node)
        if isinstance(v, ast.Call) and (full_call_name(mod, v) or "") in ("numpy.asarray", "numpy.array", "float", "numpy.float64") and v.args:
            return v.args[0]
        return v

    def symfix(p):
        return p

    try:
        got = py_poly(rets[0].value, resolve)
    except NotAlgebraic as exc:
        chk.indeterminate("C16.O3", where_of(f, rets[0]), "cannot normalise the return expression: %s" % exc)
        return
    spec = ast.parse("self.Ksmacz0 * (self.zeta_max_cm - %s / 10) ** (1 - self.alpha) / (100 * (self.alpha - 1))" % wl, mode="eval").body
    want = py_poly(spec)
    chk.ob("C16.O3", got == want, where_of(f, rets[0]), "T = %s" % got.key(), "%s" % want.key(),
           key="PeatclsmTransmissivity|formula",
           why="Apers et al. eq. 3 with zeta in cm: Ksmacz0 (zeta_max - zeta)^(1-alpha) / (100 (alpha-1))")
    # O4: refusal dominates the return
    gs = []
    for g in guards_of(f, include_assert=False):
        txt = ast.unparse(flow.expand(g.expr))
        if "zeta_max_cm" in txt:
            gs.append(g)
    ok = False
    desc = "no refusal mentioning zeta_max_cm"
    if gs:
        g = gs[0]
        e = g.expr
        # (wl/10 > zmax).any()
        core = e
        anyall = None
        if isinstance(core, ast.Call) and isinstance(core.func, ast.Attribute) and core.func.attr in ("any", "all") and not core.args:
            anyall = core.func.attr
            core = core.func.value
        elif isinstance(core, ast.Call) and (full_call_name(mod, core) or "") in ("numpy.any", "numpy.all", "any", "all") and core.args:
            anyall = (full_call_name(mod, core) or "").split(".")[-1]
            core = core.args[0]
        try:
            from ..norm import py_compare
            op, p = py_compare(core, resolve)
            want_c = py_compare(ast.parse("%s / 10 > self.zeta_max_cm" % wl, mode="eval").body)
            shape_ok = (op, p) == want_c and not g.negated and anyall in (None, "any")
            dom = flow.cfg.dominates(g.node, flow.cfg.node(rets[0]))
            ok = shape_ok and dom
            desc = "raises when %s(%s 0 %s)%s; %s the return" % ((anyall + " ") if anyall else "", p.key(), op,
                                                                  " [negated]" if g.negated else "", "dominates" if dom else "does NOT dominate")
        except NotAlgebraic as exc:
            # a refusal derived from the computed value (isnan / isfinite of the power) instead of from the level
            nanlike = [c for c in ast.walk(flow.expand(g.expr)) if isinstance(c, ast.Call)
                       and (full_call_name(mod, c) or dotted_name(c.func) or "").split(".")[-1] in ("isnan", "isfinite", "isinf", "isreal", "iscomplex")]
            if nanlike:
                chk.ob("C16.O4", False, where_of(f, g.stmt),
                       "the refusal is decided from the computed value (%s), not by comparing the level with zeta_max_cm" % ast.unparse(nanlike[0])[:60],
                       "raises when any level (in cm) is strictly above zeta_max_cm, before the value is computed",
                       key="PeatclsmTransmissivity|refusal",
                       why="a negative base raised to a whole-number exponent is an ordinary finite number: with alpha = 3 (the published value) every level above zeta_max is accepted silently")
                return
            chk.indeterminate("C16.O4", where_of(f, g.stmt), "cannot normalise the refusal test: %s" % exc)
            return
    chk.ob("C16.O4", ok, where_of(f, gs[0].stmt if gs else f.node), desc,
           "raises when any level (in cm) is strictly above zeta_max_cm, before the value is computed",
           key="PeatclsmTransmissivity|refusal",
           why="above zeta_max the power of a negative base is meaningless; the property demands a refusal")


def _transmissivity_r(ctx, chk, rprog):
    rf = r_functions(rprog)
    if "Transmissivity" not in rf:
        chk.indeterminate("C16.O3", (RFILE, "<file>", 0), "R function Transmissivity not found")
        return
    f, flow, rets = _transmissivity_expr(ctx)
    if len(rets) != 1:
        return
    env = REnv(rf)
    r = env.run(rf["Transmissivity"][2])
    try:
        rp = to_poly(r)
        wl = f.params[1]
        # z [m] * 100 = zeta_cm = wl / 10 ; zeta_max = 1
        spec = ast.parse("Ksmacz0 * (1 - (%s / 10)) ** (1 - alpha) / (100 * (alpha - 1))" % wl, mode="eval").body
        pp = py_poly(spec)
        rp2 = to_poly(r, {"z": ("div", ("div", ("sym", wl), ("num", Fraction(10))), ("num", Fraction(100)))})
        mod = f.module

        def resolve(name_node):
            v = flow.def_value(name_node)
            if isinstance(v, ast.Call) and (full_call_name(mod, v) or "") in ("numpy.asarray", "numpy.array") and v.args:
                return v.args[0]
            return v

        got = py_poly(rets[0].value, resolve, symmap={"self.Ksmacz0": "Ksmacz0", "self.alpha": "alpha",
                                                       "self.zeta_max_cm": ("num", Fraction(1))})
        chk.ob("C16.O3", got == rp2, where_of(f, rets[0]), "T at zeta_max = 1 cm: %s" % got.key(),
               "R reference with z[m] = zeta_mm / 1000: %s" % rp2.key(), key="PeatclsmTransmissivity|agrees-with-R")
    except NotAlgebraic as exc:
        chk.indeterminate("C16.O3", where_of(f, rets[0]), "cannot compare with the R function: %s" % exc)
