"""C14 -- spline specific yield interpolates its knots and integrates consistently.

 O1 the smoothing value reaching splrep from SplineSpecificYield is the
    literal 0 and the order is 3; (level, value) pairing of the points
 O2 __call__ evaluates at clamp(x, first knot, last knot) (order cells)
 O3 integrate tiles [a, b]: for every weak ordering of a, b, xmin, xmax
    (xmin < xmax) the pieces are the left constant below xmin, the spline
    inside, the right constant above xmax; a > b is the negation of the
    swapped call; a == b is 0
 O4 value and integral of a specific-yield object delegate to the same
    spline attribute
"""

import ast

from ..flow import Flow
from ..norm import NotAlgebraic, Poly
from ..ordercell import CellEval, CellExec, Undecided, weak_orderings
from ..report import where_of
from ..source import dotted_name, enclosing_func
from .c12 import full_call_name


def _tck_end(node, attr="_tck"):
    """self._tck[0][0] -> 'xmin', self._tck[0][-1] -> 'xmax'."""
    if isinstance(node, ast.Subscript) and isinstance(node.value, ast.Subscript):
        inner = node.value
        if isinstance(inner.value, ast.Attribute) and dotted_name(inner.value) == "self." + attr \
                and isinstance(inner.slice, ast.Constant) and inner.slice.value == 0:
            s = node.slice
            if isinstance(s, ast.Constant) and s.value == 0:
                return "xmin"
            if isinstance(s, ast.UnaryOp) and isinstance(s.op, ast.USub) and isinstance(s.operand, ast.Constant) and s.operand.value == 1:
                return "xmax"
    return None


def run(ctx, chk, tier="quick"):
    chk.explanation = (
        "Constant propagation of the smoothing factor and order into scipy's splrep; order-cell "
        "evaluation of Spline.__call__'s clamping and of Spline.integrate over every weak ordering of "
        "(a, b, xmin, xmax) with xmin < xmax, comparing the pieces the code adds up with the tiling "
        "the property demands; delegation of value and integral to one spline object."
    )
    chk.assumptions = ["scipy splrep(s=0) interpolates its data; splev/splint evaluate/integrate that spline",
                       "splint treats the spline as zero outside its data interval (scipy documentation)"]
    from ..memo import memo_keys
    memo_keys(ctx, chk, "C14.O1", ("spline", "specific_yield"), "spline")
    from ..perm import sorted_values_regathered
    sorted_values_regathered(ctx, chk, "C14.O2", ('spline', 'specific_yield'), "spline")
    mod = ctx.repo.module("spline")
    tck_attr = "_tck"
    # ---------------- O1
    fp = ctx.func("spline.Spline.from_points")
    fflow = Flow.of(fp)
    reps = [c for c in ast.walk(fp.node) if isinstance(c, ast.Call) and (
        (full_call_name(mod, c) or "").endswith("splrep") or
        (isinstance(c.func, ast.Name) and _module_alias_of(mod, c.func.id, "splrep")))]
    if len(reps) != 1:
        chk.indeterminate("C14.O1", where_of(fp, fp.node), "splrep call not found in Spline.from_points")
    else:
        rep = reps[0]
        kw = {k.arg: k.value for k in rep.keywords}
        sarg = kw.get("s", rep.args[5] if len(rep.args) > 5 else None)
        karg = kw.get("k", rep.args[4] if len(rep.args) > 4 else None)
        a_ = fp.node.args
        allp = a_.posonlyargs + a_.args
        dmap = dict(zip([x.arg for x in allp][len(allp) - len(a_.defaults):], a_.defaults))

        def through_param(node):
            """Name that is a parameter of from_points -> its name."""
            if isinstance(node, ast.Name) and fflow.is_param(node):
                return node.id
            return None

        sp, kp = through_param(sarg) if sarg is not None else None, through_param(karg) if karg is not None else None
        # x, y order and completeness: both operands of splrep are traced back to `zip(*points)`; three outcomes:
        # (position 0, position 1) of the same unzip with every point kept -> holds; swapped positions, or a subset of
        # the points (mask / slice / unique / delete) on the way -> the construct is named; anything else -> not decided.
        IDENT = ("asarray", "array", "asanyarray", "ascontiguousarray", "list", "tuple", "float64", "copy")

        def trace(node, depth=0):
            """-> (position in zip(*P) or None, dump of P or None, [subset nodes], readable)"""
            subs = []
            cur = node
            for _h in range(12):
                if isinstance(cur, ast.Call) and len(cur.args) >= 1 and (
                        (isinstance(cur.func, ast.Name) and cur.func.id in IDENT) or
                        (isinstance(cur.func, ast.Attribute) and cur.func.attr in IDENT and isinstance(cur.func.value, ast.Name)
                         and cur.func.value.id in ("np", "numpy"))):
                    cur = cur.args[0]
                    continue
                if isinstance(cur, ast.Call) and isinstance(cur.func, ast.Attribute) and cur.func.attr in ("copy", "astype", "tolist") :
                    cur = cur.func.value
                    continue
                if isinstance(cur, ast.Call) and isinstance(cur.func, ast.Attribute) and cur.func.attr in ("unique", "delete", "compress", "extract", "take", "trim_zeros") \
                        and cur.args:
                    subs.append(cur)
                    cur = cur.args[-1] if cur.func.attr in ("compress", "extract") else cur.args[0]
                    continue
                if isinstance(cur, ast.Subscript) and not getattr(cur, "_synthetic", False):
                    sl = cur.slice
                    full = isinstance(sl, ast.Slice) and sl.lower is None and sl.upper is None and sl.step is None
                    if isinstance(sl, ast.Constant) and isinstance(sl.value, int) and isinstance(cur.value, ast.Call) \
                            and isinstance(cur.value.func, ast.Name) and cur.value.func.id in ("list", "tuple") and len(cur.value.args) == 1 \
                            and isinstance(cur.value.args[0], ast.Call) and isinstance(cur.value.args[0].func, ast.Name) and cur.value.args[0].func.id == "zip":
                        z = cur.value.args[0]
                        if len(z.args) == 1 and isinstance(z.args[0], ast.Starred):
                            return sl.value, ast.dump(z.args[0].value), subs, True
                    if not full:
                        subs.append(cur)
                    cur = cur.value
                    continue
                if isinstance(cur, ast.Subscript) and getattr(cur, "_synthetic", False) and isinstance(cur.slice, ast.Constant):
                    # k-th target of `a, b = X`
                    k, src = cur.slice.value, cur.value
                    if isinstance(src, ast.Name):
                        v = fflow.def_value(src)
                        if v is None:
                            return None, None, subs, False
                        src = v
                    return unzip_pos(src, k, subs)
                if isinstance(cur, ast.Name):
                    if fflow.is_param(cur):
                        return None, None, subs, False
                    v = fflow.def_value(cur)
                    if v is not None:
                        cur = v
                        continue
                    d = fflow.unique_def_node(cur)
                    st = fflow.cfg.stmt_of.get(d) if d is not None else None
                    if isinstance(st, ast.Assign) and len(st.targets) == 1 and isinstance(st.targets[0], (ast.Tuple, ast.List)):
                        names = [t.id if isinstance(t, ast.Name) else None for t in st.targets[0].elts]
                        if cur.id in names and names.count(cur.id) == 1:
                            return unzip_pos(st.value, names.index(cur.id), subs)
                    return None, None, subs, False
                return None, None, subs, False
            return None, None, subs, False

        def unzip_pos(v, k, subs):
            if isinstance(v, ast.Call) and isinstance(v.func, ast.Name) and v.func.id in ("list", "tuple", "map") and v.args:
                if v.func.id == "map" and len(v.args) == 2:
                    v = v.args[1]
                elif v.func.id != "map" and len(v.args) == 1:
                    v = v.args[0]
            if isinstance(v, (ast.GeneratorExp, ast.ListComp)) and len(v.generators) == 1 and not v.generators[0].ifs \
                    and isinstance(v.generators[0].target, ast.Name):
                # (WRAP(c) for c in zip(*P)): WRAP must keep every element of the column
                pos, src, s2, ok = trace(v.elt)
                tgt = v.generators[0].target.id
                inner = v.elt
                for _h in range(6):
                    if isinstance(inner, ast.Call) and inner.args:
                        inner = inner.args[0]
                if not (isinstance(inner, ast.Name) and inner.id == tgt):
                    return None, None, subs, False
                subs = subs + [n for n in ast.walk(v.elt) if isinstance(n, ast.Subscript)]
                v = v.generators[0].iter
            if isinstance(v, ast.Call) and isinstance(v.func, ast.Name) and v.func.id == "zip" and len(v.args) == 1 and isinstance(v.args[0], ast.Starred):
                return k, ast.dump(fflow.expand(v.args[0].value)), subs, True
            return None, None, subs, False

        if len(rep.args) >= 2:
            p0, s0, sub0, r0 = trace(rep.args[0])
            p1, s1, sub1, r1 = trace(rep.args[1])
            shown = "splrep(%s)" % ", ".join(ast.unparse(a) for a in rep.args)
            dropped = sub0 + sub1
            if dropped:
                d0_ = dropped[0]
                chk.ob("C14.O1", False, where_of(fp, d0_), "%s: the points reaching the fit are %s, a subset of the points given" % (shown, ast.unparse(d0_)[:60]),
                       "every (level, value) point given reaches splrep: an interpolating spline passes only through the points it is fitted to",
                       key="Spline.from_points|all-points", why="a knot that is dropped (by a mask, a tolerance test, unique, a slice) is not interpolated, and if it is an end knot the constant range moves")
            elif r0 and r1 and s0 == s1 and (p0, p1) in ((0, 1), (1, 0)):
                chk.ob("C14.O1", (p0, p1) == (0, 1), where_of(fp, rep), shown,
                       "splrep(x, y) with (x, y) unzipped from the (level, value) points in that order",
                       key="Spline.from_points|xy-order", why="swapped axes fit level as a function of value")
            else:
                chk.indeterminate("C14.O1", where_of(fp, rep), "%s: operands not traced back to zip(*points)" % shown)
        else:
            chk.indeterminate("C14.O1", where_of(fp, rep), "splrep is not called with two positional operands")
        # call site in SplineSpecificYield
        init = ctx.func("specific_yield.SplineSpecificYield.__init__")
        calls = [c for c in ast.walk(init.node) if isinstance(c, ast.Call) and isinstance(c.func, ast.Attribute) and c.func.attr == "from_points"]
        if len(calls) != 1:
            chk.indeterminate("C14.O1", where_of(init, init.node), "from_points call not found in SplineSpecificYield.__init__")
        else:
            c = calls[0]
            ckw = {k.arg: k.value for k in c.keywords}
            pnames = [p for p in fp.params if p != "cls"]

            def actual(pname):
                if pname in ckw:
                    return ckw[pname]
                i = pnames.index(pname) if pname in pnames else -1
                if 0 <= i < len(c.args):
                    return c.args[i]
                return dmap.get(pname)

            sval = actual(sp) if sp else sarg
            kval = actual(kp) if kp else karg
            s_ok = isinstance(sval, ast.Constant) and sval.value == 0 and not isinstance(sval.value, bool)
            k_ok = isinstance(kval, ast.Constant) and kval.value == 3
            chk.ob("C14.O1", s_ok, where_of(init, c), "smoothing reaching splrep = %s" % (ast.unparse(sval) if sval is not None else "scipy default (None)"),
                   "literal 0 (interpolation)", key="SplineSpecificYield|smoothing",
                   why="with s > 0 (or scipy's default) the spline does not pass through the knots")
            chk.ob("C14.O1", k_ok, where_of(init, c), "order reaching splrep = %s" % (ast.unparse(kval) if kval is not None else "scipy default"),
                   "3 (cubic)", key="SplineSpecificYield|order")
            pts = actual(pnames[0]) if pnames else None
            p_ok = isinstance(pts, ast.Call) and isinstance(pts.func, ast.Name) and pts.func.id == "zip" and len(pts.args) == 2 \
                and isinstance(pts.args[0], ast.Name) and isinstance(pts.args[1], ast.Name) \
                and init.params[1:3] == [pts.args[0].id, pts.args[1].id]
            chk.ob("C14.O1", p_ok, where_of(init, c), "points = %s" % (ast.unparse(pts) if pts is not None else "?"),
                   "zip(levels, values) of the constructor's own arguments, levels first",
                   key="SplineSpecificYield|points", why="the knots are (level, value) pairs")

    # ---------------- O2: clamp
    call = ctx.func("spline.Spline.__call__")
    cflow = Flow.of(call)
    evs = [c for c in ast.walk(call.node) if isinstance(c, ast.Call) and (
        (full_call_name(mod, c) or "").endswith("splev") or (isinstance(c.func, ast.Name) and _module_alias_of(mod, c.func.id, "splev")))]
    if len(evs) != 1 or not evs[0].args:
        chk.indeterminate("C14.O2", where_of(call, call.node), "splev call not found in Spline.__call__")
    else:
        ev0 = evs[0]
        xparam = call.params[1]
        arg = cflow.expand(ev0.args[0], keep={xparam})
        # re-parent for sym_of (expanded copy has no parents; not needed)
        cells = [("x < first knot", {"x": 0, "xmin": 1, "xmax": 2}, "xmin"),
                 ("x = first knot", {"x": 1, "xmin": 1, "xmax": 2}, "xmin"),
                 ("inside", {"xmin": 0, "x": 1, "xmax": 2}, "x"),
                 ("x = last knot", {"xmin": 0, "x": 1, "xmax": 1}, "xmax"),
                 ("x > last knot", {"xmin": 0, "xmax": 1, "x": 2}, "xmax")]

        dom_names = {}
        for st_ in ast.walk(call.node):
            if isinstance(st_, ast.Assign) and isinstance(st_.targets[0], ast.Tuple) and len(st_.targets[0].elts) == 2 \
                    and isinstance(st_.value, ast.Call) and dotted_name(st_.value.func) == "self.domain" \
                    and all(isinstance(e, ast.Name) for e in st_.targets[0].elts):
                dom_names = {st_.targets[0].elts[0].id: "xmin", st_.targets[0].elts[1].id: "xmax"}

        def sym_of(node):
            s = _tck_end(node, tck_attr)
            if s:
                return s
            if isinstance(node, ast.Name) and node.id == xparam:
                return "x"
            if isinstance(node, ast.Name) and node.id in dom_names:
                return dom_names[node.id]     # (first knot, last knot): Spline.domain is checked under C14.O3
            if isinstance(node, ast.Subscript) and isinstance(node.value, ast.Call) and dotted_name(node.value.func) == "self.domain" \
                    and not node.value.args and isinstance(node.slice, ast.Constant) and node.slice.value in (0, 1):
                return ("xmin", "xmax")[node.slice.value]
            return None

        # every bound the argument is clamped against must be the first or the last knot
        foreign = [n for n in ast.walk(arg) if isinstance(n, ast.Subscript) and "self.%s" % tck_attr in ast.unparse(n)
                   and _tck_end(n, tck_attr) is None and isinstance(n.value, ast.Subscript)]
        if foreign:
            chk.ob("C14.O2", False, where_of(call, ev0), "argument clamped against %s" % ast.unparse(foreign[0]),
                   "the first knot self.%s[0][0] and the last knot self.%s[0][-1]" % (tck_attr, tck_attr),
                   key="Spline.__call__|clamp|bounds", why="clamping against an interior knot or a coefficient makes the function constant inside the knot range")
            cells = []
        # an argument clamped in place (a copy of x changed by masked stores) is evaluated by running the statements before the call
        in_place = any(isinstance(n, ast.Name) and n.id != xparam and n.id not in dom_names and sym_of(n) is None for n in ast.walk(arg)) \
            and isinstance(ev0.args[0], ast.Name)

        def eval_arg(cell):
            if not in_place:
                return CellEval(cell, sym_of).eval(arg)
            from ..ordercell import CellExec

            def apply(c_, args_, evl):
                nm = CellEval._call_name(c_)
                if nm in ("array", "asarray", "copy", "float64", "atleast_1d", "asfarray") and args_ and args_[0] is not None:
                    return args_[0]          # a copy / conversion of x: the same element
                if nm == "copy" and isinstance(c_.func, ast.Attribute) and not c_.args:
                    return evl.eval(c_.func.value)
                return None
            evl = CellEval(cell, sym_of, apply=apply)

            def on_assign_call(st_, e_):
                v_ = st_.value
                if isinstance(v_, ast.Call) and dotted_name(v_.func) == "self.domain":
                    return [Poly.atom("xmin"), Poly.atom("xmax")]
                return None
            ex_ = CellExec(evl, on_assign_call)
            body_ = []
            for st_ in call.node.body:
                if any(n is ev0 for n in ast.walk(st_)):
                    break
                body_.append(st_)
            ex_.run(body_)
            return evl.eval(ev0.args[0])

        # ... and such a copy must be a floating-point array: np.array(x) of integer levels keeps the integer dtype and the
        # stored knot is truncated towards zero
        if in_place:
            nm_ = ev0.args[0].id
            d_ = None
            for st_ in call.node.body:
                if isinstance(st_, ast.Assign) and len(st_.targets) == 1 and isinstance(st_.targets[0], ast.Name) and st_.targets[0].id == nm_:
                    d_ = st_
            stores_ = [st_ for st_ in ast.walk(call.node) if isinstance(st_, ast.Assign) and isinstance(st_.targets[0], ast.Subscript)
                       and isinstance(st_.targets[0].value, ast.Name) and st_.targets[0].value.id == nm_]
            if d_ is not None and stores_ and isinstance(d_.value, ast.Call):
                fn_ = (full_call_name(mod, d_.value) or dotted_name(d_.value.func) or "").split(".")[-1]
                has_float = any(k.arg == "dtype" and "float" in ast.unparse(k.value) for k in d_.value.keywords) or fn_ in ("asfarray", "float64")
                if fn_ in ("array", "asarray", "copy", "atleast_1d", "array_like", "empty_like", "zeros_like") and not has_float:
                    chk.ob("C14.O2", False, where_of(call, d_), "%s = %s keeps the caller's dtype, and the knot range ends are then stored into it" % (nm_, ast.unparse(d_.value)[:50]),
                           "the clamped copy is a floating-point array (dtype=float)", key="Spline.__call__|clamp|dtype",
                           why="for integer levels (a Python int, an integer array) the stored end knot -291.7 becomes -291: the function is no longer constant outside the knot range")
        for label, cell, want in cells:
            try:
                got = eval_arg(cell)
                ok = CellEval(cell, sym_of).compare("==", got, Poly.atom(want))
                chk.ob("C14.O2", ok, where_of(call, ev0), "%s: spline evaluated at %s" % (label, got.key()),
                       "evaluated at %s" % want, key="Spline.__call__|clamp|%s" % label,
                       why="constant extrapolation outside the knot range")
            except Undecided as exc:
                chk.indeterminate("C14.O2", where_of(call, ev0), "clamp not evaluable (%s): %s" % (label, exc))
        tck_ok = len(ev0.args) > 1 and dotted_name(ev0.args[1]) == "self." + tck_attr
        chk.ob("C14.O2", tck_ok, where_of(call, ev0), "splev(…, %s)" % (ast.unparse(ev0.args[1]) if len(ev0.args) > 1 else "?"),
               "the spline's own coefficients", key="Spline.__call__|tck")

    # ---------------- O3: integrate
    _integrate(ctx, chk, mod, tck_attr)

    # ---------------- O4: delegation
    sy_delegation(ctx, chk, "C14.O4", "integrating a different function breaks W' = Sy")


IDENTITY_WRAPPERS = {"asarray", "asanyarray", "float", "float64", "array", "atleast_1d"}
VALUE_CHANGING = {"maximum", "minimum", "clip", "abs", "absolute", "fabs", "where", "round", "around", "floor", "ceil", "fmax", "fmin", "nan_to_num", "max", "min"}


def sy_delegation(ctx, chk, rule, why):
    """SpecificYield.__call__ and .integrate are the value and the integral of ONE function: both hand their
    arguments to the same spline attribute, and neither changes what comes back."""
    base_call = ctx.func("specific_yield.SpecificYield.__call__")
    base_int = ctx.func("specific_yield.SpecificYield.integrate")

    def ret_call(f):
        """(delegating call, wrapper text or None, readable)"""
        rets = [n for n in ast.walk(f.node) if isinstance(n, ast.Return) and n.value is not None]
        if len(rets) > 1:
            # early `return <constant>` under a test of the arguments: an exact test of a zero-width interval agrees with the
            # integral; a tolerance test does not (the width it swallows grows with the magnitude of the limits)
            main = []
            for r in rets:
                cv = r.value.operand if isinstance(r.value, ast.UnaryOp) else r.value
                par = getattr(r, "parent", None)
                if isinstance(cv, ast.Constant) and isinstance(par, ast.If) and r in par.body and len(par.body) == 1:
                    t = par.test
                    params = set(f.params[1:])
                    tn = {x.id for x in ast.walk(t) if isinstance(x, ast.Name)}
                    tol = [c for c in ast.walk(t) if isinstance(c, ast.Call) and (dotted_name(c.func) or "").split(".")[-1] in ("isclose", "allclose")]
                    absdiff = [c for c in ast.walk(t) if isinstance(c, ast.Compare) and any(isinstance(o, (ast.Lt, ast.LtE)) for o in c.ops)
                               and any(isinstance(x, ast.Call) and (dotted_name(x.func) or "").split(".")[-1] in ("abs", "fabs", "absolute") for x in ast.walk(c.left))]
                    exact = isinstance(t, ast.Compare) and len(t.ops) == 1 and isinstance(t.ops[0], ast.Eq) and isinstance(t.left, ast.Name) \
                        and isinstance(t.comparators[0], ast.Name) and {t.left.id, t.comparators[0].id} <= params and isinstance(cv.value, (int, float)) and cv.value == 0
                    if exact:
                        continue
                    if (tol or absdiff) and tn & params:
                        tolerance_returns.append((f, r, t))
                        continue
                main.append(r)
            rets = main
        if len(rets) != 1:
            return None, None, False
        v = rets[0].value
        if isinstance(v, ast.Name):
            dv = Flow.of(f).def_value(v)
            v = dv if dv is not None else v
        # identity wrappers
        while isinstance(v, ast.Call) and (dotted_name(v.func) or "").split(".")[-1] in IDENTITY_WRAPPERS and len(v.args) == 1 \
                and not (dotted_name(v.func) or "").startswith("self."):
            v = v.args[0]
        if isinstance(v, ast.Call) and (dotted_name(v.func) or "").startswith("self."):
            return v, None, True
        # W(self.attr(...), ...) / self.attr(...) op E with a value-changing W
        inner = [c for c in ast.walk(v) if isinstance(c, ast.Call) and (dotted_name(c.func) or "").startswith("self.")]
        if len(inner) == 1:
            if isinstance(v, ast.Call) and (dotted_name(v.func) or "").split(".")[-1] in VALUE_CHANGING and any(a is inner[0] for a in v.args):
                return inner[0], ast.unparse(v)[:70], True
            if isinstance(v, (ast.BinOp, ast.UnaryOp)):
                return inner[0], ast.unparse(v)[:70], True
        return None, None, False

    tolerance_returns = []
    (rc, wc, okc), (ri, wi, oki) = ret_call(base_call), ret_call(base_int)
    for f_, r_, t_ in tolerance_returns:
        chk.ob(rule, False, where_of(f_, r_), "%s returns the constant %s when `%s`" % (f_.qualname, ast.unparse(r_.value), ast.unparse(t_)[:70]),
               "the integral between two different limits is the spline's own integral, however close the limits are (an exact test `lo == hi` is the only zero-width case)",
               key="SpecificYield|tolerance-branch", local=True,
               why=why + "; np.isclose scales its tolerance with the magnitude of the limits (1e-5 relative): for levels referred to a distant datum, or on a finely refined grid, whole cells integrate to zero, so refining the grid changes values at shared levels")
    recv_c = dotted_name(rc.func) if rc is not None else None
    recv_i = dotted_name(ri.func) if ri is not None else None
    readable = okc and oki and all(isinstance(a, ast.Name) for a in list(rc.args) + list(ri.args)) and not rc.keywords and not ri.keywords
    if not readable:
        chk.indeterminate(rule, where_of(base_int, base_int.node), "value / integral of the specific yield are not plain delegations `return self.<attr>(...)` with the parameters as arguments")
    else:
        desc = "value -> %s, integral -> %s" % (wc or "%s(...)" % recv_c, wi or "%s(...)" % recv_i)
        ok = recv_i == recv_c + ".integrate" \
            and len(rc.args) == 1 and rc.args[0].id == base_call.params[1] \
            and len(ri.args) == 2 and [a.id for a in ri.args] == base_int.params[1:3]
        if ok and (wc is None) != (wi is None):
            side = base_call if wc is not None else base_int
            chk.ob(rule, False, where_of(side, side.node), desc + ": one side changes what the spline returns, the other does not",
                   "value and integral of the same function: both the spline's own, or both changed consistently",
                   key="SpecificYield|delegation", why=why + "; where the raw spline differs from the changed value (a cubic dipping below zero between knots) the integral is not the area under the value")
        elif ok and wc is not None and wi is not None:
            chk.indeterminate(rule, where_of(base_int, base_int.node), desc + ": both sides change the spline's result; whether consistently is not decided")
        else:
            chk.ob(rule, ok, where_of(base_int, base_int.node), desc,
                   "both delegate to the same spline attribute, limits passed in order",
                   key="SpecificYield|delegation", why=why)
    # subclasses do not override value/integral
    m = ctx.repo.module("specific_yield")
    for cname, cls in m.classes.items():
        if cname == "SpecificYield":
            continue
        over = [n.name for n in cls.body if isinstance(n, ast.FunctionDef) and n.name in ("__call__", "integrate")]
        chk.ob(rule, not over, (m.relpath, cname, cls.lineno), "class %s overrides %s" % (cname, over or "nothing"),
               "value and integral come from the shared base implementation", key="specific_yield|%s|override" % cname)


def _module_alias_of(mod, name, target):
    """module-level `name = something.target`"""
    v = mod.constants.get(name)
    return isinstance(v, ast.Attribute) and v.attr == target


def _integrate(ctx, chk, mod, tck_attr):
    f = ctx.func("spline.Spline.integrate")
    if len(f.params) != 3:
        chk.indeterminate("C14.O3", where_of(f, f.node), "integrate signature changed")
        return
    pa, pb = f.params[1], f.params[2]
    dom = ctx.func("spline.Spline.domain") if ctx.repo.has_func("spline.Spline.domain") else None
    dom_ok = False
    if dom is not None:
        rets = [n for n in ast.walk(dom.node) if isinstance(n, ast.Return)]
        ends = None
        if len(rets) == 1 and isinstance(rets[0].value, ast.Tuple) and len(rets[0].value.elts) == 2:
            dflow = Flow.of(dom)
            ends = [_tck_end(dflow.expand(e), tck_attr) for e in rets[0].value.elts]
            dom_ok = ends == ["xmin", "xmax"]
        def tck_elem(e):
            # self._tck[i][j] with literal integers: a definite element of the spline representation
            return isinstance(e, ast.Subscript) and isinstance(e.value, ast.Subscript) and dotted_name(e.value.value) == "self." + tck_attr \
                and all(isinstance(x, ast.Constant) or (isinstance(x, ast.UnaryOp) and isinstance(x.operand, ast.Constant)) for x in (e.slice, e.value.slice))
        if ends is not None and None in ends and all(tck_elem(dflow.expand(e)) for e in rets[0].value.elts):
            chk.ob("C14.O3", False, where_of(dom, dom.node), "domain() returns %s" % ast.unparse(rets[0].value),
                   "(first knot, last knot) = (self.%s[0][0], self.%s[0][-1])" % (tck_attr, tck_attr), key="Spline.domain|ends")
        elif ends is None or None in ends:
            chk.indeterminate("C14.O3", where_of(dom, dom.node), "domain() = %s: not two elements of the knot vector" % (ast.unparse(rets[0].value) if rets else "?"))
        else:
            chk.ob("C14.O3", dom_ok, where_of(dom, dom.node), "domain() returns %s = (%s, %s)" % (ast.unparse(rets[0].value), ends[0], ends[1]),
                   "(first knot, last knot)", key="Spline.domain|ends")

    class Bad(Exception):
        pass

    def make_eval(cell, env):
        def sym_of(node):
            s = _tck_end(node, tck_attr)
            return s

        ev = CellEval(cell, sym_of, env=env)

        def rep(p):
            """canonical representative symbol of a bare-symbol Poly"""
            r = ev.rank_of(p)
            if r is None:
                return None
            return sorted(s for s, k in cell.items() if k == r)[0], r

        def clampsym(p):
            r = ev.rank_of(p)
            if r is None:
                raise Undecided("non-symbol argument %s" % p.key())
            if r <= cell["xmin"]:
                r = cell["xmin"]
            if r >= cell["xmax"]:
                r = cell["xmax"]
            return sorted(s for s, k in cell.items() if k == r)[0], r

        def fname(r):
            # value of the clamped function: named after the knot end it sits on
            if r == cell["xmin"]:
                return "xmin"
            if r == cell["xmax"]:
                return "xmax"
            return sorted(s for s, k in cell.items() if k == r)[0]

        def apply(call, args, evl):
            fn = call.func
            # self(x)
            if isinstance(fn, ast.Name) and fn.id == "self" and len(args) == 1 and args[0] is not None:
                _, r = clampsym(args[0])
                return Poly.atom("F(%s)" % fname(r))
            if isinstance(fn, ast.Attribute) and dotted_name(fn) == "self.__call__" and len(args) == 1 and args[0] is not None:
                _, r = clampsym(args[0])
                return Poly.atom("F(%s)" % fname(r))
            name = fn.id if isinstance(fn, ast.Name) else (fn.attr if isinstance(fn, ast.Attribute) else None)
            if name == "splint" and len(call.args) >= 3 and args[0] is not None and args[1] is not None:
                if dotted_name(call.args[2]) != "self." + tck_attr:
                    raise Undecided("splint over foreign coefficients")
                (lo, rl), (hi, rh) = clampsym(args[0]), clampsym(args[1])
                if rl == rh:
                    return Poly.const(0)
                if rl < rh:
                    return Poly.atom("S(%s,%s)" % (lo, hi))
                return -Poly.atom("S(%s,%s)" % (hi, lo))
            if isinstance(fn, ast.Attribute) and dotted_name(fn) == "self.integrate" and len(args) == 2 \
                    and args[0] is not None and args[1] is not None:
                return run_cell(cell, args[0], args[1], depth=evl.env.get("__depth__", 0) + 1)
            # another method of the same class (a helper the integral was split into)
            if isinstance(fn, ast.Attribute) and isinstance(fn.value, ast.Name) and fn.value.id == "self" \
                    and ctx.repo.has_func("spline.Spline.%s" % fn.attr) and fn.attr not in ("domain", "__call__", "from_points") \
                    and all(a is not None for a in args) and not call.keywords:
                hm = ctx.func("spline.Spline.%s" % fn.attr)
                if len(hm.params) == len(args) + 1:
                    return run_cell(cell, None, None, depth=evl.env.get("__depth__", 0) + 1, method=hm, argvals=args)
            if isinstance(fn, ast.Attribute) and dotted_name(fn) == "self.domain" and not call.args:
                return None
            return None

        ev.apply = apply
        return ev

    tolerance_tests = []

    def run_cell(cell, va, vb, depth=0, method=None, argvals=None):
        if depth > 2:
            raise Undecided("unbounded recursion")
        env = {pa: va, pb: vb} if method is None else dict(zip(method.params[1:], argvals))
        ev = make_eval(cell, env)
        ev.env["__depth__"] = depth

        def on_assign_call(st, evl):
            v = st.value
            if isinstance(v, ast.Call) and dotted_name(v.func) == "self.domain":
                if not dom_ok:
                    raise Undecided("domain() not recognised")
                return [Poly.atom("xmin"), Poly.atom("xmax")]
            if isinstance(v, ast.Tuple):
                return [evl.eval(e) for e in v.elts]
            return None

        ex = CellExec(ev, on_assign_call)
        r = ex.run((f if method is None else method).node.body)
        tolerance_tests.extend(getattr(ev, "tolerance_tests", []))
        for st, val in ex.asserts:
            if not val:
                raise Bad("assertion `%s` fails in this cell" % ast.unparse(st.test))
        if r is None:
            raise Undecided("no value returned")
        return r

    def spec(cell, a, b):
        """Expected tiling for symbols a, b (as names) in this cell."""
        ra, rb, r0, r1 = cell[a], cell[b], cell["xmin"], cell["xmax"]
        if ra == rb:
            return Poly.const(0)
        if ra > rb:
            return -spec(cell, b, a)

        def rep_of(rank):
            return sorted(s for s, k in cell.items() if k == rank)[0]

        total = Poly.const(0)
        if ra < r0:
            upper = b if rb < r0 else "xmin"
            total = total + Poly.atom("F(xmin)") * (Poly.atom(upper) - Poly.atom(a))
        lo_r, hi_r = max(ra, r0), min(rb, r1)
        if lo_r < hi_r:
            total = total + Poly.atom("S(%s,%s)" % (rep_of(lo_r), rep_of(hi_r)))
        if rb > r1:
            lower = a if ra > r1 else "xmax"
            total = total + Poly.atom("F(xmax)") * (Poly.atom(b) - Poly.atom(lower))
        return total

    def canon(cell, p):
        """Replace symbols by the representative of their rank."""
        from ..norm import Poly as P
        reps = {}
        for s, k in cell.items():
            reps[s] = sorted(t for t, kk in cell.items() if kk == k)[0]
        out = P.const(0)
        for mono, c in p.terms.items():
            term = P.const(c)
            for atom, e in mono:
                term = term * P.atom(reps.get(atom, atom)).power(e)
            out = out + term
        return out

    cells = [c for c in weak_orderings(["a", "b", "xmin", "xmax"]) if c["xmin"] < c["xmax"]]
    n_ok = n_bad = 0
    reported = set()
    for cell in cells:
        label = _cell_label(cell)
        # parameters are named pa, pb in the code; cells use 'a','b'
        ccell = dict(cell)
        try:
            # map code parameter symbols to a/b: evaluate with va=atom('a'), vb=atom('b')
            got = run_cell(ccell, Poly.atom("a"), Poly.atom("b"))
            want = spec(ccell, "a", "b")
            ok = canon(ccell, got) == canon(ccell, want)
            found = canon(ccell, got).key()
            req = canon(ccell, want).key()
        except Bad as exc:
            ok, found, req = False, str(exc), "assertions hold"
        except Undecided as exc:
            if "unbounded recursion" in str(exc):
                ok, found, req = False, "the call recurses without swapping its limits", "terminates with -integrate(b, a)"
            else:
                chk.indeterminate("C14.O3", where_of(f, f.node), "cell %s not evaluable: %s" % (label, exc))
                continue
        if ok:
            n_ok += 1
            if n_ok <= 6:
                chk.ob("C14.O3", True, where_of(f, f.node), "%s: integral = %s" % (label, found), req,
                       key="Spline.integrate|cell|%s" % label)
        else:
            n_bad += 1
            klass = _cell_class(cell)
            if klass in reported:
                continue
            reported.add(klass)
            chk.ob("C14.O3", False, where_of(f, f.node), "%s: integral = %s" % (label, found),
                   "tiling of [a, b]: %s" % req, key="Spline.integrate|class|%s" % klass,
                   why="additivity and antisymmetry of the integral fail on inputs in this ordering")
    if tolerance_tests:
        t0 = tolerance_tests[0]
        chk.ob("C14.O3", False, where_of(f, t0), "a branch of the integral is chosen by a tolerance comparison of its limits: %s" % ast.unparse(t0)[:60],
               "limits are compared exactly (a == b, a > b): two distinct limits always enclose the area between them",
               key="Spline.integrate|tolerance-test",
               why="numpy's isclose holds for distinct limits that are close relative to their magnitude (rtol 1e-5): the integral over a narrow range far from zero comes back as 0, and adjacent thin slices no longer add up")
    chk.count("order_cells", len(cells))
    chk.count("order_cells_ok", n_ok)
    chk.extra["order_cells"] = {"evaluated": len(cells), "agree": n_ok, "disagree": n_bad}
    if n_ok > 6:
        chk.ob("C14.O3", n_bad == 0, where_of(f, f.node), "%d of %d order cells of (a, b, xmin, xmax) tile [a, b] exactly" % (n_ok, len(cells)),
               "all cells", key="Spline.integrate|all-cells")
    chk.floor("order cells of (a, b, xmin, xmax) with xmin < xmax", len(cells), 31)


def _cell_label(cell):
    groups = {}
    for s, k in cell.items():
        groups.setdefault(k, []).append(s)
    return " < ".join("=".join(sorted(groups[k])) for k in sorted(groups))


def _cell_class(cell):
    a, b, lo, hi = cell["a"], cell["b"], cell["xmin"], cell["xmax"]

    def pos(x):
        return "below" if x < lo else ("at-min" if x == lo else ("inside" if x < hi else ("at-max" if x == hi else "above")))

    return "%s/%s/%s" % (pos(a), pos(b), "a<b" if a < b else ("a=b" if a == b else "a>b"))
