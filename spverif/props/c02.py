"""C02 -- storm-rise matching is stable and favours agreement in duration.

The arbitration loop must conform to the deferred-acceptance skeleton
whose theorem (Gale-Shapley) is the property.

 O1 proposers go best-first: polarity of |duration difference| in the sort
    key x sort direction x end taken by pop  =>  smallest difference first
 O2 the acceptor keeps the proposer with the smaller |start offset|
 O3 a displaced storm is re-queued before it is overwritten; a rejected
    storm with remaining candidates is re-queued; the re-queue calls resolve
 O4 the loop runs until no free proposer with candidates remains
 O5 roles: the storm-side key is built from the duration difference, the
    rise-side preference from the start offset
 O6 the duration metric compares like with like: (#rain steps) - (#increments)
"""

import ast

from .. import apires
from ..classfacts import candidate_kinds
from ..flow import Flow
from ..norm import NotAlgebraic, Poly, py_poly
from ..report import where_of
from ..source import AnalysisError, dotted_name, enclosing_func, enclosing_stmt, is_ancestor
from ..source import clone as _clone


def strip_sign(e):
    """Return (core, sign) peeling unary minus and multiplication by -1."""
    s = 1
    while True:
        if isinstance(e, ast.UnaryOp) and isinstance(e.op, ast.USub):
            s = -s
            e = e.operand
        elif isinstance(e, ast.UnaryOp) and isinstance(e.op, ast.UAdd):
            e = e.operand
        elif isinstance(e, ast.BinOp) and isinstance(e.op, ast.Mult) and isinstance(e.left, ast.Constant) and e.left.value in (-1, -1.0, 1, 1.0):
            s *= int(e.left.value)
            e = e.right
        elif isinstance(e, ast.BinOp) and isinstance(e.op, ast.Mult) and isinstance(e.right, ast.Constant) and e.right.value in (-1, -1.0, 1, 1.0):
            s *= int(e.right.value)
            e = e.left
        elif isinstance(e, ast.Call) and isinstance(e.func, ast.Name) and e.func.id == "float" and len(e.args) == 1:
            e = e.args[0]
        else:
            return e, s


def abs_arg(e):
    if isinstance(e, ast.Call) and len(e.args) == 1:
        fn = dotted_name(e.func) or ""
        if fn.split(".")[-1] in ("abs", "fabs", "absolute"):
            return e.args[0]
    return None


def _table(dm, dflow, arg):
    """A table handed to find_stable_matching -> {key, group, value, iter, node} or None.
    Read: `T = {}` + `for k, g in GROUPS: ... T[k] = V`, and `{k: V for k, g in GROUPS}` (bound to a name or not)."""
    e = arg
    if isinstance(e, ast.Name):
        stores = [n for n in ast.walk(dm.node) if isinstance(n, ast.Assign) and isinstance(n.targets[0], ast.Subscript)
                  and isinstance(n.targets[0].value, ast.Name) and n.targets[0].value.id == e.id]
        if len(stores) == 1 and isinstance(stores[0].targets[0].slice, ast.Name):
            st = stores[0]
            loop = getattr(st, "parent", None)
            while loop is not None and not isinstance(loop, (ast.For, ast.FunctionDef)):
                loop = getattr(loop, "parent", None)
            if isinstance(loop, ast.For) and isinstance(loop.target, ast.Tuple) and len(loop.target.elts) == 2 \
                    and all(isinstance(t, ast.Name) for t in loop.target.elts) and loop.target.elts[0].id == st.targets[0].slice.id:
                return {"key": loop.target.elts[0].id, "group": loop.target.elts[1].id, "value": st.value, "iter": loop.iter, "node": st}
            return None
        if stores:
            return None
        e = dflow.def_value(e)
    if isinstance(e, ast.DictComp) and len(e.generators) == 1 and not e.generators[0].ifs:
        g = e.generators[0]
        if isinstance(g.target, ast.Tuple) and len(g.target.elts) == 2 and all(isinstance(t, ast.Name) for t in g.target.elts) \
                and isinstance(e.key, ast.Name) and e.key.id == g.target.elts[0].id:
            return {"key": g.target.elts[0].id, "group": g.target.elts[1].id, "value": e.value, "iter": g.iter, "node": e}
    return None


def _key_index(k):
    """itemgetter(i) / lambda p: p[i] -> i."""
    if isinstance(k, ast.Call) and (dotted_name(k.func) or "").split(".")[-1] == "itemgetter" and len(k.args) == 1 \
            and isinstance(k.args[0], ast.Constant) and isinstance(k.args[0].value, int):
        return k.args[0].value
    if isinstance(k, ast.Lambda) and len(k.args.args) == 1 and isinstance(k.body, ast.Subscript) and isinstance(k.body.value, ast.Name) \
            and k.body.value.id == k.args.args[0].arg and isinstance(k.body.slice, ast.Constant) and isinstance(k.body.slice.value, int):
        return k.body.slice.value
    return None


def _grouping_obligation(ctx, chk, dm, dflow, tab, which):
    """C02.O7: the groups a table is built from hold *every* pair of the candidate relation with that key."""
    it = tab["iter"]
    where = where_of(dm, tab["node"])
    req = "every (storm, rise) pair of the candidate relation is in the group of its storm and in the group of its rise, whatever order the pairs arrive in"
    why = "a pair missing from a table is never proposed (or cannot be compared): the overlapping storm and rise can form a blocking pair"
    while isinstance(it, ast.Call) and isinstance(it.func, ast.Name) and it.func.id in ("list", "tuple") and len(it.args) == 1:
        it = it.args[0]
    # (a) a dictionary of lists: GROUPS.items()
    if isinstance(it, ast.Call) and isinstance(it.func, ast.Attribute) and it.func.attr == "items" and isinstance(it.func.value, ast.Name) and not it.args:
        gname = it.func.value.id
        fills = []
        for c in ast.walk(dm.node):
            if isinstance(c, ast.Call) and isinstance(c.func, ast.Attribute) and c.func.attr == "append" and len(c.args) == 1:
                recv = c.func.value
                if isinstance(recv, ast.Subscript) and isinstance(recv.value, ast.Name) and recv.value.id == gname:
                    fills.append(c)
                elif isinstance(recv, ast.Call) and isinstance(recv.func, ast.Attribute) and recv.func.attr == "setdefault" \
                        and isinstance(recv.func.value, ast.Name) and recv.func.value.id == gname:
                    fills.append(c)
        other = [n for n in ast.walk(dm.node) if isinstance(n, (ast.Assign, ast.AugAssign, ast.Delete))
                 and any(isinstance(t, ast.Subscript) and isinstance(t.value, ast.Name) and t.value.id == gname
                         for t in (n.targets if isinstance(n, (ast.Assign, ast.Delete)) else [n.target]))]
        if len(fills) != 1 or other:
            chk.indeterminate("C02.O7", where, "how the groups %s of the %s table are filled is not read (%d append sites, %d other stores)" % (gname, which, len(fills), len(other)))
            return
        st = fills[0]
        while st is not None and not isinstance(st, ast.stmt):
            st = getattr(st, "parent", None)
        loop = getattr(st, "parent", None)
        if not isinstance(loop, ast.For) or st not in loop.body:
            chk.indeterminate("C02.O7", where, "the append into %s is not directly in a loop over the candidate pairs" % gname)
            return
        escapes = [x for x in ast.walk(loop) if isinstance(x, (ast.Break, ast.Continue))]
        if escapes:
            chk.indeterminate("C02.O7", where, "the loop filling %s has break / continue" % gname)
            return
        chk.ob("C02.O7", True, where, "%s table built from %s, filled unconditionally once per candidate pair (line %d)" % (which, gname, st.lineno), req,
               key="disambiguate_matching|%s-groups" % which, why=why)
        return
    # (b) itertools.groupby(REL, key=K): groups only ADJACENT pairs
    if isinstance(it, ast.Call) and (dotted_name(it.func) or "").split(".")[-1] == "groupby" and it.args:
        rel = it.args[0]
        key = it.args[1] if len(it.args) > 1 else next((k.value for k in it.keywords if k.arg == "key"), None)
        ki = _key_index(key) if key is not None else None
        relv = dflow.def_value(rel) if isinstance(rel, ast.Name) else rel
        sorted_by = None
        if isinstance(relv, ast.Call) and isinstance(relv.func, ast.Name) and relv.func.id == "sorted" and relv.args:
            sk = next((k.value for k in relv.keywords if k.arg == "key"), None)
            if sk is None:
                sorted_by = 0            # tuples sort by their first element first
            else:
                sorted_by = _key_index(sk)
                if sorted_by is None and key is not None and ast.dump(sk) == ast.dump(key):
                    sorted_by = ki = -1
            if any(k.arg not in ("key", "reverse") for k in relv.keywords):
                sorted_by = None
        if key is None or ki is None:
            chk.indeterminate("C02.O7", where, "groupby key %s is not an element selector" % (ast.unparse(key)[:40] if key is not None else "(none)"))
            return
        ok = sorted_by is not None and sorted_by == ki
        chk.ob("C02.O7", ok, where,
               "%s table built from groupby(%s, key = element %s), which groups only adjacent pairs; the sequence is %s" % (
                   which, ast.unparse(rel)[:40], ki, ("sorted by element %s just before" % sorted_by) if sorted_by is not None else "not sorted by that key in this function"),
               req, key="disambiguate_matching|%s-groups" % which, why=why + "; with groupby over an unsorted sequence a storm whose pairs are not adjacent keeps only its last run of pairs")
        return
    chk.indeterminate("C02.O7", where, "the groups %s of the %s table are not a dictionary of lists or a groupby" % (ast.unparse(it)[:50], which))


def _interval_expr(dm, e, whole):
    """e with every use of a whole interval X (X[0], X[1], f(X) for a local f that unpacks its argument) rewritten over
    the two names whole[X] = (start name, stop name); None if some use is not read."""
    bad = []

    def local_def(name):
        for d_ in ast.walk(dm.node):
            if isinstance(d_, ast.FunctionDef) and d_ is not dm.node and d_.name == name and len(d_.args.args) == 1 and not d_.args.defaults:
                return d_
        return None

    class T(ast.NodeTransformer):
        def visit_Subscript(self, n):
            if isinstance(n.value, ast.Name) and n.value.id in whole and isinstance(n.slice, ast.Constant) and n.slice.value in (0, 1, -1, -2):
                return ast.Name(id=whole[n.value.id][n.slice.value % 2], ctx=ast.Load())
            return self.generic_visit(n)

        def visit_Call(self, n):
            if isinstance(n.func, ast.Name) and len(n.args) == 1 and not n.keywords and isinstance(n.args[0], ast.Name) and n.args[0].id in whole:
                d_ = local_def(n.func.id)
                if d_ is not None:
                    stmts = [b_ for b_ in d_.body if not (isinstance(b_, ast.Expr) and isinstance(b_.value, ast.Constant))]
                    par = d_.args.args[0].arg
                    ends = whole[n.args[0].id]
                    if len(stmts) == 2 and isinstance(stmts[0], ast.Assign) and isinstance(stmts[0].targets[0], (ast.Tuple, ast.List)) \
                            and len(stmts[0].targets[0].elts) == 2 and all(isinstance(x, ast.Name) for x in stmts[0].targets[0].elts) \
                            and isinstance(stmts[0].value, ast.Name) and stmts[0].value.id == par and isinstance(stmts[1], ast.Return) and stmts[1].value is not None:
                        ren = {stmts[0].targets[0].elts[0].id: ends[0], stmts[0].targets[0].elts[1].id: ends[1]}
                        body = _clone(stmts[1].value)
                        for x in ast.walk(body):
                            if isinstance(x, ast.Name) and x.id in ren:
                                x.id = ren[x.id]
                        return body
                    if len(stmts) == 1 and isinstance(stmts[0], ast.Return) and stmts[0].value is not None:
                        body = _clone(stmts[0].value)
                        inner_whole = {par: ends}
                        sub = _interval_expr(dm, body, inner_whole)
                        if sub is not None:
                            return sub
                bad.append(n)
                return n
            return self.generic_visit(n)

        def visit_Name(self, n):
            if n.id in whole:
                bad.append(n)
            return n
    out = T().visit(_clone(e))
    return None if bad else ast.fix_missing_locations(out)


def run(ctx, chk, tier="quick"):
    chk.explanation = (
        "Conformance of disambiguate_matching / find_stable_matching to the deferred-acceptance "
        "skeleton: ordering parity of the proposal order (sign of the sort key x sort direction x end "
        "taken by pop), polarity of the acceptor's comparison, CFG ordering of re-queue vs overwrite, "
        "loop condition, which metric feeds which side, and the duration metric evaluated over the "
        "affine index kinds of the (start, stop) pairs."
    )
    chk.assumptions = ["the Gale-Shapley theorem (storm-optimal stable matching of deferred acceptance) is taken from the literature",
                       "tie handling is not decided"]
    dm = ctx.func("classify.disambiguate_matching")
    fsm = ctx.func("classify.find_stable_matching")
    dflow = Flow.of(dm)
    fflow = Flow.of(fsm)
    if len(fsm.params) < 2 or len(dm.params) < 2:
        chk.indeterminate("C02.O1", where_of(fsm, fsm.node), "signatures changed")
        return
    cand_p, pref_p = fsm.params[:2]
    rain_p, jump_p = dm.params[:2]
    # call of find_stable_matching in disambiguate_matching
    calls = [c for c in ast.walk(dm.node) if isinstance(c, ast.Call) and ctx.cg.resolve_callee(dm, c.func) == [fsm.fq]]
    if len(calls) != 1 or len(calls[0].args) < 2:
        chk.indeterminate("C02.O1", where_of(dm, dm.node), "call find_stable_matching(candidates, preferences) not found")
        return
    call = calls[0]
    a_cand, a_pref = call.args[:2]
    # ---- the two tables: TABLE[key] = value for (key, group) in GROUPS   (store loop or dict comprehension)
    ctab, ptab = _table(dm, dflow, a_cand), _table(dm, dflow, a_pref)
    if ctab is None or ptab is None:
        chk.indeterminate("C02.O1", where_of(dm, call), "the %s table is neither filled by one store `T[key] = value` in a loop over groups nor a dict comprehension over groups"
                          % ("candidate" if ctab is None else "preference"))
        return

    class _Site:           # what the rules below read off a table: its value expression and where it is
        def __init__(self, tab):
            self.value = tab["value"]
            self.lineno = getattr(tab["node"], "lineno", 0)
            self.key = tab["key"]
    cst, pst = _Site(ctab), _Site(ptab)
    # the candidate relation itself: every storm under every overlapping step of a rise (match_storms)
    from ..classfacts import partial_overlap_positions
    ms_ = ctx.func("classify.match_storms")
    partial = partial_overlap_positions(ms_, Flow.of(ms_))
    if partial is None:
        chk.indeterminate("C02.O7", where_of(ms_, ms_.node), "overlap relation (rain mask & jump mask) not found in match_storms")
    else:
        chk.ob("C02.O7", not partial, where_of(ms_, partial[0] if partial else ms_.node),
               ("particular positions of the overlap are picked out (%s)" % ", ".join(sorted({ast.unparse(x) for x in partial}))[:100]) if partial
               else "the positions where a rise and the rain overlap are used whole",
               "the candidate graph has an edge for every storm under every overlapping step of a rise",
               key="match_storms|whole-overlap", why="a storm dropped from the candidate graph never proposes to the rise: an overlapping pair that both prefer is a blocking pair")
    _grouping_obligation(ctx, chk, dm, dflow, ctab, "candidate")
    _grouping_obligation(ctx, chk, dm, dflow, ptab, "preference")
    cval = dflow.expand(cst.value, keep=set())
    # direction of the ordering
    direction = 1
    core = cst.value
    if isinstance(core, ast.Name):
        core = dflow.def_value(core) or core
    flips = 0
    while True:
        if isinstance(core, ast.Call) and isinstance(core.func, ast.Name) and core.func.id in ("list", "tuple") and len(core.args) == 1:
            core = core.args[0]
        elif isinstance(core, ast.Call) and isinstance(core.func, ast.Name) and core.func.id == "reversed" and len(core.args) == 1:
            flips += 1
            core = core.args[0]
        elif isinstance(core, ast.Subscript) and isinstance(core.slice, ast.Slice) and core.slice.step is not None and ast.unparse(core.slice.step) == "-1":
            flips += 1
            core = core.value
        else:
            break
    if not (isinstance(core, ast.Call) and isinstance(core.func, ast.Name) and core.func.id == "sorted" and core.args):
        chk.indeterminate("C02.O1", where_of(dm, cst), "candidate list is not built with sorted(...): %s" % ast.unparse(cst.value)[:80])
        return
    kw = {k.arg: k.value for k in core.keywords}
    rev = kw.get("reverse")
    if rev is not None:
        if isinstance(rev, ast.Constant) and isinstance(rev.value, bool):
            if rev.value:
                flips += 1
        else:
            chk.indeterminate("C02.O1", where_of(dm, cst), "sorted(reverse=%s) is not a literal" % ast.unparse(rev))
            return
    direction = -1 if flips % 2 else 1
    keyf = kw.get("key")
    if keyf is None:
        chk.ob("C02.O1", False, where_of(dm, core), "candidates sorted without a key", "sorted by |duration difference|",
               key="disambiguate_matching|candidate-key", why="storm-optimality needs each storm to propose in its own preference order")
        return
    kexpr, karg = _callable_body(dm, keyf)
    if kexpr is None:
        chk.indeterminate("C02.O1", where_of(dm, core), "sort key %s is not a local function or lambda" % ast.unparse(keyf))
        return
    kcore, ksign = strip_sign(kexpr)
    kabs = abs_arg(kcore)
    if kabs is None:
        chk.indeterminate("C02.O1", where_of(dm, core), "sort key is not +-abs(...): %s" % ast.unparse(kexpr)[:80])
        return
    # pop end in find_stable_matching
    pops = []
    for n in ast.walk(fsm.node):
        if isinstance(n, ast.Call) and isinstance(n.func, ast.Attribute) and n.func.attr == "pop" \
                and isinstance(n.func.value, ast.Subscript) and isinstance(n.func.value.value, ast.Name) and n.func.value.value.id == cand_p:
            pops.append(n)
    if len(pops) != 1:
        chk.indeterminate("C02.O1", where_of(fsm, fsm.node), "expected one pop from the proposer's candidate list, found %d" % len(pops))
        return
    pop = pops[0]
    if not pop.args:
        end = 1
    elif isinstance(pop.args[0], ast.Constant) and pop.args[0].value == 0:
        end = -1
    elif ast.unparse(pop.args[0]) == "-1":
        end = 1
    else:
        chk.indeterminate("C02.O1", where_of(fsm, pop), "pop(%s)" % ast.unparse(pop.args[0]))
        return
    parity = ksign * direction * end
    chk.ob("C02.O1", parity == -1, where_of(fsm, pop),
           "key = %s|d| , sorted %s, pop takes the %s element  => takes the %s |duration difference|"
           % ("+" if ksign > 0 else "-", "ascending" if direction > 0 else "descending", "last" if end > 0 else "first",
              "smallest" if parity == -1 else "LARGEST"),
           "each storm proposes to its best remaining candidate (smallest |duration difference|) first",
           key="find_stable_matching|proposal-order",
           why="proposing worst-first yields a matching that is not storm-optimal and can be unstable")

    # what is under the abs of the key: DICT[(storm, jump)] -> its value expression
    dur_expr = None
    dur_names = None
    ksub = kabs
    if isinstance(ksub, ast.Subscript) and isinstance(ksub.value, ast.Name):
        ddef = None
        for n in ast.walk(dm.node):
            if isinstance(n, ast.Assign) and isinstance(n.targets[0], ast.Name) and n.targets[0].id == ksub.value.id and isinstance(n.value, ast.DictComp):
                ddef = n.value
        if ddef is not None and len(ddef.generators) == 1:
            dur_expr = ddef.value
            g = ddef.generators[0]
            # for (rs, re), (js, je) in zip(rain_intervals, jump_intervals)
            if isinstance(g.iter, ast.Call) and isinstance(g.iter.func, ast.Name) and g.iter.func.id == "zip" and len(g.iter.args) == 2 \
                    and isinstance(g.target, ast.Tuple) and len(g.target.elts) == 2:
                srcs = [a.id if isinstance(a, ast.Name) else None for a in g.iter.args]
                tnames = [tuple(e.id for e in t.elts) if isinstance(t, ast.Tuple) and len(t.elts) == 2 else None for t in g.target.elts]
                if None not in tnames:
                    dur_names = dict(zip(srcs, tnames))
            elif isinstance(g.iter, ast.Call) and isinstance(g.iter.func, ast.Name) and g.iter.func.id == "zip" \
                    and isinstance(g.target, ast.Tuple) and len(g.target.elts) == len(g.iter.args) and all(isinstance(a, ast.Name) for a in g.iter.args):
                # for match, rain_interval, jump_interval in zip(matches, rain_intervals, jump_intervals): an interval held whole;
                # its ends are X[0] / X[1], or what a local one-argument function unpacks
                whole, names_ = {}, {}
                for t_, a_ in zip(g.target.elts, g.iter.args):
                    if a_.id in (rain_p, jump_p):
                        if isinstance(t_, ast.Name):
                            whole[t_.id] = ("_%s_start" % t_.id, "_%s_stop" % t_.id)
                            names_[a_.id] = whole[t_.id]
                        elif isinstance(t_, ast.Tuple) and len(t_.elts) == 2 and all(isinstance(e_, ast.Name) for e_ in t_.elts):
                            names_[a_.id] = tuple(e_.id for e_ in t_.elts)
                if rain_p in names_ and jump_p in names_:
                    ex_ = _interval_expr(dm, dur_expr, whole)
                    if ex_ is not None:
                        dur_expr, dur_names = ex_, names_
            # key order of the dict: (storm start, jump start)
            dkey = ddef.key
    else:
        dur_expr = kabs

    # ---- O5 roles + O6 metric
    try:
        kinds = candidate_kinds(ctx)
    except AnalysisError as exc:
        kinds = None
        chk.indeterminate("C02.O6", where_of(dm, dm.node), str(exc))
    if dur_expr is None or dur_names is None or rain_p not in dur_names or jump_p not in dur_names:
        chk.indeterminate("C02.O6", where_of(dm, core), "duration-difference expression not reachable from the sort key")
    elif kinds is not None:
        (rs, re_), (js, je) = dur_names[rain_p], dur_names[jump_p]
        e, _ = strip_sign(dur_expr)
        try:
            p = py_poly(e)
            sub = {
                rs: Poly.atom("Fr") + Poly.const(kinds["rain"][0].off), re_: Poly.atom("Lr") + Poly.const(kinds["rain"][1].off),
                js: Poly.atom("Fj") + Poly.const(kinds["jump"][0].off), je: Poly.atom("Lj") + Poly.const(kinds["jump"][1].off),
            }
            got = Poly.const(0)
            for mono, c in p.terms.items():
                t = Poly.const(c)
                for atom, ex in mono:
                    t = t * (sub[atom] if atom in sub else Poly.atom(atom)).power(ex)
                got = got + t
            steps_r = Poly.atom("Lr") - Poly.atom("Fr") + Poly.const(1)
            incs_j = Poly.atom("Lj") - Poly.atom("Fj") + Poly.const(1)
            want = steps_r - incs_j
            ok = got == want or got == -want
            chk.ob("C02.O6", ok, where_of(dm, dur_expr),
                   "duration difference = %s = %s" % (ast.unparse(e), got.key()),
                   "(#rain steps) - (#increments) = %s (either sign, it is used under abs)" % want.key(),
                   key="disambiguate_matching|duration-metric",
                   why="a rise slice (F, L+2) counts samples: subtracting it uncorrected is off by one, so a 6-step storm prefers a 5-increment rise to a 6-increment one")
            chk.ob("C02.O5", True, where_of(dm, core), "storm-side key = %s|duration difference|" % ("-" if ksign < 0 else "+"),
                   "storms rank rises by agreement in duration", key="disambiguate_matching|storm-role")
        except (NotAlgebraic, KeyError) as exc:
            chk.indeterminate("C02.O6", where_of(dm, dur_expr), "duration metric not algebraic: %s" % exc)

    # ---- rise side preference: PREFS[jump] = {storm: +-abs(offset(storm)) ...}
    pv = pst.value
    psign = None
    off_ok = False
    pdesc = ast.unparse(pv)[:100]
    if isinstance(pv, ast.DictComp) and len(pv.generators) == 1:
        val = pv.value
        vcore, psign = strip_sign(val)
        inner = abs_arg(vcore)
        if inner is not None:
            # offset(storm) -> jump_start - rain_start
            oexpr, oarg = (None, None)
            if isinstance(inner, ast.Call):
                body, arg = _callable_body(dm, inner.func)
                oexpr = body
            else:
                oexpr = inner
            if oexpr is not None:
                try:
                    op_ = py_poly(oexpr)
                    atoms = sorted(op_.atoms())
                    # difference of two start indices, one being the dict key of the outer store, the other the comp variable
                    jkey = pst.key
                    off_ok = len(atoms) == 2 and jkey in atoms and \
                        (op_ == Poly.atom(atoms[0]) - Poly.atom(atoms[1]) or op_ == Poly.atom(atoms[1]) - Poly.atom(atoms[0]))
                    pdesc = "%s|%s|" % ("-" if psign < 0 else "+", op_.key())
                except NotAlgebraic:
                    pass
    chk.ob("C02.O5", off_ok, where_of(dm, pst), "rise-side preference = %s" % pdesc,
           "rises rank storms by |start(rise) - start(storm)|", key="disambiguate_matching|rise-role",
           why="the documented contract: storms prefer agreement in duration, rises agreement in start time")

    # ---- O2 acceptor comparison in find_stable_matching
    cmp_ = None
    for n in ast.walk(fsm.node):
        if isinstance(n, ast.If) and isinstance(n.test, ast.Compare) and len(n.test.ops) == 1:
            t = n.test
            if pref_p in {x.id for x in ast.walk(t) if isinstance(x, ast.Name)}:
                cmp_ = n
    if cmp_ is None:
        chk.indeterminate("C02.O2", where_of(fsm, fsm.node), "acceptor comparison on the preferences not found")
    else:
        t = cmp_.test
        l, r = t.left, t.comparators[0]
        # which side is the proposer: PREF[jump][storm] vs PREF[jump][matches[jump]]
        def holder_lookup(v):
            """MATCHES[rise] / MATCHES.get(rise[, default]) -> (table name, has default)"""
            if isinstance(v, ast.Subscript) and isinstance(v.value, ast.Name):
                return v.value.id
            if isinstance(v, ast.Call) and isinstance(v.func, ast.Attribute) and v.func.attr == "get" and isinstance(v.func.value, ast.Name) and v.args:
                return v.func.value.id
            return None

        def is_current(x):
            if not isinstance(x, ast.Subscript):
                return False
            if isinstance(x.slice, ast.Subscript):
                return True
            # PREF[rise][holder] with holder = MATCHES[rise] / MATCHES.get(rise)
            if isinstance(x.slice, ast.Name):
                dv = fflow.def_value(x.slice)
                return dv is not None and holder_lookup(dv) is not None
            return False
        # the "is this rise already held" test that guards the comparison: membership or `is not None`, never truthiness
        # (storms are identified by their start index, and 0 is a storm)
        held = getattr(cmp_, "parent", None)
        if isinstance(held, ast.If) and cmp_ in held.body:
            ht = held.test
            hv = fflow.def_value(ht) if isinstance(ht, ast.Name) else ht
            if isinstance(ht, ast.Name) and hv is not None and holder_lookup(hv) is not None or (not isinstance(ht, ast.Name) and holder_lookup(ht) is not None and isinstance(ht, ast.Call)):
                chk.ob("C02.O2", False, where_of(fsm, held),
                       "`if %s:` with %s: whether the rise is held is decided by the truth value of the holding storm's id" % (ast.unparse(ht), ast.unparse(hv)[:40]),
                       "a membership test (`rise in matches`) or a comparison with None",
                       key="find_stable_matching|held-test",
                       why="a storm that starts at index 0 is a falsy id: the rise it holds is treated as free, the next proposer takes it without comparison and storm 0 is never re-queued -- a blocking pair")
        if is_current(l) == is_current(r):
            chk.indeterminate("C02.O2", where_of(fsm, t), "cannot tell proposer from current partner in %s" % ast.unparse(t))
        else:
            op = type(t.ops[0])
            new_on_left = is_current(r)
            # comparison direction: +1 means replace when pref(new) > pref(cur)
            if op in (ast.Gt, ast.GtE):
                d = 1 if new_on_left else -1
            elif op in (ast.Lt, ast.LtE):
                d = -1 if new_on_left else 1
            else:
                d = 0
            # the true branch must replace (store) -- else the polarity flips
            replaces = any(isinstance(x, ast.Assign) and isinstance(x.targets[0], ast.Subscript) for st in cmp_.body for x in ast.walk(st))
            if not replaces:
                d = -d
            ok = psign is not None and d != 0 and psign * d == -1
            chk.ob("C02.O2", ok, where_of(fsm, t),
                   "replace current partner when pref(new) %s pref(current), pref = %s|start offset|  => keeps the %s offset"
                   % (">" if d > 0 else "<", "-" if (psign or 0) < 0 else "+", "smaller" if ok else "LARGER"),
                   "a rise keeps the proposer whose start is closer", key="find_stable_matching|acceptor", scope=[fsm, ctx.func("classify.disambiguate_matching")],
                   why="otherwise a rise and a closer storm form a blocking pair")
            # ---- O3 ordering on the displacement branch
            body = cmp_.body if replaces else cmp_.orelse
            requeue = overwrite = None
            for i, st in enumerate(body):
                for x in ast.walk(st):
                    if isinstance(x, ast.Call) and isinstance(x.func, ast.Attribute) and x.func.attr in ("add", "append", "insert", "appendleft") \
                            and x.args and requeue is None and (isinstance(x.args[-1], ast.Subscript) or
                                                                (isinstance(x.args[-1], ast.Name) and fflow.def_value(x.args[-1]) is not None
                                                                 and holder_lookup(fflow.def_value(x.args[-1])) is not None)):
                        requeue = (i, x)
                    if isinstance(x, ast.Assign) and isinstance(x.targets[0], ast.Subscript) and overwrite is None:
                        overwrite = (i, x)
            ok3 = requeue is not None and overwrite is not None and requeue[0] < overwrite[0]
            def _holder_key(v):
                """(table, key text) of MATCHES[k] / MATCHES.get(k), through a name bound once to it"""
                if isinstance(v, ast.Name):
                    v = fflow.def_value(v)
                if isinstance(v, ast.Subscript) and isinstance(v.value, ast.Name):
                    return (v.value.id, ast.unparse(v.slice))
                if isinstance(v, ast.Call) and isinstance(v.func, ast.Attribute) and v.func.attr == "get" and isinstance(v.func.value, ast.Name) and v.args:
                    return (v.func.value.id, ast.unparse(v.args[0]))
                return None
            same_key = ok3 and _holder_key(requeue[1].args[-1]) is not None and _holder_key(requeue[1].args[-1]) == _holder_key(overwrite[1].targets[0])
            chk.ob("C02.O3", bool(ok3 and same_key), where_of(fsm, cmp_),
                   "on displacement: re-queue %s, overwrite %s" % (
                       ("`%s` (statement %d)" % (ast.unparse(requeue[1]), requeue[0])) if requeue else "MISSING",
                       ("`%s` (statement %d)" % (ast.unparse(overwrite[1]), overwrite[0])) if overwrite else "MISSING"),
                   "the displaced storm (the rise's current partner) is re-queued before the entry is overwritten",
                   key="find_stable_matching|displacement-order",
                   why="overwriting first re-queues the new storm instead of the displaced one, which is then lost")
    # rejected storm with remaining candidates is re-queued
    loops = [n for n in ast.walk(fsm.node) if isinstance(n, ast.While)]
    if len(loops) != 1:
        chk.indeterminate("C02.O4", where_of(fsm, fsm.node), "arbitration loop not found")
        return
    loop = loops[0]
    free_set = loop.test.id if isinstance(loop.test, ast.Name) else None
    chk.ob("C02.O4", free_set is not None, where_of(fsm, loop), "loop condition: while %s" % ast.unparse(loop.test),
           "runs while a free storm with candidates remains", key="find_stable_matching|loop-condition",
           why="stopping early leaves a free storm next to a rise that would accept it")
    proposer = None
    for st in loop.body:
        if isinstance(st, ast.Assign) and isinstance(st.value, ast.Call) and isinstance(st.value.func, ast.Attribute) \
                and st.value.func.attr == "pop" and isinstance(st.value.func.value, ast.Name) and st.value.func.value.id == free_set:
            proposer = st.targets[0].id
    tail_ok = False
    tdesc = "no re-queue of a rejected storm"
    any_add = False
    for st in ast.walk(loop):
        if isinstance(st, ast.If):
            tn = {x.id for x in ast.walk(st.test) if isinstance(x, ast.Name)}
            # the re-queue directly under this test (body, not a nested if's) -- at any depth of the loop body, so that
            # `if better: ... elif candidates[storm]: free.add(storm)` and early-`continue` layouts are read alike
            adds = [x for b_ in st.body for x in ast.walk(b_) if isinstance(x, ast.Call) and isinstance(x.func, ast.Attribute)
                    and isinstance(x.func.value, ast.Name) and x.func.value.id == free_set and x.args
                    and isinstance(x.args[-1], ast.Name) and x.args[-1].id == proposer]
            if adds:
                any_add = True
            if adds and cand_p in tn and not tail_ok:
                tdesc = "if %s: %s" % (ast.unparse(st.test), ast.unparse(adds[0]))
                # the test must require remaining candidates of this proposer
                tail_ok = "%s[%s]" % (cand_p, proposer) in ast.unparse(st.test)
    if not tail_ok and any_add:
        chk.indeterminate("C02.O3", where_of(fsm, loop), "the proposer is put back into the free set, under a test this rule does not read (%s)" % tdesc)
        tail_ok = True
    chk.ob("C02.O3", tail_ok, where_of(fsm, loop), tdesc, "a rejected storm that still has candidates goes back to the free set",
           key="find_stable_matching|requeue-rejected", why="dropping it leaves it unmatched although an overlapping rise may prefer it")
    # every storm taken from the free set proposes: between taking it and the proposal (the pop from its candidate list)
    # the iteration is not abandoned, except under the exact test "this storm has no candidates left"
    early = []
    if proposer is not None:
        pstmt = next((st for st in loop.body if any(x is pop for x in ast.walk(st))), None)
        for n in ast.walk(loop):
            if isinstance(n, (ast.Continue, ast.Break, ast.Return)) and n.lineno < pop.lineno and (pstmt is None or not any(x is n for x in ast.walk(pstmt))):
                g = getattr(n, "parent", None)
                while g is not None and g is not loop and not isinstance(g, ast.If):
                    g = getattr(g, "parent", None)
                test = g.test if isinstance(g, ast.If) else None
                in_else = isinstance(g, ast.If) and any(x is n for st_ in g.orelse for x in ast.walk(st_))
                early.append((n, test, in_else))
    for n, test, in_else in early:
        empties = False
        if test is not None and not in_else:
            t = test
            neg = False
            while isinstance(t, ast.UnaryOp) and isinstance(t.op, ast.Not):
                t, neg = t.operand, not neg
            subj = None
            if neg:
                subj = t                                   # not CAND[storm]
            elif isinstance(t, ast.Compare) and len(t.ops) == 1 and isinstance(t.ops[0], ast.Eq) and isinstance(t.comparators[0], ast.Constant) \
                    and t.comparators[0].value == 0 and isinstance(t.left, ast.Call) and isinstance(t.left.func, ast.Name) and t.left.func.id == "len" and t.left.args:
                subj = t.left.args[0]                      # len(CAND[storm]) == 0
            if isinstance(subj, ast.Call) and isinstance(subj.func, ast.Name) and subj.func.id == "len" and subj.args and neg:
                subj = subj.args[0]                        # not len(CAND[storm])
            empties = isinstance(subj, ast.Subscript) and isinstance(subj.value, ast.Name) and subj.value.id == cand_p \
                and isinstance(subj.slice, ast.Name) and subj.slice.id == proposer
        chk.ob("C02.O4", empties, where_of(fsm, n),
               "a storm taken from the free set is dropped without proposing when `%s`" % (ast.unparse(test)[:70] if test is not None else "(unconditionally)"),
               "every free storm with candidates proposes to its best remaining candidate; the iteration may be abandoned only when its candidate list is empty",
               key="find_stable_matching|every-free-storm-proposes",
               why="a storm with candidates that is discarded stays unmatched next to a rise that would accept it (a blocking pair); a membership test against the table keyed by rises asks about a rise with the same number, not about this storm")
    if not early and proposer is not None:
        chk.ob("C02.O4", True, where_of(fsm, pop), "no exit from the iteration between taking a free storm and its proposal",
               "every free storm with candidates proposes to its best remaining candidate", key="find_stable_matching|every-free-storm-proposes")
    # every re-queue happens only for a storm that still has candidates (the loop takes a
    # candidate from every storm it pops): Engler-style consistency of the loop's own belief
    pop_stmt = None
    for st in loop.body:
        for x in ast.walk(st):
            if isinstance(x, ast.Call) and isinstance(x.func, ast.Attribute) and x.func.attr == "pop" \
                    and isinstance(x.func.value, ast.Subscript) and isinstance(x.func.value.value, ast.Name) and x.func.value.value.id == cand_p:
                pop_stmt = st
    protected = False
    if pop_stmt is not None:
        # a dominating `if not CANDS[storm]: continue` (or the pop nested in `if CANDS[storm]:`) tolerates empty lists
        for st in loop.body[:loop.body.index(pop_stmt)] if pop_stmt in loop.body else []:
            if isinstance(st, ast.If) and ("%s[%s]" % (cand_p, proposer)) in ast.unparse(st.test) \
                    and any(isinstance(y, ast.Continue) for y in ast.walk(st)):
                protected = True
        if pop_stmt not in loop.body:
            protected = True
    adds = [x for x in ast.walk(loop) if isinstance(x, ast.Call) and isinstance(x.func, ast.Attribute)
            and isinstance(x.func.value, ast.Name) and x.func.value.id == free_set
            and x.func.attr in ("add", "append", "insert", "appendleft", "update", "extend") and x.args]
    too_strong = []
    for ad in adds:
        target = ast.unparse(ad.args[-1])
        need = "%s[%s]" % (cand_p, target)
        guarded = protected
        n_ = ad
        while not guarded and n_ is not None and n_ is not loop:
            par = getattr(n_, "parent", None)
            if isinstance(par, ast.If) and n_ in par.body and need in ast.unparse(par.test).replace(" ", "").replace(need.replace(" ", ""), need):
                # the test must require the list to be non-empty (truthiness / len > 0), not its negation
                tt = ast.unparse(par.test)
                guarded = ("not %s" % need) not in tt and ("len(%s) == 0" % need) not in tt
                # the guard may be nothing stronger than 'has candidates' (plus loop-carried boolean flags)
                from ..guards import nonempty_nf
                conj = par.test.values if isinstance(par.test, ast.BoolOp) and isinstance(par.test.op, ast.And) else [par.test]
                for cj in conj:
                    if isinstance(cj, ast.Name):
                        continue
                    nfc = nonempty_nf(cj)
                    if nfc is None or ast.unparse(nfc[0]) != need or nfc[1] is not True:
                        too_strong.append((ad, cj))
            n_ = par
        chk.ob("C02.O3", guarded, where_of(fsm, ad),
               "re-queue `%s`: %s" % (ast.unparse(ad), "only when %s is non-empty" % need if guarded else "not conditional on %s being non-empty" % need),
               "a storm goes back to the free set only if it still has candidates (the loop takes one from every storm it pops)",
               key="find_stable_matching|requeue-has-candidates|%s" % target,
               why="a displaced storm whose candidate list is exhausted is popped again and the loop's own `assert storm_candidates[storm]` fails: classification aborts")
    for ad, cj in too_strong:
        chk.ob("C02.O3", False, where_of(fsm, ad), "re-queue `%s` additionally requires `%s`" % (ast.unparse(ad), ast.unparse(cj)),
               "a storm with remaining candidates always goes back to the free set",
               key="find_stable_matching|requeue-too-strong|%s" % ast.unparse(ad.args[-1]),
               why="a displaced storm must keep proposing, also to rises that are currently held: it may outrank the holder; dropping it leaves a blocking pair")
    # the re-queue calls resolve on the container type (shared with C01.O1)
    bad = [(c, v, t, m) for c, v, t, m, ex in apires.container_method_sites(fsm) if v == free_set and not ex]
    chk.ob("C02.O3", not bad, where_of(fsm, bad[0][0] if bad else loop),
           "methods called on the free set: %s" % (["%s.%s" % (v, m) for c, v, t, m in bad] or "all exist"),
           "every re-queue call exists on the container type", key="find_stable_matching|requeue-resolves",
           why="an AttributeError aborts the arbitration in exactly the contended cases")
    # initial free set: every storm with candidates
    init = None
    for n in ast.walk(fsm.node):
        if isinstance(n, ast.Assign) and isinstance(n.targets[0], ast.Name) and n.targets[0].id == free_set and not any(a is loop for a in _anc(n)):
            init = n
    iok = False
    if init is not None and isinstance(init.value, (ast.SetComp, ast.ListComp, ast.GeneratorExp)):
        g = init.value.generators[0]
        iok = cand_p in ast.unparse(g.iter) and "items" in ast.unparse(g.iter) and len(g.ifs) <= 1
    elif init is not None and cand_p in ast.unparse(init.value):
        iok = True
    chk.ob("C02.O4", iok, where_of(fsm, init or loop), "initial free set = %s" % (ast.unparse(init.value)[:80] if init is not None else "?"),
           "every storm that has candidates starts free", key="find_stable_matching|initial-free-set")


def _anc(node):
    n = getattr(node, "parent", None)
    while n is not None:
        yield n
        n = getattr(n, "parent", None)


def _callable_body(f, node):
    """(return expression, first parameter) of a lambda or a nested def named by `node`."""
    if isinstance(node, ast.Lambda):
        return node.body, (node.args.args[0].arg if node.args.args else None)
    if isinstance(node, ast.Name):
        q = "%s.<locals>.%s" % (f.qualname, node.id)
        fi = f.module.functions.get(q)
        if fi is not None:
            rets = [n for n in ast.walk(fi.node) if isinstance(n, ast.Return) and n.value is not None]
            if len(rets) == 1:
                return rets[0].value, (fi.params[0] if fi.params else None)
    return None, None
