"""C04 -- interstorm intervals are clean, maximal, rain-free recessions.

 O1 flag automaton of get_mystery_jump_mask: all 8 valuations of
    (state, raining, jump) against the specification automaton; initial
    state 'unexplained'; argument order at the call site
 O2 formulas: 'raining' is intensity > 0 in SQL; rates are right-aligned
    increments per hour, compared strictly with the jump threshold;
    is_interstorm == not mystery and not raining (truth table)
 O3 a recorded interval is a run of >= 2 samples; start = first sample's
    time, thru = last sample's time; type literal 'interstorm'
 O4 the flags stored are the flags computed (column <-> generator position)
"""

import ast

from ..cfg import ENTRY as ENTRY_
import itertools

from ..flow import Flow
from ..norm import NotAlgebraic, Poly, py_compare, py_poly
from ..report import where_of
from ..source import dotted_name, enclosing_func, enclosing_stmt
from ..sqlbind import binding_of
from ..sqlmodel import expr_str
from ..units import UnitError, UnitEval, fmt, unit_of_name
from .c12 import full_call_name


# ------------------------------------------------------------------ O1
def extract_automaton(f):
    """Find `for i in range(len(..)): <body>` with a loop-carried boolean
    and a store OUT[i] = <state>.  Returns dict or raises ValueError."""
    loops = [n for n in ast.walk(f.node) if isinstance(n, ast.For) and enclosing_func(n) is f.node]
    for loop in loops:
        elem = {}
        whole = None      # the loop runs over whole arrays (no slices), from the first element
        if isinstance(loop.target, ast.Name):
            iv = loop.target.id
        elif isinstance(loop.target, ast.Tuple) and len(loop.target.elts) == 2 and isinstance(loop.target.elts[0], ast.Name) \
                and isinstance(loop.iter, ast.Call) and isinstance(loop.iter.func, ast.Name) and loop.iter.func.id == "enumerate" \
                and len(loop.iter.args) == 1 and not loop.iter.keywords:
            # for i, x in enumerate(P)   /   for i, (a, b) in enumerate(zip(P, Q))
            iv = loop.target.elts[0].id
            tv, seq = loop.target.elts[1], loop.iter.args[0]
            if isinstance(tv, ast.Name) and isinstance(seq, ast.Name):
                elem[tv.id] = seq.id
                whole = True
            elif isinstance(tv, (ast.Tuple, ast.List)) and isinstance(seq, ast.Call) and isinstance(seq.func, ast.Name) and seq.func.id == "zip" \
                    and len(seq.args) == len(tv.elts) and all(isinstance(t, ast.Name) for t in tv.elts) \
                    and all(isinstance(a, ast.Name) or (isinstance(a, ast.Subscript) and isinstance(a.slice, ast.Slice) and isinstance(a.value, ast.Name))
                            for a in seq.args):
                whole = True
                for t, a in zip(tv.elts, seq.args):
                    if isinstance(a, ast.Subscript):
                        whole = False            # a slice of the input: not every sample from the first
                        a = a.value
                    elem[t.id] = a.id
            else:
                continue
        else:
            continue
        stores = [s for s in ast.walk(loop) if isinstance(s, ast.Assign) and isinstance(s.targets[0], ast.Subscript)
                  and isinstance(s.targets[0].slice, ast.Name) and s.targets[0].slice.id == iv]
        if len(stores) != 1:
            continue
        out = stores[0]
        # state variables: names assigned boolean constants inside the loop
        states = set()
        for s in ast.walk(loop):
            if isinstance(s, ast.Assign) and isinstance(s.targets[0], ast.Name) and isinstance(s.value, ast.Constant) \
                    and isinstance(s.value.value, bool):
                states.add(s.targets[0].id)
        if len(states) != 1:
            continue
        return {"loop": loop, "ivar": iv, "state": next(iter(states)), "out": out, "elem": elem, "whole": whole}
    raise ValueError("state-machine loop not recognised")


def eval_body(body, env, inputs, ivar, out_holder, elem=None):
    """Interpret loop body statements with booleans.  elem: loop variables that hold the current
    element of an input array (name -> array name)."""
    elem = elem or {}

    def ev(e):
        if isinstance(e, ast.Constant):
            return bool(e.value)
        if isinstance(e, ast.Name) and e.id in elem and e.id not in env:
            return inputs[elem[e.id]]
        if isinstance(e, ast.Name):
            return env[e.id]
        if isinstance(e, ast.Subscript) and isinstance(e.value, ast.Name) and isinstance(e.slice, ast.Name) and e.slice.id == ivar:
            return inputs[e.value.id]
        if isinstance(e, ast.UnaryOp) and isinstance(e.op, (ast.Not, ast.Invert)):
            return not ev(e.operand)
        if isinstance(e, ast.BoolOp):
            vals = [ev(v) for v in e.values]
            return all(vals) if isinstance(e.op, ast.And) else any(vals)
        if isinstance(e, ast.BinOp) and isinstance(e.op, (ast.BitAnd, ast.BitOr)):
            a, b = ev(e.left), ev(e.right)
            return (a and b) if isinstance(e.op, ast.BitAnd) else (a or b)
        if isinstance(e, ast.IfExp):
            return ev(e.body) if ev(e.test) else ev(e.orelse)
        if isinstance(e, ast.Call) and isinstance(e.func, ast.Name) and e.func.id == "bool" and len(e.args) == 1:
            return ev(e.args[0])
        raise ValueError("expression %s" % ast.unparse(e)[:50])

    for st in body:
        if isinstance(st, ast.If):
            eval_body(st.body if ev(st.test) else st.orelse, env, inputs, ivar, out_holder, elem)
        elif isinstance(st, ast.Assign) and isinstance(st.targets[0], ast.Name):
            env[st.targets[0].id] = ev(st.value)
        elif isinstance(st, ast.Assign) and isinstance(st.targets[0], ast.Subscript):
            out_holder.append(ev(st.value))
        elif isinstance(st, (ast.Pass, ast.Expr)):
            continue
        else:
            raise ValueError("statement %s" % type(st).__name__)


def record_read_whole(ctx, chk, rule):
    """Zero expected: the classification reads each gap-free record whole.  `fetchmany`, or a SELECT with LIMIT / OFFSET
    parameters inside a loop, hands the record to the run detection in pieces: a run (storm, rise, interstorm interval)
    that straddles a piece boundary is recorded as two, or loses the sample left alone on one side."""
    m = ctx.repo.modules.get("classify")
    n = 0
    hits = []
    for q, fi in sorted(m.functions.items()) if m is not None else []:
        n += 1
        for c in ast.walk(fi.node):
            if isinstance(c, ast.Call) and isinstance(c.func, ast.Attribute) and c.func.attr == "fetchmany":
                hits.append((fi, c, "rows are fetched %s at a time" % (ast.unparse(c.args[0])[:30] if c.args else "arraysize")))
        for s_ in ctx.sites_in(fi):
            st = s_.stmt
            if st is not None and st.kind == "select" and getattr(st, "limit", None) is not None and any(x[0] == "param" for x in _walk(st.limit)):
                hits.append((fi, s_.call, "the series query is cut by a LIMIT bound to a parameter"))
    # a record fetched in pieces is a defect only if the runs are detected piece by piece: a loop over the pieces whose body
    # labels runs (get_true_interval_masks) or stores intervals.  Pieces that are put together again before the run
    # detection are the whole record; if neither shape is found the rule does not decide.
    piecewise = []
    producers = {fi.qualname.split(".")[-1] for fi, _c, _t in hits}
    for q, fi in sorted(m.functions.items()) if (m is not None and hits) else []:
        for lp in ast.walk(fi.node):
            if not isinstance(lp, (ast.For, ast.While)):
                continue
            head = lp.iter if isinstance(lp, ast.For) else lp.test
            feeds = any(isinstance(x, ast.Call) and ((isinstance(x.func, ast.Name) and x.func.id in producers) or (isinstance(x.func, ast.Attribute) and x.func.attr in producers | {"fetchmany"}))
                        for x in ast.walk(head)) or any(isinstance(x, ast.Call) and isinstance(x.func, ast.Attribute) and x.func.attr == "fetchmany" for b in lp.body for x in ast.walk(b))
            if not feeds:
                continue
            labels = any(isinstance(x, ast.Call) and ((isinstance(x.func, ast.Name) and x.func.id == "get_true_interval_masks")
                                                      or (isinstance(x.func, ast.Attribute) and x.func.attr == "get_true_interval_masks")) for b in lp.body for x in ast.walk(b))
            stores = any(s_.stmt is not None and s_.stmt.kind == "insert" and s_.stmt.table in ("zeta_interval", "storm", "zeta_interval_storm")
                         and any(x is s_.call for b in lp.body for x in ast.walk(b)) for s_ in ctx.sites_in(fi))
            if labels or stores:
                piecewise.append((fi, lp))
    if hits and not piecewise:
        fi, c, txt = hits[0]
        chk.indeterminate(rule, where_of(fi, c), "%s: %s; whether the runs are detected per piece or on the re-assembled record is not read" % (ast.unparse(c)[:50], txt))
        hits = []
    for fi, c, txt in hits:
        chk.ob(rule, False, where_of(fi, c), "%s: %s, and runs are detected inside the loop over the pieces (line %d)" % (ast.unparse(c)[:50], txt, piecewise[0][1].lineno),
               "runs are detected over the whole gap-free record",
               key="classify|record-in-pieces|%s" % fi.qualname, local=True,
               why="an interstorm interval (or storm, or rise) in progress at a piece boundary is recorded as two abutting intervals, or shortened by the sample left alone on one side: recorded intervals are not maximal")
    chk.count("classify functions scanned for piecewise reading of a record", n)
    ctl = ast.parse("rows = cur.fetchmany(n)")
    if not any(isinstance(c, ast.Call) and isinstance(c.func, ast.Attribute) and c.func.attr == "fetchmany" for c in ast.walk(ctl)):
        chk.errors.append("%s positive control (fetchmany) did not match" % rule)


def _walk(e):
    from ..sqlmodel import walk_expr
    try:
        return list(walk_expr(e))
    except Exception:
        return []


def extra_threshold_arguments(ctx, chk, rule):
    """classify_interstorms compares its series with one threshold argument (its third parameter).  An order comparison
    against another argument of the function is a second threshold; named under `rule` (shared as C01.O7: rises and
    interstorm intervals share zeta_interval's primary key, so they must be cut by the same jump threshold)."""
    from ..flow import Flow as _Flow
    g = ctx.func("classify.classify_interstorms")
    if len(g.params) < 3:
        chk.indeterminate(rule, where_of(g, g.node), "signature of classify_interstorms changed")
        return
    thr = g.params[2]
    gflow = _Flow.of(g)
    n = 0
    for c in ast.walk(g.node):
        if isinstance(c, ast.Compare) and len(c.ops) == 1 and isinstance(c.ops[0], (ast.Gt, ast.GtE, ast.Lt, ast.LtE)):
            n += 1
            for x, other in ((c.left, c.comparators[0]), (c.comparators[0], c.left)):
                # the other side is a series: its definition takes differences / shifted slices of the record (a length, a
                # count or a block size compared with an argument is not a threshold on the series)
                try:
                    otxt = ast.unparse(gflow.expand(other))
                except Exception:
                    otxt = ""
                is_series = "diff(" in otxt or "[1:]" in otxt or "[:-1]" in otxt
                if is_series and isinstance(x, ast.Name) and x.id in g.params[3:] and ENTRY_ in (gflow.reaching_defs(x) or set()):
                    chk.ob(rule, False, where_of(g, c), "`%s`: a series of classify_interstorms is compared with the argument %s, a second threshold beside %s" % (ast.unparse(c)[:60], x.id, thr),
                           "one jump threshold for rises and for interstorm intervals",
                           key="classify_interstorms|second-threshold|%s" % x.id, local=True,
                           why="an interstorm interval that runs through an increment above the jump threshold can start on the same sample as a matched rise: both are inserted into zeta_interval, whose primary key is start_epoch, and the classification aborts with IntegrityError")
    chk.count("order comparisons of classify_interstorms read for a second threshold", n)


def run(ctx, chk, tier="quick"):
    chk.explanation = (
        "Finite-skeleton extraction of the mystery-jump flag loop (a 2-state machine evaluated on all "
        "8 valuations of state x raining x jump and compared with the specification automaton read off "
        "the property), truth table of the interstorm flag, affine alignment and unit of the rate "
        "vector, strictness of the jump test, the >= 2-sample filter and the epochs bound to the "
        "zeta_interval INSERT, and column <-> generator agreement of the grid_time_flags INSERT."
    )
    chk.assumptions = ["get_true_interval_masks labels maximal runs (numpy cumsum labelling; leading-run case decided under C01.O3)"]
    from ..sqlrules import conflict_clauses as _conflict_clauses
    _conflict_clauses(ctx, chk, "C04.O4", ("classify",), "classify", 'a second classification with another jump threshold keeps interstorm intervals of the first run beside the new thresholds row: recorded intervals are no longer clean under the stored threshold')
    record_read_whole(ctx, chk, "C04.O3")
    # every data interval reaches the interstorm classification: the loop over them is not cut short by its own body
    from ..typestate import lazy_cursor_loops
    lazy_cursor_loops(ctx, chk, "C04.O5", ("classify",), why="execute on the iterated cursor ends the loop over the data intervals after the first: later records get no flags and no interstorm intervals")
    # the series the flags and the interstorm runs are computed from: one data interval, three series on the same instant, in time order
    from .c03 import series_feed_queries
    chk.floor("array-feeding series queries in the classification call tree", series_feed_queries(ctx, chk, "C04.O2"), 2)
    f = ctx.func("classify.get_mystery_jump_mask")
    if len(f.params) != 2:
        chk.indeterminate("C04.O1", where_of(f, f.node), "signature changed")
        return
    pj, pr = f.params  # (is_jump, is_raining)
    _running_index_sentinels(ctx, chk, f)
    try:
        au = extract_automaton(f)
    except ValueError as exc:
        chk.indeterminate("C04.O1", where_of(f, f.node), str(exc))
        au = None
    if au is not None:
        loop, iv, state = au["loop"], au["ivar"], au["state"]
        # initial state
        flow = Flow.of(f)
        init = None
        for n in ast.walk(f.node):
            if isinstance(n, ast.Assign) and isinstance(n.targets[0], ast.Name) and n.targets[0].id == state \
                    and not any(a is loop for a in _anc(n)) and isinstance(n.value, ast.Constant):
                init = n
        if init is None:
            chk.indeterminate("C04.O1", where_of(f, loop), "the initial value of the loop-carried flag `%s` is not a constant assigned before the loop: the state variable is not identified" % state)
        else:
          chk.ob("C04.O1", init is not None and init.value.value is True, where_of(f, init or loop),
               "initial state %s = %s" % (state, ast.unparse(init.value) if init is not None else "unset"),
               "True: before any rain has been seen the record is 'unexplained'", key="get_mystery_jump_mask|initial-state",
               why="a record that starts dry would otherwise yield a recession interval with no rain before it")
        n_ok = 0
        for s0, raining, jump in itertools.product((False, True), repeat=3):
            env = {state: s0}
            outs = []
            try:
                eval_body(loop.body, env, {pj: jump, pr: raining}, iv, outs, au.get("elem"))
            except (ValueError, KeyError) as exc:
                chk.indeterminate("C04.O1", where_of(f, loop), "loop body not interpretable: %s" % exc)
                break
            want = False if raining else (True if jump else s0)
            got_state = env[state]
            got_out = outs[-1] if outs else None
            ok = got_state == want and got_out == want
            n_ok += ok
            chk.ob("C04.O1", ok, where_of(f, loop),
                   "state=%s raining=%s jump=%s -> state %s, flag %s" % (s0, raining, jump, got_state, got_out),
                   "state %s, flag %s" % (want, want), key="get_mystery_jump_mask|transition|%d%d%d" % (s0, raining, jump),
                   why="rain clears the flag, a dry jump sets it, otherwise it holds; the stored flag is the state after the update")
        # range covers every sample
        it = loop.iter
        rng_ok = isinstance(it, ast.Call) and isinstance(it.func, ast.Name) and it.func.id == "range" and len(it.args) == 1 \
            and ast.unparse(it.args[0]).startswith("len(")
        if au.get("whole") and set(au.get("elem", {}).values()) <= {pj, pr}:
            rng_ok = True            # enumerate over the whole input arrays, from the first element
        elif au.get("whole") is False:
            rng_ok = False
        chk.ob("C04.O1", rng_ok, where_of(f, loop), "loop over %s" % ast.unparse(it), "every sample, in time order (range(len(...)))",
               key="get_mystery_jump_mask|loop-range")
        # returns the flag array that is stored into
        rets = [n for n in ast.walk(f.node) if isinstance(n, ast.Return) and n.value is not None]
        out_arr = au["out"].targets[0].value.id if isinstance(au["out"].targets[0].value, ast.Name) else None
        chk.ob("C04.O1", len(rets) == 1 and isinstance(rets[0].value, ast.Name) and rets[0].value.id == out_arr,
               where_of(f, rets[0] if rets else f.node), "returns %s" % (ast.unparse(rets[0].value) if rets else "?"),
               "the array of stored flags", key="get_mystery_jump_mask|return")

    # ------------------------------------------------------------ classify_interstorms
    g = ctx.func("classify.classify_interstorms")
    gflow = Flow.of(g)
    mod = g.module
    thr = g.params[2] if len(g.params) > 2 else None
    sites = ctx.sites_in(g)
    sel = [s for s in sites if s.stmt is not None and s.stmt.kind == "select"
           and {"water_level", "rainfall_intensity"} <= {x.table for x in s.stmt.sources}]
    if len(sel) != 1:
        chk.indeterminate("C04.O2", where_of(g, g.node), "expected one series SELECT (water level + rainfall) in classify_interstorms")
        return
    b = binding_of(ctx, g, sel[0])
    if b is None or b.kind != "columns":
        chk.indeterminate("C04.O2", where_of(g, sel[0].call), "result binding not recognised")
        return
    cols = sel[0].stmt.columns
    role_by_name = {}
    rain_name = None
    for i, nm in enumerate(b.names):
        e = cols[i][0]
        if e[0] == "col" and e[2].endswith("epoch"):
            role_by_name[nm] = "epoch"
        elif e[0] == "col" and e[2] == "zeta_mm":
            role_by_name[nm] = "level"
        elif e[0] == "bin" and e[1] in (">", ">=", "!=", "<", "<=") :
            rain_name = nm
            ok = e[1] == ">" and e[2][0] == "col" and e[2][2] == "rainfall_intensity_mm_h" and e[3] == ("num", "0")
            chk.ob("C04.O2", ok, where_of(g, sel[0].call), "raining := %s" % expr_str(e), "rainfall_intensity_mm_h > 0 (any rain)",
                   key="classify_interstorms|raining-definition", why="a step with any rain at all is not part of a recession")
            role_by_name[nm] = "raining"
    if rain_name is None:
        chk.indeterminate("C04.O2", where_of(g, sel[0].call), "'raining' column not found in the select list")
        return
    epoch_name = next((n for n, r in role_by_name.items() if r == "epoch"), None)
    level_name = next((n for n, r in role_by_name.items() if r == "level"), None)
    # call of get_mystery_jump_mask
    calls = [c for c in ast.walk(g.node) if isinstance(c, ast.Call) and ctx.cg.resolve_callee(g, c.func) == [f.fq]]
    if len(calls) != 1 or len(calls[0].args) != 2:
        chk.indeterminate("C04.O1", where_of(g, g.node), "call of get_mystery_jump_mask(jump, raining) not found")
        return
    mc = calls[0]
    a_jump, a_rain = mc.args

    def root_name(n):
        # through .astype(bool) / np.asarray etc.
        seen = 0
        while seen < 6:
            seen += 1
            if isinstance(n, ast.Call) and isinstance(n.func, ast.Attribute) and n.func.attr in ("astype", "copy") :
                n = n.func.value
            elif isinstance(n, ast.Name):
                v = gflow.def_value(n)
                if v is None:
                    return n
                if isinstance(v, ast.Call) and isinstance(v.func, ast.Attribute) and v.func.attr in ("astype", "copy") \
                        and isinstance(v.func.value, ast.Name) and v.func.value.id == n.id:
                    # x = x.astype(bool): follow the previous definition
                    n = v.func.value
                    vv = gflow.def_value(n)
                    if vv is None:
                        return n
                    n = vv
                else:
                    n = v
            else:
                return n
        return n

    # the jump flag: (rates > thr).astype(bool)
    jv = root_name(a_jump)
    jump_cmp = jv if isinstance(jv, ast.Compare) else None
    rates_name = None
    if jump_cmp is None:
        chk.indeterminate("C04.O2", where_of(g, mc), "jump flag is not a comparison: %s" % ast.unparse(jv)[:80])
    else:
        l = jump_cmp.left
        r = jump_cmp.comparators[0] if len(jump_cmp.ops) == 1 else None

        def is_thr(n):
            seen = 0
            while isinstance(n, ast.Name) and n.id != thr and seen < 4:
                v = gflow.def_value(n)
                if v is None:
                    break
                n = v
                seen += 1
            return isinstance(n, ast.Name) and n.id == thr

        other_par = next((x for x in (l, r) if isinstance(x, ast.Name) and x.id in g.params and x.id != thr
                          and ENTRY_ in (gflow.reaching_defs(x) or set())), None) if r is not None else None
        if other_par is not None and not is_thr(l) and not is_thr(r):
            chk.ob("C04.O2", False, where_of(g, jump_cmp), "the jumps that end an interstorm interval are `%s`: taken against the argument %s, not against the jump threshold %s" % (ast.unparse(jump_cmp)[:60], other_par.id, thr),
                   "one jump threshold: the increments that end interstorm intervals are those above the rising jump threshold stored for the dataset",
                   key="classify_interstorms|jump-threshold-argument", local=True,
                   why="with a second threshold above the jump threshold an interstorm interval keeps running through increments that start a rise: recorded intervals contain increments above the stored jump threshold, and an interstorm interval and a matched rise can start on the same sample (zeta_interval's primary key then aborts the classification)")
        elif r is None or is_thr(l) == is_thr(r):
            chk.indeterminate("C04.O2", where_of(g, jump_cmp), "jump comparison does not compare one rate vector with the threshold: %s" % ast.unparse(jump_cmp)[:80])
        else:
            rates_node = l if is_thr(r) else r
            opn = type(jump_cmp.ops[0]).__name__
            strict = (opn == "Gt" and is_thr(r)) or (opn == "Lt" and is_thr(l))
            chk.ob("C04.O2", strict, where_of(g, jump_cmp), "jump := %s" % ast.unparse(jump_cmp)[:140],
                   "rate > rising jump threshold (strict)", key="classify_interstorms|jump-test",
                   why="an increment exactly at the threshold is not a jump")
            rates_name = rates_node
    # raining argument is the SQL raining column
    rv = root_name(a_rain)
    rain_ok = isinstance(rv, ast.Name) and rv.id == rain_name or (isinstance(a_rain, ast.Name) and a_rain.id == rain_name)
    chk.ob("C04.O1", rain_ok and jump_cmp is not None, where_of(g, mc),
           "get_mystery_jump_mask(%s, %s)" % (ast.unparse(a_jump), ast.unparse(a_rain)), "(jump flags, raining flags) in that order",
           key="classify_interstorms|automaton-args", why="swapped inputs make rain set the flag and jumps clear it")
    # rates: right-aligned, per hour
    if rates_name is not None:
        probe = rates_name
        rdef = gflow.def_value(probe) if isinstance(probe, ast.Name) else probe
        align, desc, quotient = _rate_alignment(mod, gflow, rdef, level_name, epoch_name)
        rolls = [c for c in ast.walk(gflow.expand(rdef) if rdef is not None else ast.Pass()) if isinstance(c, ast.Call)
                 and (full_call_name(mod, c) or dotted_name(c.func) or "").split(".")[-1] == "roll"]
        if align == "unknown" and rolls:
            chk.ob("C04.O2", False, where_of(g, enclosing_stmt(probe)),
                   "increments computed with %s, which wraps around: the first element is the first level minus the LAST one" % ast.unparse(rolls[0])[:50],
                   "rate[0] = 0 (no increment ends at the first sample), rate[i] = (level[i] - level[i-1]) / step",
                   key="classify_interstorms|rates-alignment",
                   why="a record that ends lower than it starts gets a rise flag at its first sample although no increment ends there")
        elif align == "unknown":
            chk.indeterminate("C04.O2", where_of(g, enclosing_stmt(probe)), "rate vector of unrecognised shape: %s" % desc[:100])
        else:
            chk.ob("C04.O2", align == "right", where_of(g, rdef), "rates = %s [%s-aligned]" % (desc, align),
                   "element 0 is not a rate (0, never above a positive threshold), element i = increment ending at sample i", key="classify_interstorms|rate-alignment",
                   why="a left-aligned rate flags the sample before the jump instead of the one where the level arrived")
            if quotient is not None:
                try:
                    from ..units import FlowUnits
                    from fractions import Fraction as _Fr
                    _fu = FlowUnits(ctx, g, extra={epoch_name: (_Fr(1), 0, 1)}, call_unit=lambda c, ev: ev.unit(c.args[0]) if c.args else None)
                    ue = _fu.evaluator()
                    # unit of dz / dt
                    from fractions import Fraction
                    u = ue.unit(quotient)
                    tu = unit_of_name(thr)
                    chk.ob("C04.O2", tu is not None and u[0] != "const" and (Fraction(u[0]), u[1], u[2]) == tu, where_of(g, rdef),
                           "rate unit [%s] compared with %s [%s]" % (fmt(u), thr, fmt(tu)), "same unit (mm/h)",
                           key="classify_interstorms|rate-unit", why="a rate in mm/s or mm/step compared with a mm/h threshold")
                except UnitError as exc:
                    chk.info("C04.O2", where_of(g, rdef), "rate unit not determinable: %s" % exc, "not decided")
    from .. import sqltypes
    sqltypes.check(ctx, chk, "C04.O2", functions=(g.fq,))
    # is_interstorm truth table
    mys_name = None
    st = enclosing_stmt(mc)
    if isinstance(st, ast.Assign) and isinstance(st.targets[0], ast.Name):
        mys_name = st.targets[0].id
    inter_name = None
    inter_def = None
    for n in ast.walk(g.node):
        if isinstance(n, ast.Assign) and isinstance(n.targets[0], ast.Name) and mys_name and \
                {x.id for x in ast.walk(n.value) if isinstance(x, ast.Name)} >= {mys_name, rain_name} and n is not st:
            inter_name, inter_def = n.targets[0].id, n
    if inter_def is None and mys_name:
        # the flag whose runs are taken: the argument of get_true_interval_masks, through plain aliases
        for c_ in ast.walk(g.node):
            if isinstance(c_, ast.Call) and ctx.cg.resolve_callee(g, c_.func) == ["classify.get_true_interval_masks"] and c_.args and isinstance(c_.args[0], ast.Name):
                a0_ = c_.args[0]
                last_name = a0_
                dv_ = gflow.def_value(a0_)
                hops_ = 0
                while isinstance(dv_, ast.Name) and hops_ < 4:
                    last_name = dv_
                    dv_ = gflow.def_value(dv_)
                    hops_ += 1
                if dv_ is not None and _flag_expression(dv_, set(role_by_name) | {mys_name, rain_name}):
                    dn_ = gflow.unique_def_node(last_name)
                    st_ = gflow.cfg.stmt_of.get(dn_) if dn_ is not None else None
                    if isinstance(st_, ast.Assign) and isinstance(st_.targets[0], ast.Name):
                        inter_name, inter_def = st_.targets[0].id, st_
    if inter_def is None:
        chk.indeterminate("C04.O2", where_of(g, g.node), "definition of the interstorm flag not found")
    else:
        rows = []
        ok = True
        try:
            for m, r in itertools.product((False, True), repeat=2):
                val = _bool_eval(mod, inter_def.value, {mys_name: m, rain_name: r})
                rows.append((m, r, val))
                ok = ok and (val == ((not m) and (not r)))
            chk.ob("C04.O2", ok, where_of(g, inter_def), "interstorm := %s ; truth table (mystery, raining -> flag) %s" % (ast.unparse(inter_def.value), rows),
                   "not mystery and not raining", key="classify_interstorms|interstorm-formula",
                   why="a recession sample is one with no rain and no unexplained rise since the last rain")
        except ValueError as exc:
            chk.indeterminate("C04.O2", where_of(g, inter_def), "boolean formula: %s" % exc)
    jump_flag_name_ = a_jump.id if isinstance(a_jump, ast.Name) else None
    # ---- O4: stored flags
    ins = [s for s in sites if s.stmt is not None and s.stmt.kind == "insert" and s.stmt.table == "grid_time_flags"]
    if len(ins) != 1 or not isinstance(ins[0].params_node, ast.Call):
        chk.indeterminate("C04.O4", where_of(g, g.node), "INSERT INTO grid_time_flags with zipped generators not found")
    else:
        s = ins[0]
        z = s.params_node
        colnames = s.stmt.columns
        # the flags of every classified record are stored: every path through the function to a normal return passes the INSERT
        from ..cfg import ENTRY
        ins_node = gflow.cfg.node_containing(s.call)
        if ins_node is None:
            chk.indeterminate("C04.O4", where_of(g, s.call), "INSERT INTO grid_time_flags: statement not in the flow graph")
        else:
            every = gflow.cfg.postdominates(ins_node, ENTRY)
            skip = None
            if not every:
                for r_ in ast.walk(g.node):
                    if isinstance(r_, ast.Return) and enclosing_func(r_) is g.node:
                        rn_ = gflow.cfg.node(r_)
                        if rn_ is not None and rn_ in gflow.cfg.reachable_from(ENTRY, avoiding={ins_node}):
                            skip = r_
                            break
            guard_ = getattr(skip, "parent", None) if skip is not None else None
            while guard_ is not None and not isinstance(guard_, (ast.If, ast.FunctionDef)):
                guard_ = getattr(guard_, "parent", None)
            gtxt_ = ast.unparse(guard_.test) if isinstance(guard_, ast.If) else ""
            if not every and any(t_ in gtxt_ for t_ in ("len(", ".size", ".shape")):
                # a return for a record with no samples at all stores nothing because there is nothing to store
                chk.indeterminate("C04.O4", where_of(g, skip), "a path skips INSERT INTO grid_time_flags under `%s`: whether that is only the empty record is not decided" % gtxt_[:60])
            else:
              chk.ob("C04.O4", every, where_of(g, skip if skip is not None else s.call),
                   "INSERT INTO grid_time_flags is %s" % ("on every path to a normal return" if every else
                                                          "skipped by a path through the function%s" % (" (return at line %d)" % skip.lineno if skip is not None else "")),
                   "every record that is classified gets its per-time-step flags", key="classify_interstorms|flags-every-path",
                   why="a record with no interstorm sample (no rain at all, rain in every step) is classified like any other; without its rows the stored flags do not agree with the definitions")
        want_roles = {"start_epoch": "epoch", "is_jump": "jump", "is_mystery_jump": "mystery", "is_interstorm": "interstorm"}
        jump_flag_name = a_jump.id if isinstance(a_jump, ast.Name) else None
        var_role = {epoch_name: "epoch", jump_flag_name: "jump", mys_name: "mystery", inter_name: "interstorm"}
        if not (isinstance(z.func, ast.Name) and z.func.id == "zip" and len(z.args) == len(colnames)):
            chk.indeterminate("C04.O4", where_of(g, s.call), "parameters are not zip(...) with one iterable per column")
        else:
            for cname, arg in zip(colnames, z.args):
                src = None
                if isinstance(arg, (ast.GeneratorExp, ast.ListComp)) and len(arg.generators) == 1 and isinstance(arg.generators[0].iter, ast.Name):
                    gen = arg.generators[0]
                    elt = arg.elt
                    # int(x) for x in NAME
                    core = elt.args[0] if isinstance(elt, ast.Call) and isinstance(elt.func, ast.Name) and elt.func.id in ("int", "bool") and elt.args else elt
                    if isinstance(core, ast.Name) and isinstance(gen.target, ast.Name) and core.id == gen.target.id:
                        src = gen.iter.id
                elif isinstance(arg, ast.Name):
                    src = arg.id
                elif isinstance(arg, ast.Call) and isinstance(arg.func, ast.Attribute) and arg.func.attr == "tolist" and isinstance(arg.func.value, ast.Name):
                    src = arg.func.value.id
                # follow aliases (interval_mask = is_interstorm)
                role = var_role.get(src)
                if role is None and src is not None:
                    # through plain aliases / definitions: a name defined as one of the known arrays
                    probe = next((x for x in ast.walk(arg) if isinstance(x, ast.Name) and x.id == src), None)
                    dv = gflow.def_value(probe) if probe is not None else None
                    hops = 0
                    while isinstance(dv, ast.Name) and hops < 4:
                        if dv.id in var_role:
                            role = var_role[dv.id]
                            break
                        dv = gflow.def_value(dv)
                        hops += 1
                if role is None and src is not None:
                    probe = next((x for x in ast.walk(arg) if isinstance(x, ast.Name) and x.id == src), None)
                    dv = gflow.def_value(probe) if probe is not None else None
                    known_ = {k for k in var_role if k} | set(role_by_name)
                    designated_known = want_roles.get(cname) in {r_ for k_, r_ in var_role.items() if k_}
                    if designated_known and dv is not None and not isinstance(dv, ast.Name) and _flag_expression(dv, known_):
                        role = "another flag: %s" % ast.unparse(dv)[:50]
                if role is None:
                    chk.indeterminate("C04.O4", where_of(g, arg), "column %s <- %s: not traced to the epoch / jump / mystery / interstorm arrays of this function" % (cname, src or ast.unparse(arg)[:40]))
                    continue
                chk.ob("C04.O4", role == want_roles.get(cname), where_of(g, arg), "column %s <- %s (%s)" % (cname, src, role),
                       "the %s computed above" % want_roles.get(cname), key="classify_interstorms|flags-insert|%s" % cname,
                       why="a flag stored under another column's name misleads every later reader")
    # ---- O3: recorded intervals
    zins = [s for s in sites if s.stmt is not None and s.stmt.kind == "insert" and s.stmt.table == "zeta_interval"]
    if len(zins) != 1 or not isinstance(zins[0].params_node, ast.Dict):
        chk.indeterminate("C04.O3", where_of(g, g.node), "INSERT INTO zeta_interval not found")
        return
    s = zins[0]
    pd = {k.value: v for k, v in zip(s.params_node.keys, s.params_node.values) if isinstance(k, ast.Constant)}
    loop = None
    for a in _anc(s.call):
        if isinstance(a, ast.For):
            loop = a
            break
    if loop is None or not isinstance(loop.target, ast.Name):
        chk.indeterminate("C04.O3", where_of(g, s.call), "loop over the runs not found")
        return
    run_var = loop.target.id
    for col, idx_want, what in (("start_epoch", "0", "first"), ("thru_epoch", "-1", "last")):
        v = pd.get(col)
        core = v
        while isinstance(core, ast.Call) and isinstance(core.func, ast.Name) and core.func.id == "int" and core.args:
            core = core.args[0]
        arr = core.value if isinstance(core, ast.Subscript) and isinstance(core.value, ast.Name) else None
        arr_role = None
        if arr is not None:
            n_ = arr
            for _h in range(5):
                if n_.id in role_by_name:
                    arr_role = role_by_name[n_.id]
                    break
                dv_ = gflow.def_value(n_)
                if not isinstance(dv_, ast.Name):
                    break
                n_ = dv_
        if arr is None or arr_role is None:
            chk.indeterminate("C04.O3", where_of(g, s.call), "%s = %s: not an element of one of the series arrays of this function" % (col, ast.unparse(v)[:60] if v is not None else "?"))
            continue
        ok = arr_role == "epoch" \
            and isinstance(core.slice, ast.Subscript) and isinstance(core.slice.value, ast.Name) and core.slice.value.id == run_var \
            and ast.unparse(core.slice.slice) == idx_want
        chk.ob("C04.O3", ok, where_of(g, s.call), "%s = %s" % (col, ast.unparse(v) if v is not None else "?"),
               "time of the %s sample of the run" % what, key="classify_interstorms|interval-%s" % col,
               why="recession intervals are closed over their own samples")
    ty = pd.get("interval_type")
    chk.ob("C04.O3", isinstance(ty, ast.Constant) and ty.value == "interstorm", where_of(g, s.call),
           "interval_type = %s" % (ast.unparse(ty) if ty is not None else "?"), "'interstorm'", key="classify_interstorms|interval-type")
    # the runs: filtered list of index arrays of the masks of the interstorm flag
    it = loop.iter
    runs_def = gflow.def_value(it) if isinstance(it, ast.Name) else it
    filt_ok = False
    fdesc = ast.unparse(runs_def)[:100] if runs_def is not None else "?"
    src_list = None
    if isinstance(runs_def, ast.ListComp) and len(runs_def.generators) == 1 and len(runs_def.generators[0].ifs) == 1:
        gen = runs_def.generators[0]
        cond = gen.ifs[0]
        tv = gen.target.id if isinstance(gen.target, ast.Name) else None
        try:
            op, p = py_compare(cond)
            want1 = py_compare(ast.parse("len(%s) > 1" % tv, mode="eval").body)
            want2 = py_compare(ast.parse("len(%s) >= 2" % tv, mode="eval").body)
            filt_ok = (op, p) in (want1, want2) and isinstance(runs_def.elt, ast.Name) and runs_def.elt.id == tv
        except NotAlgebraic:
            filt_ok = False
        src_list = gen.iter
    chk.ob("C04.O3", filt_ok, where_of(g, runs_def if runs_def is not None else loop), "runs recorded: %s" % fdesc,
           "exactly the runs with at least two samples", key="classify_interstorms|min-length",
           why="a one-sample run has no duration (start < thru is required); dropping two-sample runs loses recessions")
    # provenance of the index arrays: nonzero of masks of the interstorm flag
    prov_ok = False
    prov_known = False
    if src_list is not None:
        # def reaching the comprehension's iterable (the name is reassigned by the filter itself)
        cand = src_list
        seen = 0
        chain = []
        while isinstance(cand, ast.Name) and seen < 4:
            seen += 1
            defs = gflow.reaching_defs(cand) or set()
            vals = []
            for d in defs:
                stt = gflow.cfg.stmt_of.get(d)
                if isinstance(stt, ast.Assign) and stt.value is not runs_def:
                    vals.append(stt.value)
            if len(vals) != 1:
                break
            cand = vals[0]
            chain.append(cand)
        if isinstance(cand, ast.ListComp) and len(cand.generators) == 1:
            e = cand.elt
            gen = cand.generators[0]
            nz = isinstance(e, ast.Subscript) and isinstance(e.value, ast.Call) and (full_call_name(mod, e.value) or "").endswith("nonzero") \
                and isinstance(e.slice, ast.Constant) and e.slice.value == 0 and e.value.args and isinstance(e.value.args[0], ast.Name) \
                and isinstance(gen.target, ast.Name) and e.value.args[0].id == gen.target.id
            masks = gflow.def_value(gen.iter) if isinstance(gen.iter, ast.Name) else gen.iter
            frm = isinstance(masks, ast.Call) and ctx.cg.resolve_callee(g, masks.func) == ["classify.get_true_interval_masks"] and masks.args
            if nz and frm:
                a0 = masks.args[0]
                seen_names = set()
                while isinstance(a0, ast.Name) and a0.id != inter_name and a0.id not in seen_names:
                    seen_names.add(a0.id)
                    nxt = gflow.def_value(a0)
                    if nxt is None:
                        break
                    a0 = nxt
                prov_ok = isinstance(a0, ast.Name) and a0.id == inter_name
                prov_known = inter_name is not None and isinstance(a0, ast.Name)
                if not prov_known and inter_name is not None and not isinstance(a0, ast.Name) and _flag_expression(a0, set(role_by_name) | {k for k in (jump_flag_name_, mys_name, inter_name) if k}):
                    prov_known, prov_ok = True, False      # runs of another flag expression
                    inter_name = inter_name or ast.unparse(a0)[:40]
    if not prov_known:
        chk.indeterminate("C04.O3", where_of(g, loop), "the runs are not read as nonzero() of the masks of get_true_interval_masks(<a flag of this function>)")
    else:
      chk.ob("C04.O3", prov_ok, where_of(g, loop), "runs = indices of each mask of get_true_interval_masks(%s)" % (inter_name,),
           "maximal True runs of the interstorm flag", key="classify_interstorms|runs-source", scope=g,
           why="intervals must be the maximal stretches of the flag that was stored")


def _flag_expression(e, known):
    """A boolean combination (~ & | logical_not/and/or, .astype(bool)) of names that all are known arrays of the
    function: readable -- and, when it is not the designated flag array itself, a different flag."""
    names = [x.id for x in ast.walk(e) if isinstance(x, ast.Name) and isinstance(x.ctx, ast.Load) and x.id not in ("np", "numpy", "bool")]
    if not names or not all(n in known for n in names):
        return False
    for x in ast.walk(e):
        if isinstance(x, (ast.Name, ast.Load, ast.UnaryOp, ast.BinOp, ast.BoolOp, ast.Invert, ast.Not, ast.BitAnd, ast.BitOr, ast.And, ast.Or, ast.Attribute, ast.Call)):
            if isinstance(x, ast.Call):
                fn = x.func.attr if isinstance(x.func, ast.Attribute) else (x.func.id if isinstance(x.func, ast.Name) else "")
                if fn not in ("logical_not", "logical_and", "logical_or", "astype", "copy", "bool"):
                    return False
            continue
        return False
    return True


def _anc(node):
    n = getattr(node, "parent", None)
    while n is not None:
        yield n
        n = getattr(n, "parent", None)


def _bool_eval(mod, e, env):
    if isinstance(e, ast.Name):
        if e.id in env:
            return env[e.id]
        raise ValueError("name %s" % e.id)
    if isinstance(e, ast.UnaryOp) and isinstance(e.op, (ast.Invert, ast.Not)):
        return not _bool_eval(mod, e.operand, env)
    if isinstance(e, ast.BinOp) and isinstance(e.op, (ast.BitAnd, ast.BitOr, ast.BitXor)):
        a, b = _bool_eval(mod, e.left, env), _bool_eval(mod, e.right, env)
        return (a and b) if isinstance(e.op, ast.BitAnd) else ((a or b) if isinstance(e.op, ast.BitOr) else (a != b))
    if isinstance(e, ast.BoolOp):
        vals = [_bool_eval(mod, v, env) for v in e.values]
        return all(vals) if isinstance(e.op, ast.And) else any(vals)
    if isinstance(e, ast.Call):
        fn = (full_call_name(mod, e) or "").split(".")[-1]
        if fn == "logical_not" and len(e.args) == 1:
            return not _bool_eval(mod, e.args[0], env)
        if fn == "logical_and" and len(e.args) == 2:
            return _bool_eval(mod, e.args[0], env) and _bool_eval(mod, e.args[1], env)
        if fn == "logical_or" and len(e.args) == 2:
            return _bool_eval(mod, e.args[0], env) or _bool_eval(mod, e.args[1], env)
        if isinstance(e.func, ast.Attribute) and e.func.attr == "astype" :
            return _bool_eval(mod, e.func.value, env)
    raise ValueError("expression %s" % ast.unparse(e)[:50])


def _diff_kind(mod, e, name):
    """+1 if e is name[1:] - name[:-1] or np.diff(name); -1 if reversed; 0 otherwise."""
    if isinstance(e, ast.Call) and (full_call_name(mod, e) or "").endswith("numpy.diff") and len(e.args) == 1 \
            and isinstance(e.args[0], ast.Name) and e.args[0].id == name:
        return 1
    if isinstance(e, ast.BinOp) and isinstance(e.op, ast.Sub):
        def sl(n):
            if isinstance(n, ast.Subscript) and isinstance(n.value, ast.Name) and n.value.id == name and isinstance(n.slice, ast.Slice):
                lo = ast.unparse(n.slice.lower) if n.slice.lower is not None else ""
                up = ast.unparse(n.slice.upper) if n.slice.upper is not None else ""
                return (lo, up)
            return None
        a, b = sl(e.left), sl(e.right)
        if a == ("1", "") and b == ("", "-1"):
            return 1
        if a == ("", "-1") and b == ("1", ""):
            return -1
    return 0


def _rate_alignment(mod, flow, rdef, level, epoch):
    """('right'|'left'|'unknown', description, quotient AST)"""
    if not (isinstance(rdef, ast.Call) and (full_call_name(mod, rdef) or "").endswith("numpy.concatenate") and rdef.args
            and isinstance(rdef.args[0], (ast.Tuple, ast.List)) and len(rdef.args[0].elts) == 2):
        return "unknown", ast.unparse(rdef) if rdef is not None else "?", None
    a, b = rdef.args[0].elts

    def const1(n):
        """value of a one-element literal [c], else None"""
        if isinstance(n, (ast.List, ast.Tuple)) and len(n.elts) == 1:
            e = n.elts[0]
            sign = 1
            while isinstance(e, ast.UnaryOp) and isinstance(e.op, (ast.USub, ast.UAdd)):
                sign = -sign if isinstance(e.op, ast.USub) else sign
                e = e.operand
            if isinstance(e, ast.Constant) and isinstance(e.value, (int, float)) and not isinstance(e.value, bool):
                return sign * e.value
            # np.inf / math.inf / float('inf'): an infinite first rate; nan compares False with everything
            txt = ast.unparse(e).replace(" ", "").replace('"', "'").lower()
            if txt in ("np.inf", "numpy.inf", "math.inf", "float('inf')", "float('infinity')", "np.infty"):
                return sign * float("inf")
            if txt in ("np.nan", "numpy.nan", "math.nan", "float('nan')"):
                return 0.0
        return None

    ca, cb = const1(a), const1(b)
    if ca is not None:
        q, align = b, ("right" if ca <= 0 else "first-element-positive")
    elif cb is not None:
        q, align = a, "left"
    else:
        return "unknown", ast.unparse(rdef), None
    qe = flow.expand(q, keep={level, epoch}) if q is not None else q
    # numerator must be the forward difference of the level: dz / dt, or dz * (steps per hour)
    num = None
    if isinstance(qe, ast.BinOp) and isinstance(qe.op, ast.Div):
        num = qe.left
    elif isinstance(qe, ast.BinOp) and isinstance(qe.op, ast.Mult):
        num = qe.left if _diff_kind(mod, qe.left, level) != 0 else qe.right
    if num is None or _diff_kind(mod, num, level) != 1:
        return ("unknown" if num is None else "left"), "increments %s" % (ast.unparse(num) if num is not None else ast.unparse(qe)), qe
    return align, "concatenate(%s, %s)" % (ast.unparse(a), ast.unparse(b))[:120], qe


def _running_index_sentinels(ctx, chk, f):
    """Vectorised form of the flag: `np.maximum.accumulate(np.where(event, index, FILL))` gives the index of the
    latest event; FILL stands for "no event yet" and therefore must not be a valid index.  With index =
    np.arange(n) and FILL >= 0 an event at the first sample and no event at all are the same number."""
    flow = Flow.of(f)
    mod = f.module
    for c in ast.walk(f.node):
        if not (isinstance(c, ast.Call) and (full_call_name(mod, c) or "").endswith("maximum.accumulate") and c.args):
            continue
        w = c.args[0]
        w = flow.def_value(w) if isinstance(w, ast.Name) else w
        if not (isinstance(w, ast.Call) and (full_call_name(mod, w) or "").split(".")[-1] == "where" and len(w.args) == 3):
            continue
        idx, fill = w.args[1], w.args[2]
        idx = flow.def_value(idx) if isinstance(idx, ast.Name) else idx
        zero_based = isinstance(idx, ast.Call) and (full_call_name(mod, idx) or "").split(".")[-1] == "arange" and \
            (len(idx.args) == 1 or (len(idx.args) >= 2 and isinstance(idx.args[0], ast.Constant) and idx.args[0].value == 0))
        try:
            fv = py_poly(fill).const_or_none()
        except NotAlgebraic:
            fv = None
        if not zero_based or fv is None:
            continue
        # an explicit look at the first sample could compensate: then this rule does not decide
        first_elem = any(isinstance(x, ast.Subscript) and isinstance(x.slice, ast.Constant) and x.slice.value == 0
                         and isinstance(x.value, ast.Name) and x.value.id in f.params for x in ast.walk(f.node))
        if fv >= 0 and not first_elem:
            chk.ob("C04.O1", False, where_of(f, c), "latest-event index = %s" % ast.unparse(c)[:110],
                   "a fill value below every index (e.g. -1) for \"no event yet\"",
                   key="get_mystery_jump_mask|running-index-sentinel",
                   why="index 0 is a real sample: rain (or a jump) on the very first step is treated as \"nothing seen yet\", so the flag after an opening rainy step is wrong")
        elif fv < 0:
            chk.ob("C04.O1", True, where_of(f, c), "latest-event index = %s" % ast.unparse(c)[:110], "fill below every index",
                   key="get_mystery_jump_mask|running-index-sentinel")
