"""C07 -- results do not depend on the time origin.

 O1 no rounding before differencing: a forward dataflow over the
    time-origin lattice
        NONE (origin-free or no time content)  <  ABS (absolute epoch,
        exact)  <  TAINT (computed from an absolute epoch by an inexact
        or non-equivariant operation: true division, non-integer
        multiplication, floor division, modulo, mean, other ufuncs)
    with structured values for tuples.  ABS - ABS, diff(ABS) and
    x - x.min() are NONE.  A TAINT value must not reach a comparison, a
    branch test, a subscript or an SQL parameter.
 O2 no iteration over an unordered container keyed by absolute epochs
 O3 SQL: no arithmetic other than +/- on a bare epoch column
"""

import ast

from ..cfg import ENTRY
from ..flow import Flow
from ..report import where_of
from ..source import dotted_name, enclosing_func
from ..sqlbind import bindings
from ..sqlmodel import walk_expr, select_exprs, subselects_of_expr
from .c12 import full_call_name

NONE, ABS, TAINT = 0, 1, 2
NAMES = {0: "origin-free", 1: "ABS", 2: "ABS~ (inexact)"}
SCOPE = ["load", "classify", "rise", "recession", "fit_offsets", "regrid", "zeta_grid"]

PRESERVE = {"array", "asarray", "int", "float", "list", "tuple", "sorted", "sort", "unique", "copy", "astype",
            "tolist", "min", "max", "amin", "amax", "reversed", "iter", "next", "ravel", "flatten", "squeeze",
            "abs", "fabs", "cumsum", "sum", "int64", "float64", "ascontiguousarray", "first", "round", "rint"}
TO_NONE = {"nonzero", "argwhere", "searchsorted", "len", "isfinite", "all", "any", "argmin", "argmax", "argsort",
           "zeros", "ones", "empty", "arange", "range", "isnan", "issubdtype", "bool", "str", "format", "isscalar",
           "interp", "where", "digitize", "shape", "size", "index"}
DIFFS = {"diff", "ediff1d"}
INEXACT = {"mean", "average", "median", "std", "var", "sqrt", "log", "exp", "log10", "sin", "cos", "power",
           "divide", "true_divide", "floor_divide", "mod", "fmod", "remainder", "multiply", "linspace", "polyfit"}
UNORDERED = "U"


def is_tuple(v):
    return isinstance(v, tuple) and v and v[0] == "T"


def flat(v):
    if is_tuple(v):
        return max([flat(x) for x in v[1]] or [NONE])
    if isinstance(v, tuple) and v and v[0] == UNORDERED:
        return v[1]
    return v


def join(a, b):
    if a == b:
        return a
    if a == NONE:
        return b
    if b == NONE:
        return a
    if is_tuple(a) and is_tuple(b) and len(a[1]) == len(b[1]):
        return ("T", tuple(join(x, y) for x, y in zip(a[1], b[1])))
    return max(flat(a), flat(b))


def show(v):
    if is_tuple(v):
        return "(%s)" % ", ".join(show(x) for x in v[1])
    if isinstance(v, tuple) and v and v[0] == UNORDERED:
        return "unordered{%s}" % NAMES[v[1]]
    return NAMES.get(v, str(v))


class Analyzer:
    def __init__(self, ctx, chk):
        self.ctx = ctx
        self.chk = chk
        self.memo = {}
        self.findings = {}
        self.in_progress = set()
        self.n_functions = 0
        self.n_seeds = 0
        self.taint_origins = []

    # ------------------------------------------------------------ functions
    def analyze(self, f, param_states):
        key = (f.fq, param_states)
        if key in self.memo:
            return self.memo[key]
        if key in self.in_progress:
            return NONE
        self.in_progress.add(key)
        self.n_functions += 1
        flow = Flow.of(f)
        cfg = flow.cfg
        env0 = dict(zip(f.params, param_states))
        # seeds from SQL bindings
        seeds = {}
        for b in bindings(self.ctx, f):
            for i, nm in enumerate(b.names):
                if nm is None:
                    continue
                st = sql_time_state(b.site.stmt.columns[i][0])
                if st != NONE:
                    seeds[(id(b.stmt), nm)] = st
                    self.n_seeds += 1
        IN = {n: None for n in cfg.nodes()}
        IN[ENTRY] = env0
        OUT = {}
        ret = NONE
        work = [ENTRY]
        iters = 0
        while work and iters < 4000:
            iters += 1
            n = work.pop(0)
            env = dict(IN[n] or {})
            st = cfg.stmt_of.get(n)
            if st is not None:
                r = self.transfer(f, flow, n, st, env, seeds)
                if r is not None:
                    ret = join(ret, r)
            if OUT.get(n) != env:
                OUT[n] = env
                for s in cfg.succ[n]:
                    new = dict(IN[s]) if IN[s] is not None else None
                    if new is None:
                        new = dict(env)
                    else:
                        for k, v in env.items():
                            new[k] = join(new.get(k, NONE), v) if k in new else v
                    if new != IN[s]:
                        IN[s] = new
                        if s not in work:
                            work.append(s)
        self.in_progress.discard(key)
        self.memo[key] = ret
        return ret

    def flag(self, f, node, rule, found, required, key, why):
        k = (rule, key)
        if k not in self.findings:
            self.findings[k] = (f, node, found, required, why)

    # ------------------------------------------------------------ statements
    def transfer(self, f, flow, n, st, env, seeds):
        kind = flow.cfg.kind[n]
        ev = lambda e: self.eval(f, e, env)
        if kind in ("if",) or (kind == "loop" and isinstance(st, ast.While)):
            v = ev(st.test)
            if flat(v) == TAINT:
                self.sink(f, st.test, "branch test", env)
            return None
        if kind == "loop" and isinstance(st, ast.For):
            v = ev(st.iter)
            self.check_unordered(f, st.iter, v)
            self.bind(st.target, self.elem(v), env)
            return None
        if kind == "with":
            for it in st.items:
                v = ev(it.context_expr)
                if it.optional_vars is not None:
                    self.bind(it.optional_vars, v, env)
            return None
        if isinstance(st, ast.Assign):
            v = ev(st.value)
            for t in st.targets:
                self.bind(t, v, env, seeds, st)
                # D[k] = v with k an absolute epoch: D is keyed by absolute time (what `.items()` / iteration yields)
                if isinstance(t, ast.Subscript) and isinstance(t.value, ast.Name) and not isinstance(t.slice, ast.Slice):
                    kv = flat(ev(t.slice))
                    if kv >= ABS and kv != TAINT:
                        env[t.value.id] = join(env.get(t.value.id, NONE), kv)
            return None
        if isinstance(st, ast.AugAssign):
            fake = ast.BinOp(left=_load(st.target), op=st.op, right=st.value)
            v = self.eval(f, fake, env, anchor=st)
            self.bind(st.target, v, env)
            return None
        if isinstance(st, ast.AnnAssign) and st.value is not None:
            self.bind(st.target, ev(st.value), env)
            return None
        if isinstance(st, ast.Return):
            return ev(st.value) if st.value is not None else NONE
        if isinstance(st, ast.Expr):
            v = ev(st.value)
            # x.append(v) / x.extend(v) / x.add(v)
            c = st.value
            if isinstance(c, ast.Call) and isinstance(c.func, ast.Attribute) and c.func.attr in ("append", "extend", "add", "insert") \
                    and isinstance(c.func.value, ast.Name) and c.args:
                item = ev(c.args[-1])
                nm = c.func.value.id
                env[nm] = join(env.get(nm, NONE), item) if env.get(nm, NONE) != NONE or nm in env else item
            elif isinstance(c, ast.Call) and isinstance(c.func, ast.Attribute) and c.func.attr in ("append", "extend", "add", "insert") \
                    and isinstance(c.func.value, ast.Subscript) and isinstance(c.func.value.value, ast.Name) and c.args:
                # D[k].append(v): D holds v, and is keyed by k
                nm = c.func.value.value.id
                kv = flat(ev(c.func.value.slice)) if not isinstance(c.func.value.slice, ast.Slice) else NONE
                item = flat(ev(c.args[-1]))
                for x in (kv, item):
                    if x >= ABS:
                        env[nm] = join(env.get(nm, NONE), x)
            if isinstance(c, ast.Yield) or isinstance(c, ast.YieldFrom):
                return ev(c.value) if c.value is not None else NONE
            return None
        if isinstance(st, ast.Assert):
            v = ev(st.test)
            if flat(v) == TAINT:
                self.sink(f, st.test, "assertion", env)
            return None
        if isinstance(st, ast.Delete):
            return None
        if isinstance(st, (ast.FunctionDef, ast.ClassDef, ast.Import, ast.ImportFrom, ast.Pass, ast.Raise, ast.Break, ast.Continue, ast.Global)):
            if isinstance(st, ast.Raise) and st.exc is not None:
                ev(st.exc)
            return None
        return None

    def bind(self, target, v, env, seeds=None, stmt=None):
        if isinstance(target, ast.Name):
            if seeds and stmt is not None and (id(stmt), target.id) in seeds:
                v = join(v, seeds[(id(stmt), target.id)]) if flat(v) != NONE else seeds[(id(stmt), target.id)]
            env[target.id] = v
        elif isinstance(target, (ast.Tuple, ast.List)):
            if is_tuple(v) and len(v[1]) == len(target.elts):
                for t, x in zip(target.elts, v[1]):
                    self.bind(t, x, env, seeds, stmt)
            else:
                for t in target.elts:
                    self.bind(t, flat(v) if not (seeds and stmt is not None) else self._seeded(t, v, seeds, stmt), env, seeds, stmt)
        elif isinstance(target, ast.Subscript) and isinstance(target.value, ast.Name):
            nm = target.value.id
            env[nm] = join(env.get(nm, NONE), flat(v))
        elif isinstance(target, ast.Starred):
            self.bind(target.value, v, env, seeds, stmt)

    def _seeded(self, t, v, seeds, stmt):
        if isinstance(t, ast.Name) and (id(stmt), t.id) in seeds:
            return seeds[(id(stmt), t.id)]
        # a name bound positionally from an SQL result that is not an epoch column is origin-free
        if isinstance(t, ast.Name) and any(k[0] == id(stmt) for k in seeds):
            return NONE
        return flat(v)

    def elem(self, v):
        """element state of an iterable"""
        if isinstance(v, tuple) and v and v[0] == UNORDERED:
            return v[1]
        return v

    # ------------------------------------------------------------ expressions
    def sink(self, f, node, what, env, detail=""):
        origin = self.taint_origins[0] if self.taint_origins else None
        otxt = ""
        if origin is not None:
            otxt = " (inexact value first produced at line %d: %s)" % (origin[1].lineno, ast.unparse(origin[1])[:70])
        self.flag(f, node, "C07.O1",
                  "%s `%s` uses a value computed from absolute epochs by an inexact operation%s" % (what, ast.unparse(node)[:80], otxt),
                  "absolute epochs are differenced (exactly) before any division, scaling or averaging",
                  "%s|%s|taint-sink:%s" % (f.module.relpath, f.qualname, what),
                  "the rounding of epoch / 3600.0 depends on the absolute epoch, so an increment exactly at threshold x step flips with the date")

    def check_unordered(self, f, node, v):
        if isinstance(v, tuple) and v and v[0] == UNORDERED and v[1] >= ABS:
            self.flag(f, node, "C07.O2", "iteration over an unordered container of absolute epochs: %s" % ast.unparse(node)[:80],
                      "containers keyed by absolute time are sorted before they are iterated",
                      "%s|%s|unordered-iter" % (f.module.relpath, f.qualname),
                      "hash order of integers changes with the time origin, and so would the order of the output")

    def eval(self, f, e, env, anchor=None):
        ev = lambda x: self.eval(f, x, env)
        mod = f.module
        if e is None:
            return NONE
        if isinstance(e, ast.Constant):
            return NONE
        if isinstance(e, ast.Name):
            return env.get(e.id, NONE)
        if isinstance(e, ast.Attribute):
            return flat(ev(e.value)) if not isinstance(e.value, ast.Name) or e.value.id in env else NONE
        if isinstance(e, ast.Tuple):
            return ("T", tuple(ev(x) for x in e.elts))
        if isinstance(e, ast.List):
            v = NONE
            for x in e.elts:
                v = join(v, ev(x)) if v != NONE else ev(x)
            return v
        if isinstance(e, ast.Set):
            v = max([flat(ev(x)) for x in e.elts] or [NONE])
            return (UNORDERED, v) if v >= ABS else v
        if isinstance(e, ast.Dict):
            kv = max([flat(ev(k)) for k in e.keys if k is not None] or [NONE])
            for x in e.values:
                ev(x)
            return (UNORDERED, kv) if kv >= ABS else NONE
        if isinstance(e, ast.Starred):
            return ev(e.value)
        if isinstance(e, ast.Subscript):
            base = ev(e.value)
            if not isinstance(e.slice, ast.Slice):
                iv = ev(e.slice)
                if flat(iv) == TAINT:
                    self.sink(f, e.slice, "subscript", env)
            else:
                for part in (e.slice.lower, e.slice.upper, e.slice.step):
                    if part is not None and flat(ev(part)) == TAINT:
                        self.sink(f, part, "slice bound", env)
            if is_tuple(base):
                if isinstance(e.slice, ast.Constant) and isinstance(e.slice.value, int) and -len(base[1]) <= e.slice.value < len(base[1]):
                    return base[1][e.slice.value]
                return flat(base)
            return self.elem(base) if not isinstance(base, tuple) else flat(base)
        if isinstance(e, ast.UnaryOp):
            v = ev(e.operand)
            if isinstance(e.op, ast.Not):
                if flat(v) == TAINT:
                    self.sink(f, e.operand, "boolean test", env)
                return NONE
            return flat(v)
        if isinstance(e, ast.BoolOp):
            for x in e.values:
                if flat(ev(x)) == TAINT:
                    self.sink(f, x, "boolean test", env)
            return NONE
        if isinstance(e, ast.IfExp):
            if flat(ev(e.test)) == TAINT:
                self.sink(f, e.test, "conditional test", env)
            return join(ev(e.body), ev(e.orelse))
        if isinstance(e, ast.Compare):
            vals = [flat(ev(e.left))] + [flat(ev(c)) for c in e.comparators]
            if TAINT in vals:
                self.sink(f, e, "comparison", env)
            return NONE
        if isinstance(e, ast.BinOp):
            a, b = flat(ev(e.left)), flat(ev(e.right))
            if TAINT in (a, b):
                return TAINT
            op = type(e.op)
            if op is ast.Sub:
                if a == ABS and b == ABS:
                    return NONE
                return max(a, b)
            if op is ast.Add:
                return max(a, b)
            if op is ast.Mult:
                if ABS in (a, b):
                    other = e.right if a == ABS else e.left
                    if a == ABS and b == ABS:
                        return self.taint(f, anchor or e)
                    if isinstance(other, ast.Constant) and isinstance(other.value, int):
                        return ABS
                    return self.taint(f, anchor or e)
                return NONE
            if op in (ast.Div, ast.FloorDiv, ast.Mod, ast.Pow, ast.MatMult):
                if ABS in (a, b):
                    return self.taint(f, anchor or e)
                return NONE
            if op in (ast.BitAnd, ast.BitOr, ast.BitXor):
                return NONE
            return max(a, b)
        if isinstance(e, (ast.ListComp, ast.GeneratorExp, ast.SetComp, ast.DictComp)):
            env2 = dict(env)
            for g in e.generators:
                itv = self.eval(f, g.iter, env2)
                self.check_unordered(f, g.iter, itv)
                self.bind(g.target, self.elem(itv), env2)
                for c in g.ifs:
                    if flat(self.eval(f, c, env2)) == TAINT:
                        self.sink(f, c, "filter", env2)
            if isinstance(e, ast.DictComp):
                kv = flat(self.eval(f, e.key, env2))
                self.eval(f, e.value, env2)
                return (UNORDERED, kv) if kv >= ABS else NONE
            v = self.eval(f, e.elt, env2)
            if isinstance(e, ast.SetComp):
                return (UNORDERED, flat(v)) if flat(v) >= ABS else flat(v)
            return v
        if isinstance(e, ast.Lambda):
            return NONE
        if isinstance(e, ast.JoinedStr):
            return NONE
        if isinstance(e, ast.Call):
            return self.call(f, e, env)
        if isinstance(e, (ast.Yield, ast.YieldFrom)):
            return ev(e.value) if e.value is not None else NONE
        return NONE

    def taint(self, f, node):
        if not self.taint_origins:
            self.taint_origins.append((f, node))
        return TAINT

    def call(self, f, e, env):
        ev = lambda x: self.eval(f, x, env)
        mod = f.module
        fn = full_call_name(mod, e) or ""
        last = fn.split(".")[-1] if fn else (e.func.attr if isinstance(e.func, ast.Attribute) else "")
        args = [ev(a) for a in e.args]
        kwargs = {k.arg: ev(k.value) for k in e.keywords}
        recv = ev(e.func.value) if isinstance(e.func, ast.Attribute) and not (fn and mod.aliases.get(fn.split(".")[0])) else None
        if isinstance(e.func, ast.Attribute) and isinstance(e.func.value, ast.Name) and e.func.value.id in mod.aliases:
            recv = None
        allv = [flat(a) for a in args] + [flat(v) for v in kwargs.values()] + ([flat(recv)] if recv is not None else [])
        top = max(allv or [NONE])
        # SQL execute: parameters are a sink
        if last in ("execute", "executemany") and isinstance(e.func, ast.Attribute):
            if len(args) > 1 and flat(args[1]) == TAINT:
                self.sink(f, e.args[1], "SQL parameter", env)
            return NONE
        if last in ("isclose", "allclose") and len(e.args) >= 2:
            # |a - b| <= atol + rtol * |b|: with absolute epochs on both sides the tolerance scales with the date
            a_, b_ = flat(args[0]), flat(args[1])
            rtol = next((k.value for k in e.keywords if k.arg == "rtol"), e.args[2] if len(e.args) > 2 else None)
            rtol_zero = isinstance(rtol, ast.Constant) and rtol.value == 0
            if TAINT in (a_, b_):
                self.sink(f, e, "tolerance comparison", env)
            elif max(a_, b_) >= ABS and not rtol_zero:
                self.flag(f, e, "C07.O1",
                          "tolerance comparison `%s` of absolute epochs: the tolerance is atol + rtol x |epoch|, it grows with the date" % ast.unparse(e)[:80],
                          "absolute epochs are compared exactly (==) or through their difference against a fixed tolerance (rtol = 0)",
                          "%s|%s|relative-tolerance-on-epochs" % (f.module.relpath, f.qualname),
                          "once rtol x epoch exceeds the time step, the neighbouring sample matches too: at 20-minute steps every lookup after 2008 lands one step early, before 2008 it does not")
            return NONE
        if last == "timestamp" and isinstance(e.func, ast.Attribute) and not e.args:
            return ABS
        # spowtd functions: interprocedural
        tg = self.ctx.cg.resolve_callee(f, e.func)
        tg = [t for t in tg if t in self.ctx.cg.by_fq]
        if len(tg) == 1:
            callee = self.ctx.cg.func(tg[0])
            params = callee.params
            off = 1 if callee.cls is not None and params and params[0] in ("self", "cls") else 0
            st = [NONE] * len(params)
            for i, a in enumerate(args):
                if i + off < len(params):
                    st[i + off] = a
            for k, v in kwargs.items():
                if k in params:
                    st[params.index(k)] = v
            return self.analyze(callee, tuple(st))
        if last in ("list", "tuple", "iter", "reversed") and len(args) == 1 and recv is None and is_tuple(args[0]):
            return args[0]          # a container of structured elements keeps the structure
        if last in ("zip",):
            return ("T", tuple(self.elem(a) for a in args)) if args and not any(isinstance(x, ast.Starred) for x in e.args) else max([flat(a) for a in args] or [NONE])
        if last == "enumerate" and args:
            return ("T", (NONE, self.elem(args[0])))
        if last in ("items",) and recv is not None:
            return ("T", (flat(recv), NONE)) if not is_tuple(recv) else recv
        if last in ("keys",) and recv is not None:
            return recv
        if last in ("pop", "popitem") and recv is not None and isinstance(recv, tuple) and recv and recv[0] == UNORDERED and recv[1] >= ABS and not args:
            # set.pop() / dict.popitem(): an arbitrary element -- arbitrary means "first in hash order"
            self.flag(f, e, "C07.O2", "an element is taken from an unordered container of absolute epochs: %s" % ast.unparse(e)[:80],
                      "the order in which elements keyed by absolute time are taken does not depend on their values (indices, or sorted first)",
                      "%s|%s|unordered-pop" % (f.module.relpath, f.qualname),
                      "which element `pop()` returns follows the hash order of the epochs, which changes with the time origin: where the arbitration has a tie the storm that proposes first keeps the rise, so a shifted record is matched differently")
            return recv[1]
        if last in ("values",):
            return NONE
        if last in ("set", "frozenset", "dict"):
            return (UNORDERED, top) if top >= ABS else top
        if last in ("sorted",):
            a0 = args[0] if args else NONE
            return self.elem(a0) if isinstance(a0, tuple) and a0 and a0[0] == UNORDERED else a0
        if top == TAINT:
            return TAINT
        if last in DIFFS:
            return NONE
        if last in TO_NONE:
            return NONE
        if last == "concatenate" and args:
            return flat(args[0])
        if last in PRESERVE:
            if recv is not None and not args:
                return recv if not is_tuple(recv) else flat(recv)
            return args[0] if len(args) >= 1 and not is_tuple(args[0]) else top
        if last in INEXACT and top == ABS:
            return self.taint(f, e)
        if last in ("fetchall", "fetchone", "fetchmany", "cursor", "close", "commit", "info", "debug", "warning"):
            return NONE
        return top if top != NONE else NONE


def _load(t):
    import copy
    n = copy.copy(t)
    if hasattr(n, "ctx"):
        n.ctx = ast.Load()
    return n


def sql_time_state(e):
    """Time-origin state of an SQL expression."""
    k = e[0]
    if k == "col":
        return ABS if e[2].endswith("epoch") else NONE
    if k in ("num", "str", "null", "bool", "param", "star"):
        return NONE
    if k == "cast":
        return sql_time_state(e[1])
    if k == "un":
        return sql_time_state(e[2])
    if k == "call":
        vals = [sql_time_state(a) for a in e[2]]
        top = max(vals or [NONE])
        if e[1] in ("MIN", "MAX"):
            return top
        if e[1] in ("COUNT",):
            return NONE
        if e[1] in ("AVG", "SUM", "TOTAL") and top == ABS:
            return TAINT
        return top
    if k == "bin":
        a, b = sql_time_state(e[2]), sql_time_state(e[3])
        if TAINT in (a, b):
            return TAINT
        op = e[1]
        if op == "-":
            return NONE if (a == ABS and b == ABS) else max(a, b)
        if op == "+":
            return max(a, b)
        if op in ("*", "/", "%"):
            if ABS in (a, b):
                return TAINT
            return NONE
        return NONE  # comparisons and boolean connectives
    if k in ("exists", "subq", "inlist"):
        return NONE
    return NONE


def run(ctx, chk, tier="quick"):
    chk.explanation = (
        "Forward dataflow over a three-point time-origin lattice (origin-free < absolute epoch < "
        "inexactly transformed absolute epoch) with tuple structure, seeded at every SQL result "
        "column whose lineage is an epoch column and at .timestamp() results, interprocedural "
        "through the resolved call graph, in load / classify / rise / recession / fit_offsets / "
        "regrid / zeta_grid.  Sinks: comparisons, branch tests, subscripts, SQL parameters.  Plus "
        "the same lattice over every SQL expression of the schema's views and the embedded "
        "statements, and a check that unordered containers of epochs are sorted before iteration."
    )
    chk.assumptions = ["epochs are integers below 2^53: int<->float64 conversion, +, - and comparisons are exact",
                       "floating-point operations on origin-free values are identical in shifted runs"]
    from .c11 import shifted_truncations
    shifted_truncations(ctx, chk, "C07.O1", ("load", "classify", "rise", "recession"), "origin")
    an = Analyzer(ctx, chk)
    analysed = 0
    # the modules named above, plus any module of the package that they import (a helper moved out of them)
    scope = list(SCOPE)
    for name in list(scope):
        m_ = ctx.repo.modules.get(name)
        for tgt in (m_.aliases.values() if m_ is not None else ()):
            parts = tgt.split(".")
            if len(parts) >= 2 and parts[0] == "spowtd" and parts[1] in ctx.repo.modules and parts[1] not in scope \
                    and parts[1] not in ("spline", "specific_yield", "transmissivity", "pestfiles", "user_interface", "simulate_rise", "simulate_recession"):
                scope.append(parts[1])
    for name in scope:
        if name not in ctx.repo.modules:
            chk.indeterminate("C07.O1", ("spowtd/%s.py" % name, "<module>", 0), "module missing")
            continue
        m = ctx.repo.modules[name]
        for q, f in sorted(m.functions.items()):
            if ".<locals>." in q:
                continue
            an.taint_origins = []
            an.analyze(f, tuple([NONE] * len(f.params)))
            analysed += 1
    for (rule, key), (f, node, found, required, why) in sorted(an.findings.items(), key=lambda kv: kv[0]):
        chk.ob(rule, False, where_of(f, node), found, required, key=key, why=why)
    chk.count("functions_analysed", an.n_functions)
    chk.count("epoch_seeds", an.n_seeds)
    # non-vacuity: the epoch sources are what matters (floors on the seeds and the SQL expressions below);
    # the number of functions changes with every extraction / inlining and is only reported
    chk.floor("functions analysed in the time-origin scope", analysed, 20)
    chk.floor("SQL result names seeded as absolute epochs", an.n_seeds, 8)
    if not an.findings:
        chk.ob("C07.O1", True, ("spowtd/classify.py", "<scope>", 0),
               "%d function contexts analysed, %d epoch seeds: no inexactly transformed absolute epoch reaches a comparison, branch, subscript or SQL parameter"
               % (an.n_functions, an.n_seeds), "absolute epochs are differenced before any inexact operation", key="scope|no-taint-sink")
        chk.ob("C07.O2", True, ("spowtd/classify.py", "<scope>", 0), "no iteration over an unordered container of absolute epochs",
               "sorted before iteration", key="scope|no-unordered-iter")
    # ---- O3: SQL expressions
    n_sql = 0
    bad = 0
    stmts = []
    for v in ctx.schema.views.values():
        stmts.append(("spowtd/schema.sql", "view " + v.name, 0, v.select))
    for s in ctx.sites:
        if s.func.module.name in SCOPE + ["simulate_recession", "simulate_rise", "pestfiles"] and s.sql_text is not None:
            for st in s.statements:
                stmts.append((s.func.module.relpath, s.func.qualname, s.line, st))
    for rel, fn, line, st in stmts:
        for ex in _all_exprs(st):
            n_sql += 1
            if sql_time_state(ex) == TAINT:
                bad += 1
                from ..sqlmodel import expr_str
                chk.ob("C07.O3", False, (rel, fn, line), "SQL expression %s scales or averages a bare epoch column" % expr_str(ex)[:100],
                       "only +/- and differences of epoch columns", key="%s|%s|sql-taint" % (rel, fn),
                       why="the rounding of a scaled absolute epoch depends on the date")
    if not bad:
        chk.ob("C07.O3", True, ("spowtd/schema.sql", "<all SQL>", 0), "%d SQL expressions: none scales or averages a bare epoch column" % n_sql,
               "only +/- and differences of epoch columns", key="sql|no-taint")
    chk.floor("SQL expressions examined", n_sql, 60)


def _all_exprs(st):
    out = []
    if st.kind == "select":
        for e in select_exprs(st):
            out.append(e)
            for sub in subselects_of_expr(e):
                out += _all_exprs(sub)
        for _, c in st.ctes:
            out += _all_exprs(c)
        for src in st.sources:
            if src.subq is not None:
                out += _all_exprs(src.subq)
    elif st.kind == "insert":
        if st.select is not None:
            out += _all_exprs(st.select)
        out += list(st.values or [])
    elif st.kind == "update":
        out += [e for _, e in st.sets]
        if st.where is not None:
            out.append(st.where)
    elif st.kind == "create_view":
        out += _all_exprs(st.select)
    return out
