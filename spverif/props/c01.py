"""C01 -- classification completes and pairs storms with rises one-to-one.

 O1 container API: every method called on a local of one builtin
    container type exists on that type (classify.py)
 O2 one-past-the-end stop indices are used as subscripts only under a
    guard that compares them with the array length
 O3 run numbering sees a run that starts at index 0 (first elements of
    the start-marker vector, symbolically)
 O4 uniqueness has a static guarantee on each side; who-may-write
 O5 recorded pairs come from the candidate (overlap) relation
 O6 CLI wiring of -s / -j
 O7 the increment threshold of match_storms is the rate threshold of
    classify_interstorms x the step in hours (rises and interstorm
    intervals share the primary key of zeta_interval)
"""

import ast

from .. import apires
from ..classfacts import candidate_kinds, pair_flow, threshold_roles
from ..cli import args_attr, task_options
from ..flow import Flow
from ..norm import NotAlgebraic, Poly, py_poly
from ..report import where_of
from ..source import AnalysisError, dotted_name, enclosing_func, enclosing_stmt, is_ancestor
from .c12 import full_call_name
from .c20 import dispatch_branches


def run(ctx, chk, tier="quick"):
    chk.explanation = (
        "Container-method resolution for locals of statically known builtin type; affine index kinds of "
        "run stops and the guards under which they are used as subscripts; symbolic first elements of "
        "the run-start marker; disjunction of static uniqueness guarantees (schema PK/UNIQUE, in-code "
        "assertions, dict keyed by the side) and who-may-write of the pairing tables; def-use of the "
        "matched pair from the proposer's own candidate list and alignment of the overlap relation; "
        "CLI option wiring."
    )
    chk.assumptions = ["SQLite enforces PRIMARY KEY / UNIQUE whatever the foreign_keys pragma",
                       "totality in general (numeric exceptions, degenerate one-sample stretches) is not decided"]
    from .c04 import extra_threshold_arguments
    extra_threshold_arguments(ctx, chk, "C01.O7")
    from ..sqlrules import conflict_clauses as _conflict_clauses
    _conflict_clauses(ctx, chk, "C01.O4", ("classify",), "classify", 'the key collision that refuses a second pairing for the same storm or rise (and a second classification of the same file) is resolved silently: rows of an earlier run stay beside the new ones')
    mod = ctx.repo.module("classify")
    # ------------------------------------------------------------ O1
    n_sites = 0
    for q, f in sorted(mod.functions.items()):
        for call, var, typ, meth, exists in apires.container_method_sites(f):
            n_sites += 1
            chk.ob("C01.O1", exists, where_of(f, call), "%s.%s() on a local bound only to %s values" % (var, meth, typ.__name__),
                   "a method of %s" % typ.__name__, key="%s|container|%s.%s" % (f.qualname, var, meth),
                   why="a missing method raises AttributeError on the path that reaches it (a rejected storm that still has candidates)")
    chk.floor("container method calls resolved in classify.py", n_sites, 8)

    # ------------------------------------------------------------ O2
    try:
        kinds = candidate_kinds(ctx)
        names, _ = pair_flow(ctx)
    except AnalysisError as exc:
        chk.indeterminate("C01.O2", ("spowtd/classify.py", "<module>", 0), str(exc))
        kinds = names = None
    n_subs = 0
    if kinds is not None:
        gc = kinds["func"]
        gflow = Flow.of(gc)
        rets = kinds["return"].value
        local_names = {
            rets.elts[kinds["pos_rain"]].elts[1].id: kinds["rain"][1],
            rets.elts[kinds["pos_jump"]].elts[1].id: kinds["jump"][1],
        }
        mas = ctx.func("classify.match_all_storms")
        scopes = [(gc, local_names), (mas, {names["rain"][1]: kinds["rain"][1], names["jump"][1]: kinds["jump"][1]})]
        for f, stopnames in scopes:
            for n in ast.walk(f.node):
                if not isinstance(n, ast.Subscript) or isinstance(n.slice, ast.Slice) or enclosing_func(n) is not f.node:
                    continue
                if _in_assert_message(n) or _in_format_arg_of_assert(n):
                    continue
                try:
                    idx = py_poly(n.slice)
                except NotAlgebraic:
                    continue
                used = [a for a in idx.atoms() if a in stopnames]
                if len(used) != 1 or idx.coeff_of_atom(used[0]) != Poly.const(1):
                    continue
                rest = idx.without_atom(used[0])
                if not rest.is_const():
                    continue
                k = stopnames[used[0]]
                total = k.off + int(rest.const_value())
                safe_max = 0 if k.mask == "rain" else 1
                n_subs += 1
                arr = ast.unparse(n.value)
                if total <= safe_max:
                    chk.ob("C01.O2", True, where_of(f, n), "%s[%s]: index L(%s)%+d is always inside the array" % (arr, ast.unparse(n.slice), k.mask, total),
                           "subscript within range", key="%s|subscript|%s[%s]" % (f.qualname, arr, ast.unparse(n.slice)))
                    continue
                guarded = _guarded(n, used[0], f)
                chk.ob("C01.O2", guarded, where_of(f, n),
                       "%s[%s]: index L(%s)%+d equals len(%s) when the run reaches the end of the stretch; %s"
                       % (arr, ast.unparse(n.slice), k.mask, total, arr, "guarded by a length test" if guarded else "no guard compares it with the length"),
                       "a one-past-the-end stop is subscripted only behind `stop == len(a) or ...` (or an equivalent test)",
                       key="%s|subscript|%s[%s]" % (f.qualname, arr, ast.unparse(n.slice)),
                       why="a storm or rise that touches the last sample of a gap-free stretch raises IndexError")
        chk.floor("subscripts by a run stop examined", n_subs, 4)

    # ------------------------------------------------------------ O2 (completion): no unpacking along a data-dependent axis
    _unpack_along_data_axis(ctx, chk)
    # ... and classification runs once per data interval that has grid times, not once per conceivable label
    from .c03 import data_interval_loop
    data_interval_loop(ctx, chk, "C01.O2")

    # ------------------------------------------------------------ O3
    _run_start_marker(ctx, chk)

    # ------------------------------------------------------------ O4
    _uniqueness(ctx, chk)

    # ------------------------------------------------------------ O5
    _candidate_defuse(ctx, chk)

    # ------------------------------------------------------------ O7
    # match_storms works on increments, classify_interstorms on rates: both mean the same jump only if the increment
    # threshold is the rate threshold x the step in hours.  With another factor a rise can start on samples already
    # recorded as an interstorm interval, and the second INSERT INTO zeta_interval hits the primary key.
    from .c03 import jump_delta_obligation
    try:
        jump_delta_obligation(ctx, chk, "C01.O7", "a rise and an interstorm interval that share a start sample collide on the primary key of zeta_interval and classification stops with an IntegrityError")
    except AnalysisError as exc:
        chk.indeterminate("C01.O7", ("spowtd/classify.py", "match_all_storms", 0), str(exc))
    # ------------------------------------------------------------ O6
    disp, branches = dispatch_branches(ctx)
    opts = task_options(ctx).get("classify", [])
    br = branches.get("classify")
    ci = ctx.func("classify.classify_intervals")
    if br is None:
        chk.indeterminate("C01.O6", where_of(disp, disp.node), "dispatch branch for classify not found")
    else:
        from ..cli import entry_binding
        bind, c = entry_binding(ctx, disp, br, ci)
        if bind is None:
            chk.indeterminate("C01.O6", where_of(disp, br), "call of classify_intervals not found in the dispatch")
        elif not opts:
            chk.indeterminate("C01.O6", where_of(disp, br), "the options of the classify parser could not be enumerated")
        else:
            for pname, flag, role in ((ci.params[1], "-s", "storm"), (ci.params[2], "-j", "jump")):
                v = bind.get(pname)
                dest = args_attr(v) if v is not None else None
                o = [x for x in opts if x.dest == dest]
                ok = bool(o) and flag in o[0].flags and ast.unparse(o[0].kw.get("type", ast.Constant(None))) == "float"
                chk.ob("C01.O6", ok, where_of(disp, c), "%s = %s; option %s" % (pname, ast.unparse(v) if v is not None else "default", o[0] if o else "missing"),
                       "%s (float) reaches the %s threshold parameter" % (flag, role), key="cli|classify|%s" % flag,
                       why="swapped or unwired thresholds classify with the wrong numbers while --help still works")


def _in_assert_message(node):
    n = node
    while n is not None:
        p = getattr(n, "parent", None)
        if isinstance(p, ast.Assert) and p.msg is n:
            return True
        n = p
    return False


def _in_format_arg_of_assert(node):
    return False


def _guarded(sub, name, f):
    """Is the subscript evaluated only when `name` differs from / is below the array length?"""
    n = sub
    while n is not None and n is not f.node:
        p = getattr(n, "parent", None)
        if isinstance(p, ast.BoolOp):
            idx = p.values.index(n) if n in p.values else -1
            for earlier in p.values[:idx]:
                g = _length_test(earlier, name)
                if isinstance(p.op, ast.Or) and g == "at-end":
                    return True
                if isinstance(p.op, ast.And) and g == "inside":
                    return True
        if isinstance(p, ast.IfExp) and (p.body is n or p.orelse is n):
            g = _length_test(p.test, name)
            if (p.body is n and g == "inside") or (p.orelse is n and g == "at-end"):
                return True
        if isinstance(p, ast.If) and not (n is p.test):
            g = _length_test(p.test, name)
            if (n in p.body and g == "inside") or (n in p.orelse and g == "at-end"):
                return True
        n = p
    return False


def _length_test(e, name):
    """'at-end' if e is true exactly when name >= len(..); 'inside' if true when name < len(..)."""
    neg = False
    while isinstance(e, ast.UnaryOp) and isinstance(e.op, ast.Not):
        neg = not neg
        e = e.operand
    if isinstance(e, ast.Compare) and len(e.ops) == 1:
        l, r, op = e.left, e.comparators[0], type(e.ops[0])

        def is_len(x):
            return (isinstance(x, ast.Call) and isinstance(x.func, ast.Name) and x.func.id == "len") or \
                (isinstance(x, ast.Attribute) and x.attr == "size") or \
                (isinstance(x, ast.Subscript) and isinstance(x.value, ast.Attribute) and x.value.attr == "shape")

        if is_len(l) and isinstance(r, ast.Name):
            l, r = r, l
            op = {ast.Lt: ast.Gt, ast.Gt: ast.Lt, ast.LtE: ast.GtE, ast.GtE: ast.LtE}.get(op, op)
        if isinstance(l, ast.Name) and l.id == name and is_len(r):
            res = None
            if op in (ast.Eq, ast.GtE):
                res = "at-end"
            elif op in (ast.NotEq, ast.Lt):
                res = "inside"
            if res and neg:
                res = "inside" if res == "at-end" else "at-end"
            return res
    return None


# ---------------------------------------------------------------- O3
def _data_axis_unpack(flow, st):
    """`a, b = X.T` / `a, b = zip(*L)` where X / L has one entry per data item (a comprehension, an appended list,
    np.array of one): the number of values to unpack is len(data) along the unpacked axis when the data are empty.
    -> (description, source node) or None."""
    if not (isinstance(st, ast.Assign) and len(st.targets) == 1 and isinstance(st.targets[0], (ast.Tuple, ast.List)) and len(st.targets[0].elts) >= 2):
        return None
    v = st.value
    while isinstance(v, ast.Call) and isinstance(v.func, ast.Name) and v.func.id in ("list", "tuple") and len(v.args) == 1:
        v = v.args[0]

    def per_item(e, depth=0):
        """A sequence with one entry per data item, whose entries are tuples / rows."""
        if depth > 4 or e is None:
            return None
        if isinstance(e, (ast.ListComp, ast.GeneratorExp)) and isinstance(e.elt, (ast.Tuple, ast.List)):
            return e
        if isinstance(e, ast.Call) and e.args and (dotted_name(e.func) or "").split(".")[-1] in ("array", "asarray", "list", "tuple", "sorted"):
            return per_item(e.args[0], depth + 1)
        if isinstance(e, ast.Name):
            dv = flow.def_value(e, mutable_ok=True)
            if isinstance(dv, ast.List) and not dv.elts:
                return e          # L = [] ; L.append((..)) in a loop
            return per_item(dv, depth + 1)
        return None

    if isinstance(v, ast.Attribute) and v.attr == "T":
        src = per_item(v.value)
        if src is not None:
            return "%s = (array with one row per item of %s).T" % (ast.unparse(st.targets[0]), ast.unparse(src)[:50]), v.value
    if isinstance(v, ast.Call) and (dotted_name(v.func) or "").split(".")[-1] == "transpose" and v.args:
        src = per_item(v.args[0])
        if src is not None:
            return "%s = transpose(array with one row per item of %s)" % (ast.unparse(st.targets[0]), ast.unparse(src)[:50]), v.args[0]
    if isinstance(v, ast.Call) and isinstance(v.func, ast.Name) and v.func.id == "zip" and len(v.args) == 1 and isinstance(v.args[0], ast.Starred):
        src = per_item(v.args[0].value)
        if src is not None:
            return "%s = zip(*%s)" % (ast.unparse(st.targets[0]), ast.unparse(v.args[0].value)[:50]), v.args[0].value
    return None


def _unpack_along_data_axis(ctx, chk):
    """C01.O2: nowhere in the classification call tree is a fixed number of names unpacked from the transposed side of a
    sequence that has one entry per storm / rise / interval -- with no such item the unpacking raises ValueError."""
    from ..guards import guards_of, nonempty_nf
    tree = sorted(ctx.cg.reachable("classify.classify_intervals") | {"classify.classify_intervals"})
    n = 0
    for fq in tree:
        f = ctx.cg.func(fq)
        if f is None or f.module.name != "classify":
            continue
        flow = Flow.of(f)
        for st in ast.walk(f.node):
            hit = _data_axis_unpack(flow, st) if isinstance(st, ast.Assign) else None
            if hit is None:
                continue
            n += 1
            desc, src = hit
            me = flow.cfg.node(st)
            guarded = False
            names = {x.id for x in ast.walk(src) if isinstance(x, ast.Name)}
            for g in guards_of(f, include_assert=True):
                nf = nonempty_nf(g.expr, g.negated)
                # the guard raises when the subject is empty ...
                if nf is not None and nf[1] is False and isinstance(nf[0], ast.Name) and nf[0].id in names and me is not None and flow.cfg.dominates(g.node, me):
                    guarded = True
            for iff in ast.walk(f.node):
                # ... or an early exit: if not L: return / continue
                if isinstance(iff, ast.If) and me is not None:
                    nf = nonempty_nf(iff.test)
                    if nf is not None and nf[1] is False and isinstance(nf[0], ast.Name) and nf[0].id in names \
                            and iff.body and isinstance(iff.body[-1], (ast.Return, ast.Continue, ast.Raise)) \
                            and flow.cfg.node(iff) is not None and flow.cfg.dominates(flow.cfg.node(iff), me):
                        guarded = True
            chk.ob("C01.O2", guarded, where_of(f, st), desc + ("" if not guarded else " (behind an emptiness test)"),
                   "no unpacking into a fixed number of names along an axis whose length is the number of data items, unless the empty case is handled first",
                   key="%s|data-axis-unpack|%s" % (f.qualname, ast.unparse(st.targets[0])[:40]),
                   why="with no storm (or rise) in a data interval the sequence is empty: the transposed side has no entries and the unpacking raises ValueError, aborting classification")
    # positive control for the zero-expected rule
    ctl = ast.parse("def f(masks):\n    a, b = np.array([(m[0], m[-1]) for m in masks]).T\n    return a, b\n").body[0]

    class _NoFlow:
        @staticmethod
        def def_value(e, mutable_ok=False):
            return None
    if _data_axis_unpack(_NoFlow, ctl.body[0]) is None:
        chk.errors.append("C01.O2 positive control (data-axis unpack) did not match")
    chk.count("data-axis unpackings in the classification tree", n)


def _run_start_marker(ctx, chk):
    f = ctx.func("classify.get_true_interval_masks")
    flow = Flow.of(f)
    mod = f.module
    bv = f.params[0]
    # the cumsum argument is the start marker
    cs = [c for c in ast.walk(f.node) if isinstance(c, ast.Call) and (full_call_name(mod, c) or "").endswith("cumsum")]
    if len(cs) != 1:
        chk.indeterminate("C01.O3", where_of(f, f.node), "cumulative sum over the start marker not found")
        return
    arg = cs[0].args[0] if cs[0].args else (cs[0].func.value if isinstance(cs[0].func, ast.Attribute) else None)
    ex = flow.expand(arg, keep={bv})
    try:
        elems = _first_elems(mod, ex, bv)
    except ValueError as exc:
        chk.indeterminate("C01.O3", where_of(f, cs[0]), "start marker %s not evaluable: %s" % (ast.unparse(ex)[:80], exc))
        return
    # truth tables over the atoms v0..v3 and vlast (0/1): element i must be 1 exactly when
    # v[i] is True and v[i-1] is False, with v[-1] := False
    import itertools
    atoms = ["v0", "v1", "v2", "v3", "vlast"]
    bad = None
    for vals in itertools.product((0, 1), repeat=len(atoms)):
        env = dict(zip(atoms, vals))
        want = [env["v0"], int(env["v1"] and not env["v0"]), int(env["v2"] and not env["v1"])]
        try:
            got = [int(bool(_eval_elem(e, env))) for e in elems[:3]]
        except ValueError as exc:
            chk.indeterminate("C01.O3", where_of(f, cs[0]), "start marker element not evaluable: %s" % exc)
            return
        # a mark at a False element is harmless (its label is reset to 0 afterwards): only True elements matter
        care = [env["v0"], env["v1"], env["v2"]]
        if any(c and g != w for c, g, w in zip(care, got, want)):
            bad = (env, got, want)
            break
    desc = "[%s]" % ", ".join(_show_elem(e) for e in elems[:3])
    chk.ob("C01.O3", bad is None, where_of(f, cs[0]),
           "start marker elements 0..2 = %s%s" % (desc, "" if bad is None else "; for %s it is %s instead of %s" % (
               {k: v for k, v in bad[0].items()}, bad[1], bad[2])),
           "at every True element: marked iff its predecessor is False or it is element 0 (marks at False elements are reset anyway)",
           key="get_true_interval_masks|start-marker",
           why="with a constant (or wrapped-around) first element a leading True run is numbered 0 = 'not in a run' and the helper's own assertion fires (a record starting in heavy rain)")
    _no_run_label(ctx, chk, f, flow, mod)


def _show_elem(e):
    k = e[0]
    if k == "v":
        return e[1]
    if k == "c":
        return str(e[1])
    if k in ("sub", "add", "and", "or"):
        return "(%s %s %s)" % (_show_elem(e[1]), {"sub": "-", "add": "+", "and": "&", "or": "|"}[k], _show_elem(e[2]))
    if k == "not":
        return "~%s" % _show_elem(e[1])
    if k == "cmp":
        return "(%s %s %s)" % (_show_elem(e[2]), e[1], e[3])
    return str(e)


def _eval_elem(e, env):
    k = e[0]
    if k == "v":
        return env[e[1]]
    if k == "c":
        return e[1]
    if k == "sub":
        return _eval_elem(e[1], env) - _eval_elem(e[2], env)
    if k == "add":
        return _eval_elem(e[1], env) + _eval_elem(e[2], env)
    if k == "and":
        return int(bool(_eval_elem(e[1], env)) and bool(_eval_elem(e[2], env)))
    if k == "or":
        return int(bool(_eval_elem(e[1], env)) or bool(_eval_elem(e[2], env)))
    if k == "not":
        return int(not bool(_eval_elem(e[1], env)))
    if k == "cmp":
        a = _eval_elem(e[2], env)
        return int({">": a > e[3], ">=": a >= e[3], "!=": a != e[3], "==": a == e[3], "<": a < e[3], "<=": a <= e[3]}[e[1]])
    raise ValueError("element %r" % (e,))


def _first_elems(mod, e, bv):
    """Symbolic first elements (expression trees over v0.., vlast) of an array expression."""
    N = 5

    def arr(n):
        if isinstance(n, ast.Name) and n.id == bv:
            return [("v", "v%d" % i) for i in range(N)]
        if isinstance(n, ast.UnaryOp) and isinstance(n.op, (ast.Invert, ast.Not)):
            return [("not", x) for x in arr(n.operand)]
        if isinstance(n, ast.Compare) and len(n.ops) == 1 and isinstance(n.comparators[0], ast.Constant) \
                and isinstance(n.comparators[0].value, (int, float)):
            op = {ast.Gt: ">", ast.GtE: ">=", ast.NotEq: "!=", ast.Eq: "==", ast.Lt: "<", ast.LtE: "<="}.get(type(n.ops[0]))
            if op is None:
                raise ValueError("comparison operator")
            return [("cmp", op, x, n.comparators[0].value) for x in arr(n.left)]
        if isinstance(n, ast.Call):
            fn = full_call_name(mod, n) or ""
            last = fn.split(".")[-1]
            if isinstance(n.func, ast.Attribute) and n.func.attr in ("astype", "copy", "view"):
                return arr(n.func.value)
            if last in ("asarray", "array", "int64", "int_") and n.args:
                return arr(n.args[0])
            if last == "logical_not" and len(n.args) == 1:
                return [("not", x) for x in arr(n.args[0])]
            if last in ("logical_and", "logical_or") and len(n.args) == 2:
                a, b = arr(n.args[0]), arr(n.args[1])
                return [("and" if last == "logical_and" else "or", x, y) for x, y in zip(a, b)]
            if last == "roll" and len(n.args) == 2:
                a = arr(n.args[0])
                k = n.args[1]
                kv = k.value if isinstance(k, ast.Constant) else (-k.operand.value if isinstance(k, ast.UnaryOp) and isinstance(k.operand, ast.Constant) else None)
                if kv == 1:
                    src = n.args[0]
                    if not (isinstance(src, ast.Name) and src.id == bv) and not (isinstance(src, ast.Call)):
                        raise ValueError("roll of a derived array")
                    lastelem = ("v", "vlast")
                    if not (isinstance(src, ast.Name) and src.id == bv):
                        # roll(astype(v)) etc.: the wrapped element is the same function of vlast
                        inner = arr(src)
                        lastelem = _subst_atom(inner[0], "v0", "vlast")
                    return [lastelem] + a[:-1]
                if kv == -1:
                    return a[1:]
                raise ValueError("roll by %s" % ast.unparse(k))
            if last in ("concatenate", "hstack", "append") and n.args:
                parts = n.args[0].elts if last != "append" and isinstance(n.args[0], (ast.Tuple, ast.List)) else list(n.args[:2])
                out = []
                for part in parts:
                    if isinstance(part, (ast.List, ast.Tuple)):
                        for c in part.elts:
                            if isinstance(c, ast.Constant) and isinstance(c.value, (int, bool)):
                                out.append(("c", int(c.value)))
                            elif isinstance(c, ast.UnaryOp) and isinstance(c.op, ast.USub) and isinstance(c.operand, ast.Constant):
                                out.append(("c", -int(c.operand.value)))
                            elif isinstance(c, ast.Subscript):
                                out.append(scalar(c))
                            else:
                                raise ValueError("literal element %s" % ast.unparse(c))
                    elif isinstance(part, ast.Constant) and isinstance(part.value, (int, bool)):
                        out.append(("c", int(part.value)))
                    else:
                        out += arr(part)
                        break
                return out[:N]
            if last == "diff" and n.args:
                kw = {k.arg: k.value for k in n.keywords}
                a = arr(n.args[0])
                if "prepend" in kw:
                    pv = kw["prepend"]
                    if isinstance(pv, ast.Constant):
                        a = [("c", int(pv.value))] + a
                    else:
                        raise ValueError("prepend %s" % ast.unparse(pv))
                return [("sub", a[i + 1], a[i]) for i in range(len(a) - 1)]
            raise ValueError("call %s" % fn)
        if isinstance(n, ast.Subscript) and isinstance(n.slice, ast.Slice):
            a = arr(n.value)
            lo = n.slice.lower
            k = 0
            if lo is not None:
                if isinstance(lo, ast.Constant) and isinstance(lo.value, int) and lo.value >= 0:
                    k = lo.value
                else:
                    raise ValueError("slice lower %s" % ast.unparse(lo))
            if n.slice.step is not None:
                raise ValueError("slice step")
            return a[k:]
        if isinstance(n, ast.BinOp) and isinstance(n.op, (ast.Sub, ast.Add, ast.BitAnd, ast.BitOr)):
            a, b = arr(n.left), arr(n.right)
            tag = {ast.Sub: "sub", ast.Add: "add", ast.BitAnd: "and", ast.BitOr: "or"}[type(n.op)]
            return [(tag, x, y) for x, y in zip(a, b)]
        raise ValueError("expression %s" % ast.unparse(n)[:60])

    def scalar(n):
        if isinstance(n, ast.Subscript) and not isinstance(n.slice, ast.Slice) and isinstance(n.slice, ast.Constant) and n.slice.value >= 0:
            return arr(n.value)[n.slice.value]
        if isinstance(n, ast.Subscript) and ast.unparse(n.slice) == "-1":
            return _subst_atom(arr(n.value)[0], "v0", "vlast")
        raise ValueError("scalar %s" % ast.unparse(n))

    out = arr(e)
    if len(out) < 3:
        raise ValueError("fewer than three leading elements determined")
    return out


def _subst_atom(e, a, b):
    if e == ("v", a):
        return ("v", b)
    if isinstance(e, tuple):
        return tuple(_subst_atom(x, a, b) if isinstance(x, tuple) else x for x in e)
    return e


def _no_run_label(ctx, chk, f, flow, mod):
    """How is the 'not in a run' label (0) kept out of the returned masks?
    By value (set difference / filter) is total; by position (drop the first of the sorted
    labels) silently assumes that some element of the input is False."""
    rets = [n for n in ast.walk(f.node) if isinstance(n, ast.Return) and n.value is not None and enclosing_func(n) is f.node]
    if len(rets) != 1 or not isinstance(rets[0].value, (ast.GeneratorExp, ast.ListComp)):
        chk.indeterminate("C01.O3", where_of(f, f.node), "returned masks are not built by a comprehension over the labels")
        return
    comp = rets[0].value
    it = comp.generators[0].iter
    lab = it.id if isinstance(it, ast.Name) else None
    by_value = False
    positional = []
    # filters in the comprehension itself
    for c in comp.generators[0].ifs:
        t = ast.unparse(c).replace(" ", "")
        if t.endswith("!=0") or t.endswith(">0") or t.endswith(">=1"):
            by_value = True
    if lab:
        for n in ast.walk(f.node):
            # definitions of the label list
            if isinstance(n, ast.Assign) and isinstance(n.targets[0], ast.Name) and n.targets[0].id == lab:
                t = ast.unparse(n.value).replace(" ", "")
                if "-{0}" in t or "!=0" in t or ">0]" in t or ">0)" in t or "discard(0)" in t or ".difference({0})" in t:
                    by_value = True
                if isinstance(n.value, ast.Subscript) and isinstance(n.value.slice, ast.Slice) and ast.unparse(n.value.slice).startswith("1"):
                    positional.append(n)
            if isinstance(n, ast.Delete):
                for tg in n.targets:
                    if isinstance(tg, ast.Subscript) and isinstance(tg.value, ast.Name) and tg.value.id == lab \
                            and isinstance(tg.slice, ast.Constant) and tg.slice.value == 0:
                        positional.append(n)
            if isinstance(n, ast.Call) and isinstance(n.func, ast.Attribute) and n.func.attr in ("pop",) and isinstance(n.func.value, ast.Name) \
                    and n.func.value.id == lab and n.args and isinstance(n.args[0], ast.Constant) and n.args[0].value == 0:
                positional.append(n)
            if isinstance(n, ast.Call) and isinstance(n.func, ast.Attribute) and n.func.attr in ("discard", "remove") and isinstance(n.func.value, ast.Name) \
                    and n.args and isinstance(n.args[0], ast.Constant) and n.args[0].value == 0:
                by_value = True
    # a positional removal is fine if it is conditional on the first label being 0
    uncond = []
    for pnode in positional:
        guarded = False
        a = getattr(pnode, "parent", None)
        while a is not None and a is not f.node:
            if isinstance(a, ast.If) and "[0]==0" in ast.unparse(a.test).replace(" ", ""):
                guarded = True
            a = getattr(a, "parent", None)
        if not guarded:
            uncond.append(pnode)
    ok = by_value or (positional and not uncond)
    if not ok and not positional:
        # labels enumerated from 1 (range(1, n + 1)): the 'no run' label is never among them
        itv = it
        if isinstance(itv, ast.Name):
            itv = Flow.of(f).def_value(itv) or itv
        if isinstance(itv, ast.Call) and isinstance(itv.func, ast.Name) and itv.func.id == "range" and len(itv.args) >= 2 \
                and isinstance(itv.args[0], ast.Constant) and isinstance(itv.args[0].value, int) and itv.args[0].value >= 1:
            chk.ob("C01.O3", True, where_of(f, rets[0]), "labels enumerated by %s: 0 ('not in a run') is never one of them" % ast.unparse(itv)[:60],
                   "removed by value (or only if it is present)", key="get_true_interval_masks|no-run-label")
            return
        # "not at all" is a finding only if the labels are the distinct values of the label array; anything else is not read
        txt_ = ast.unparse(Flow.of(f).expand(it)) if not isinstance(it, ast.Name) or Flow.of(f).def_value(it) is not None else ""
        if not any(k in txt_ for k in ("set(", "unique(")):
            chk.indeterminate("C01.O3", where_of(f, rets[0]), "how the labels iterated by the returned generator (%s) are obtained is not read" % ast.unparse(it)[:60])
            return
    chk.ob("C01.O3", ok, where_of(f, uncond[0] if uncond else rets[0]),
           "label 0 ('not in a run') is removed %s" % ("by value" if by_value else ("by dropping the first sorted label unconditionally: `%s`" % ast.unparse(uncond[0]) if uncond else "not at all")),
           "removed by value (or only if it is present)", key="get_true_interval_masks|no-run-label",
           why="for an input that is True everywhere there is no label 0: the function's assertion fails (a gap-free stretch that is heavy rain at every step)")


# ---------------------------------------------------------------- O4
def _uniqueness(ctx, chk):
    sch = ctx.schema
    ms = ctx.func("classify.match_storms")
    fsm = ctx.func("classify.find_stable_matching")
    tree = ctx.cg.reachable("classify.classify_intervals")
    pair_tab = sch.tables.get("zeta_interval_storm")
    if pair_tab is None:
        chk.indeterminate("C01.O4", ("spowtd/schema.sql", "<schema>", 0), "pairing table zeta_interval_storm missing")
        return
    # assertions in match_storms on len(set(x)) == len(x)
    asserted = set()
    for n in ast.walk(ms.node):
        if isinstance(n, ast.Call) and len(n.args) >= 2:
            txt = [ast.unparse(a) for a in n.args[:2]]
            for a, b in (txt, txt[::-1]):
                if a.startswith("len(set(") and b.startswith("len(") and a[8:-2] == b[4:-1]:
                    asserted.add(b[4:-1])
        if isinstance(n, ast.Assert):
            t = ast.unparse(n.test)
            if "len(set(" in t:
                for nm in ("rain_intervals", "head_intervals"):
                    if nm in t:
                        asserted.add(nm)
    rets = [n for n in ast.walk(ms.node) if isinstance(n, ast.Return) and n.value is not None and enclosing_func(n) is ms.node]
    rnames = [e.id for e in rets[0].value.elts] if rets and isinstance(rets[0].value, ast.Tuple) else [None, None]
    # dict keyed by jump in find_stable_matching
    dict_keyed_by = None
    for n in ast.walk(fsm.node):
        if isinstance(n, ast.Assign) and isinstance(n.targets[0], ast.Subscript) and isinstance(n.targets[0].value, ast.Name) \
                and isinstance(n.targets[0].slice, ast.Name):
            dict_keyed_by = n.targets[0].slice.id
    inserts_entity = {t for s in ctx.sites_in_tree("classify.classify_intervals") if s.stmt is not None and s.stmt.kind == "insert" for t in [s.stmt.table]}
    sides = {
        "storm": {
            "pairing-table key": any(u == ("storm_start_epoch",) for u in sch.unique_sets("zeta_interval_storm")),
            "entity-table key": "storm" in sch.tables and ("start_epoch",) in sch.unique_sets("storm") and "storm" in inserts_entity,
            "assertion on matched list": rnames[0] in asserted,
            "dict keyed by this side": False,
        },
        "rise": {
            "pairing-table key": any(u == ("interval_start_epoch",) for u in sch.unique_sets("zeta_interval_storm")),
            "entity-table key": "zeta_interval" in sch.tables and ("start_epoch",) in sch.unique_sets("zeta_interval") and "zeta_interval" in inserts_entity,
            "assertion on matched list": rnames[1] in asserted,
            "dict keyed by this side": dict_keyed_by == "jump" or dict_keyed_by is not None and "jump" in dict_keyed_by,
        },
    }
    for side, g in sides.items():
        have = [k for k, v in g.items() if v]
        chk.ob("C01.O4", bool(have), ("spowtd/schema.sql", "zeta_interval_storm", 0),
               "%s side: static guarantees present: %s" % (side, have or "none"),
               "at least one of: key on the pairing column, key on the entity table written in the same transaction, assertion, dict keyed by the side",
               key="uniqueness|%s" % side, why="with none left, a duplicate match would be committed silently")
    # who may write
    for tab in ("storm", "zeta_interval_storm"):
        writers = {s.func.fq for s in ctx.sites_writing(tab)}
        outside = sorted(w for w in writers if w not in tree)
        chk.ob("C01.O4", not outside, ("spowtd/schema.sql", tab, 0), "writers of %s: %s" % (tab, sorted(writers)),
               "only the classification call tree", key="who-may-write|%s" % tab,
               why="a second writer could add pairs that never went through the arbitration")
    zi_writers = []
    for s in ctx.sites_writing("zeta_interval"):
        if s.func.fq not in tree:
            zi_writers.append(s.func.fq)
    chk.ob("C01.O4", not zi_writers, ("spowtd/schema.sql", "zeta_interval", 0), "writers of zeta_interval outside classify: %s" % (zi_writers or "none"),
           "only the classification call tree", key="who-may-write|zeta_interval")


# ---------------------------------------------------------------- O5
def _candidate_defuse(ctx, chk):
    fsm = ctx.func("classify.find_stable_matching")
    if len(fsm.params) < 2:
        chk.indeterminate("C01.O5", where_of(fsm, fsm.node), "find_stable_matching signature changed")
        return
    cand_p, pref_p = fsm.params[:2]
    flow = Flow.of(fsm)
    # the proposer: popped from the free set inside the while loop
    loops = [n for n in ast.walk(fsm.node) if isinstance(n, ast.While)]
    if len(loops) != 1:
        chk.indeterminate("C01.O5", where_of(fsm, fsm.node), "arbitration loop not found")
        return
    loop = loops[0]
    proposer = None
    rise = None
    for st in loop.body:
        if isinstance(st, ast.Assign) and isinstance(st.targets[0], ast.Name) and isinstance(st.value, ast.Call) \
                and isinstance(st.value.func, ast.Attribute) and st.value.func.attr == "pop":
            recv = st.value.func.value
            if isinstance(recv, ast.Name) and proposer is None:
                proposer = (st.targets[0].id, recv.id, st)
            elif isinstance(recv, ast.Subscript) and isinstance(recv.value, ast.Name) and recv.value.id == cand_p:
                rise = (st.targets[0].id, recv, st)
    if proposer is None or rise is None:
        chk.indeterminate("C01.O5", where_of(fsm, loop), "proposer / proposed-to assignments not recognised in the loop body")
        return
    ok = isinstance(rise[1].slice, ast.Name) and rise[1].slice.id == proposer[0]
    chk.ob("C01.O5", ok, where_of(fsm, rise[2]), "rise taken = %s.pop() for proposer %s" % (ast.unparse(rise[1]), proposer[0]),
           "the rise is drawn from the proposing storm's own candidate list", key="find_stable_matching|rise-from-own-candidates",
           why="a rise drawn from anywhere else need not share a time step with the storm")
    # every store into the matches dict: matches[rise] = proposer
    stores = [n for n in ast.walk(loop) if isinstance(n, ast.Assign) and isinstance(n.targets[0], ast.Subscript)
              and isinstance(n.targets[0].value, ast.Name)]
    okst = bool(stores)
    for s in stores:
        t = s.targets[0]
        if not (isinstance(t.slice, ast.Name) and t.slice.id == rise[0] and isinstance(s.value, ast.Name) and s.value.id == proposer[0]):
            okst = False
    chk.ob("C01.O5", okst, where_of(fsm, stores[0] if stores else loop),
           "stores into the matching: %s" % [ast.unparse(s) for s in stores], "matching[rise taken] = proposing storm",
           key="find_stable_matching|store", why="the recorded partner of a rise must be the storm that proposed to it")
    # overlap relation alignment in match_storms
    ms = ctx.func("classify.match_storms")
    msflow = Flow.of(ms)
    inter = None
    for n in ast.walk(ms.node):
        if isinstance(n, ast.BinOp) and isinstance(n.op, ast.BitAnd) and enclosing_func(n) is ms.node:
            inter = n
    if inter is None:
        chk.indeterminate("C01.O5", where_of(ms, ms.node), "overlap relation (rain mask & jump mask) not found in match_storms")
        return

    def side(n):
        # follow plain definitions: `r = rain[:-1]` ... `r & mask`
        for _ in range(4):
            if isinstance(n, ast.Name):
                v = msflow.def_value(n)
                if isinstance(v, ast.Subscript) and isinstance(v.slice, ast.Slice):
                    n = v
                    continue
            break
        if isinstance(n, ast.Subscript) and isinstance(n.slice, ast.Slice):
            lo = ast.unparse(n.slice.lower) if n.slice.lower is not None else "0"
            up = ast.unparse(n.slice.upper) if n.slice.upper is not None else ""
            return ("slice", n.value, lo, up)
        return ("whole", n, "0", "")

    a, b = side(inter.left), side(inter.right)
    sl = a if a[0] == "slice" else b
    wh = b if a[0] == "slice" else a
    ok = sl[0] == "slice" and sl[2] == "0" and sl[3] == "-1" and wh[0] == "whole"
    # the sliced operand is the rain predicate, the whole operand the loop's jump mask
    rain_ok = False
    if ok and isinstance(sl[1], ast.Name):
        v = msflow.def_value(sl[1])
        rain_ok = isinstance(v, ast.Compare)
    chk.ob("C01.O5", ok and rain_ok, where_of(ms, inter), "overlap = %s" % ast.unparse(msflow.expand(inter, keep=set(ms.params)))[:120],
           "rain[:-1] & jump_mask: step i overlaps increment i (both left-aligned)", key="match_storms|overlap-alignment",
           why="a shifted operand pairs a storm with a rise that shares no time step with it")
    # the storms entered as candidates are those present in the intersection: some iteration
    # (for loop or comprehension) runs over a value that reaches the overlap through nonzero()
    cand_ok = None
    iters = [n.iter for n in ast.walk(ms.node) if isinstance(n, ast.For)] + \
            [g.iter for n in ast.walk(ms.node) if isinstance(n, (ast.GeneratorExp, ast.ListComp, ast.SetComp)) for g in n.generators]
    for it in iters:
        if msflow.reaches(it, inter):
            ex_ = msflow.expand(it)
            txt_ = ast.unparse(ex_)
            as_positions = any(k_ in txt_ for k_ in ("nonzero", "where(", "argwhere"))
            # or the overlap used directly as a boolean mask: INDICES[...][overlap]
            as_mask = any(isinstance(n_, ast.Subscript) and isinstance(n_.slice, ast.BinOp) and isinstance(n_.slice.op, ast.BitAnd)
                          and ast.dump(n_.slice) == ast.dump(msflow.expand(inter)) for n_ in ast.walk(ex_))
            if as_positions or as_mask:
                cand_ok = True
    from ..classfacts import partial_overlap_positions
    partial = partial_overlap_positions(ms, msflow)
    if partial:
        chk.ob("C01.O5", False, where_of(ms, partial[0]),
               "particular positions of the overlap are picked out (%s): storms under the other overlapping steps are not looked at" % ", ".join(sorted({ast.unparse(x) for x in partial}))[:100],
               "candidates are exactly the storms overlapping the rise: the storm index at every overlapping step", key="match_storms|candidates-from-overlap",
               why="a rise that keeps rising through dry gaps overlaps three or more storms: an interior storm is dropped from the candidate graph and can form a blocking pair with the rise")
        cand_ok = "reported"
    if cand_ok == "reported":
        pass
    elif cand_ok is None:
        chk.indeterminate("C01.O5", where_of(ms, inter), "no loop over the storms selected by the overlap found in match_storms")
    else:
      chk.ob("C01.O5", cand_ok, where_of(ms, inter), "candidate storms = storm indices at the non-zero positions of the overlap: %s" % cand_ok,
           "candidates are exactly the storms overlapping the rise", key="match_storms|candidates-from-overlap")
