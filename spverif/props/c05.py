"""C05 -- alignment offsets minimise the squared spread of crossing values.

Decided: the linear system that find_offsets solves is the
normal-equation system of the stated objective, for a generic level
with n intervals.

 O1 residual row for (level h, interval s): coefficient sigma/n on every
    non-reference member of h, -sigma more on s's own column, right-hand
    side sigma (t_s - mean_h t); n and the mean taken over *all* members
 O2 the solve call's operands are A^T A and A^T b of that same A, b
 O3 the interval excluded from the unknowns is the last in sorted order
    and the constant 0 is appended at the end of the solution
 O4 the master-curve views average offset + crossing per level
 O5 components of the overlap graph
 O6 the rows written by rise / recession carry the fitted offset of their
    interval and each crossing under the level id that keys it (shared
    with C13.O3): the written offsets minimise the spread of the written
    crossings only if both are the fit's
"""

import ast
from ..source import clone as _clone

from ..flow import Flow
from ..norm import NotAlgebraic, Poly, py_poly, sql_poly
from ..report import where_of
from ..source import dotted_name, enclosing_func, enclosing_stmt
from ..sqlmodel import expr_str, walk_expr
from .c12 import full_call_name


def _is_T(mod, n, name):
    """A.transpose() / A.T / np.transpose(A)"""
    if isinstance(n, ast.Attribute) and n.attr == "T" and isinstance(n.value, ast.Name) and n.value.id == name:
        return True
    if isinstance(n, ast.Call) and isinstance(n.func, ast.Attribute) and n.func.attr == "transpose" \
            and isinstance(n.func.value, ast.Name) and n.func.value.id == name and not n.args:
        return True
    if isinstance(n, ast.Call) and (full_call_name(mod, n) or "").endswith("numpy.transpose") and n.args \
            and isinstance(n.args[0], ast.Name) and n.args[0].id == name:
        return True
    return False


def _product(mod, n):
    """(left, right) of np.dot(l, r) / l @ r / l.dot(r)"""
    if isinstance(n, ast.BinOp) and isinstance(n.op, ast.MatMult):
        return n.left, n.right
    if isinstance(n, ast.Call):
        fn = full_call_name(mod, n) or ""
        if fn.split(".")[-1] in ("dot", "matmul") and len(n.args) == 2:
            return n.args[0], n.args[1]
        if isinstance(n.func, ast.Attribute) and n.func.attr == "dot" and len(n.args) == 1:
            return n.func.value, n.args[0]
    return None


def unzip_source(flow, name_node):
    """If `name` is bound by `a, b = [list(]zip(*X)[)]`, return (X name, position)."""
    if not isinstance(name_node, ast.Name):
        return None
    d = flow.unique_def_node(name_node)
    if d is None:
        return None
    st = flow.cfg.stmt_of.get(d)
    if not (isinstance(st, ast.Assign) and isinstance(st.targets[0], (ast.Tuple, ast.List))):
        return None
    names = [e.id if isinstance(e, ast.Name) else None for e in st.targets[0].elts]
    if name_node.id not in names:
        return None
    v = st.value
    while isinstance(v, ast.Call) and isinstance(v.func, ast.Name) and v.func.id in ("list", "tuple") and len(v.args) == 1:
        v = v.args[0]
    if isinstance(v, ast.Call) and isinstance(v.func, ast.Name) and v.func.id == "zip" and len(v.args) == 1 \
            and isinstance(v.args[0], ast.Starred) and isinstance(v.args[0].value, ast.Name):
        return v.args[0].value.id, names.index(name_node.id)
    return None


def members_component(flow, node, members, depth=0):
    """What `node` is in terms of the level's members (a sequence of (interval, value) pairs):
    'whole' (the pairs themselves, all of them, in order), 0 / 1 (the list of that component of every
    member), or None.  Followed through names, list()/tuple(), zip(*members) and comprehensions
    without a filter."""
    if members is None or depth > 6 or node is None:
        return None
    while isinstance(node, ast.Call) and isinstance(node.func, ast.Name) and node.func.id in ("list", "tuple") and len(node.args) == 1:
        node = node.args[0]
    if isinstance(node, ast.Name):
        if node.id == members:
            return "whole"
        u = unzip_source(flow, node)
        if u is not None and u[0] == members:
            return u[1]
        dv = flow.def_value(node)
        return members_component(flow, dv, members, depth + 1) if dv is not None else None
    if isinstance(node, (ast.ListComp, ast.GeneratorExp)) and len(node.generators) == 1 and not node.generators[0].ifs:
        g = node.generators[0]
        if members_component(flow, g.iter, members, depth + 1) != "whole":
            return None
        if isinstance(g.target, ast.Name) and isinstance(node.elt, ast.Name) and node.elt.id == g.target.id:
            return "whole"
        if isinstance(g.target, (ast.Tuple, ast.List)) and len(g.target.elts) == 2 and all(isinstance(e, ast.Name) for e in g.target.elts) \
                and isinstance(node.elt, ast.Name):
            names = [e.id for e in g.target.elts]
            if node.elt.id in names:
                return names.index(node.elt.id)
        if isinstance(g.target, ast.Name) and isinstance(node.elt, ast.Subscript) and isinstance(node.elt.value, ast.Name) and node.elt.value.id == g.target.id \
                and isinstance(node.elt.slice, ast.Constant) and node.elt.slice.value in (0, 1):
            return node.elt.slice.value
    return None


def _is_members(flow, node, members, pos=None):
    """Does `node` denote the members of the level (pos None: the members or any one component of all of
    them -- for counting; pos 0 / 1: exactly that component)?"""
    c = members_component(flow, node, members)
    if c is None:
        return False
    return True if pos is None else c == pos


def run(ctx, chk, tier="quick"):
    chk.explanation = (
        "Extraction of the row assembled by find_offsets for a generic (level, interval) pair -- the value "
        "stored at the member columns, the own-column update and its guard, the right-hand side -- as "
        "algebraic normal forms, compared (up to the global sign) with the gradient of the stated "
        "objective; def-use of the normal-equation operands; position of the reference interval; the "
        "SQL views that define the master curve."
    )
    chk.assumptions = ["numpy.linalg.solve solves the system it is given", "conditioning / singularity are not decided"]
    # ---------------- O6: the tables written hold the fit (offset of each interval, crossing under the level that keys it)
    from ..sqlrules import conflict_clauses as _cc
    _cc(ctx, chk, "C05.O6", ("rise", "recession", "zeta_grid"), "curve-writes", "a second pass after the grid (or the classification) changed overwrites only the keys it writes again: crossing rows and offsets of the first pass survive, so the per-level means of the tables mix two fits and the residuals of an interval no longer sum to zero")
    from .c13 import stored_rows_lineage
    stored_rows_lineage(ctx, chk, "C05.O6")
    f = ctx.func("fit_offsets.find_offsets")
    flow = Flow.of(f)
    mod = f.module
    # ---------------- O2 (zero expected): no truncated solve.  lstsq / pinv / matrix_rank with a cut-off far above machine
    # precision drop the small singular values of the system: the result is the minimum-norm solution of a *different*
    # (lower-rank) problem, not the minimiser of the squared spread
    def _truncated(tree, module):
        out = []
        for c in ast.walk(tree):
            if not isinstance(c, ast.Call):
                continue
            nm = c.func.attr if isinstance(c.func, ast.Attribute) else (c.func.id if isinstance(c.func, ast.Name) else "")
            if nm not in ("lstsq", "pinv", "pinvh", "matrix_rank"):
                continue
            cut = [k.value for k in c.keywords if k.arg in ("rcond", "rtol", "cond", "atol", "tol")]
            if nm == "lstsq" and len(c.args) > 2:
                cut.append(c.args[2])
            for v in cut:
                if isinstance(v, ast.Name) and module is not None and module.constants.get(v.id) is not None:
                    v = module.constants.get(v.id)
                if isinstance(v, ast.Constant) and isinstance(v.value, float) and v.value > 1e-12:
                    out.append((c, v.value))
        return out
    nfun = 0
    for q_, fi_ in sorted(f.module.functions.items() if False else ctx.repo.module("fit_offsets").functions.items()):
        nfun += 1
        for c_, cutoff in _truncated(fi_.node, fi_.module):
            chk.ob("C05.O2", False, where_of(fi_, c_), "%s: singular values below %g x the largest are dropped" % (ast.unparse(c_)[:70], cutoff),
                   "the offsets solve the full normal equations (solve, or lstsq with the default machine-precision cut-off)",
                   key="fit_offsets|truncated-solve|%s" % q_, local=True,
                   why="a chain of intervals that share one level each gives a normal matrix with condition number above 1e7: the truncated solve drops the long-range modes of the overlap graph, so the returned offsets are not the minimiser and per-interval residuals against the master curve no longer sum to zero")
    if len(_truncated(ast.parse("x = np.linalg.lstsq(A, b, rcond=1e-7)[0]"), None)) != 1 or _truncated(ast.parse("x = np.linalg.lstsq(A, b, rcond=None)[0]"), None):
        chk.errors.append("C05.O2 positive control (truncated solve) did not behave")
    chk.count("fit_offsets functions scanned for a truncated solve", nfun)
    # ---------------- O2: the solve call
    solves = [c for c in ast.walk(f.node) if isinstance(c, ast.Call) and (full_call_name(mod, c) or "").split(".")[-1] in ("solve", "lstsq")]
    if len(solves) != 1:
        chk.indeterminate("C05.O2", where_of(f, f.node), "expected one solve/lstsq call, found %d" % len(solves))
        return
    sv = solves[0]
    kind = (full_call_name(mod, sv) or "").split(".")[-1]
    A = b = None
    ok2 = False
    m1 = m2 = p1 = p2 = None
    desc = ast.unparse(sv)[:100]
    if kind == "solve" and len(sv.args) == 2:
        m1 = flow.def_value(sv.args[0]) if isinstance(sv.args[0], ast.Name) else sv.args[0]
        m2 = flow.def_value(sv.args[1]) if isinstance(sv.args[1], ast.Name) else sv.args[1]
        p1, p2 = _product(mod, m1) if m1 is not None else None, _product(mod, m2) if m2 is not None else None
        if p1 and p2 and isinstance(p1[1], ast.Name) and isinstance(p2[1], ast.Name):
            A, b = p1[1].id, p2[1].id
            ok2 = _is_T(mod, flow.expand(p1[0], keep={A, b}), A) and _is_T(mod, flow.expand(p2[0], keep={A, b}), A) and A != b
            desc = "solve(%s, %s)" % (ast.unparse(m1), ast.unparse(m2))
    elif kind == "lstsq" and len(sv.args) >= 2 and isinstance(sv.args[0], ast.Name) and isinstance(sv.args[1], ast.Name):
        A, b = sv.args[0].id, sv.args[1].id
        ok2 = True
        desc = "lstsq(%s, %s)" % (A, b)
    if not ok2 and kind == "solve" and len(sv.args) == 2 and (m1 is None or m2 is None or p1 is None or p2 is None):
        # operands that are not plain products (accumulated block by block, built by another routine): not read
        chk.indeterminate("C05.O2", where_of(f, sv), "the operands of %s are not products A^T A and A^T b written in place (accumulated or built elsewhere): what they hold is not read" % desc)
        return
    chk.ob("C05.O2", ok2, where_of(f, sv), desc, "solve(A^T A, A^T b) (or a least-squares solve of A x = b)",
           key="find_offsets|normal-equations", scope=f, why="any other pairing of operands solves a different problem than min |A x - b|^2")
    if A is None:
        return
    # ---------------- O1: the row
    row_copy = own = rhs = None
    for n in ast.walk(f.node):
        if isinstance(n, ast.Assign) and isinstance(n.targets[0], ast.Subscript) and isinstance(n.targets[0].value, ast.Name):
            t = n.targets[0]
            if t.value.id == A and not isinstance(t.slice, ast.Tuple) and isinstance(n.value, ast.Name):
                row_copy = n
            if t.value.id == b and not isinstance(t.slice, (ast.Tuple, ast.Slice)):
                rhs = n
        if isinstance(n, ast.AugAssign) and isinstance(n.target, ast.Subscript) and isinstance(n.target.value, ast.Name) \
                and n.target.value.id == A and isinstance(n.target.slice, ast.Tuple) and len(n.target.slice.elts) == 2:
            own = n
    if row_copy is None or own is None or rhs is None:
        chk.indeterminate("C05.O1", where_of(f, f.node), "row copy / own-column update / right-hand side not all found")
        return
    template = row_copy.value.id
    # inner loop over the members of the level
    inner = None
    for a in _anc(rhs):
        if isinstance(a, ast.For):
            inner = a
            break
    outer = None
    for a in _anc(inner) if inner is not None else []:
        if isinstance(a, ast.For):
            outer = a
            break
    if inner is None or outer is None:
        chk.indeterminate("C05.O1", where_of(f, rhs), "level loop / member loop not found")
        return
    # inner target: (series_id, t)
    if not (isinstance(inner.target, ast.Tuple) and len(inner.target.elts) == 2 and all(isinstance(e, ast.Name) for e in inner.target.elts)):
        chk.indeterminate("C05.O1", where_of(f, inner), "member loop does not unpack (interval, value)")
        return
    sid, tval = inner.target.elts[0].id, inner.target.elts[1].id
    members = inner.iter.id if isinstance(inner.iter, ast.Name) else None
    # template stores in the outer loop
    tstores = [n for n in ast.walk(outer) if isinstance(n, ast.Assign) and isinstance(n.targets[0], ast.Subscript)
               and isinstance(n.targets[0].value, ast.Name) and n.targets[0].value.id == template]
    reset = [n for n in tstores if isinstance(n.targets[0].slice, ast.Slice)]
    fills = [n for n in tstores if not isinstance(n.targets[0].slice, ast.Slice)]
    if len(fills) != 1:
        chk.indeterminate("C05.O1", where_of(f, outer), "expected one store of the member coefficient into the row template")
        return
    fill = fills[0]
    reset_ok = any(isinstance(r.value, ast.Constant) and r.value.value == 0 for r in reset) and \
        all(r.lineno < fill.lineno for r in reset)
    # or: a fresh all-zero template is made for every level
    fresh = [n for n in outer.body if isinstance(n, ast.Assign) and len(n.targets) == 1 and isinstance(n.targets[0], ast.Name)
             and n.targets[0].id == template and isinstance(n.value, ast.Call) and (full_call_name(mod, n.value) or "").split(".")[-1] in ("zeros", "zeros_like")]
    if fresh and fresh[0].lineno < fill.lineno:
        reset_ok = True
        reset = reset or fresh
    # other spellings of the reset: T.fill(0), T[...] = 0, T *= 0
    other = []
    for n in outer.body:
        if n is fill or n.lineno >= fill.lineno:
            continue
        if isinstance(n, ast.Expr) and isinstance(n.value, ast.Call) and isinstance(n.value.func, ast.Attribute) and isinstance(n.value.func.value, ast.Name) \
                and n.value.func.value.id == template:
            c = n.value
            if c.func.attr == "fill" and len(c.args) == 1 and not c.keywords and isinstance(c.args[0], ast.Constant):
                other.append((n, c.args[0].value == 0))
            else:
                other.append((n, None))
        elif isinstance(n, ast.AugAssign) and isinstance(n.target, ast.Name) and n.target.id == template:
            other.append((n, True if isinstance(n.op, ast.Mult) and isinstance(n.value, ast.Constant) and n.value.value == 0 else None))
        elif isinstance(n, ast.Assign) and isinstance(n.targets[0], ast.Subscript) and isinstance(n.targets[0].value, ast.Name) and n.targets[0].value.id == template \
                and isinstance(n.targets[0].slice, ast.Constant) and n.targets[0].slice.value is Ellipsis:
            other.append((n, (n.value.value == 0) if isinstance(n.value, ast.Constant) else None))
            if n in fills:
                pass
        elif n not in tstores and not isinstance(n, (ast.For, ast.While, ast.If, ast.With, ast.Try)) \
                and any(isinstance(x, ast.Name) and x.id == template for x in ast.walk(n)) and not fresh:
            # the template is handed to / rebound by something this rule does not read
            if isinstance(n, ast.Assign) and any(isinstance(t, ast.Name) and t.id == template for t in n.targets) or \
                    any(isinstance(x, ast.Call) and any(isinstance(y, ast.Name) and y.id == template for a in x.args for y in ast.walk(a)) for x in ast.walk(n)):
                other.append((n, None))
    if not reset_ok and other:
        if any(v is True for _, v in other):
            reset_ok = True
            reset = [n for n, v in other if v is True]
        elif all(v is None for _, v in other):
            chk.indeterminate("C05.O1", where_of(f, other[0][0]), "how the row template is cleared per level (%s) is not read" % ast.unparse(other[0][0])[:60])
            reset_ok = None
        else:
            reset = [n for n, v in other if v is False]
    if reset_ok is not None:
        chk.ob("C05.O1", reset_ok, where_of(f, reset[0] if reset else fill), "row template reset per level: %s" % bool(reset_ok),
               "coefficients of the previous level are cleared", key="find_offsets|template-reset", scope=f,
               why="stale coefficients couple intervals that do not cross this level")
    # n := number of members (all of them)
    try:
        oflow = flow
        cexpr = flow.expand(fill.value, keep=set())
        # count symbol: len(first component of zip(*members)) or len(members)
        nsym = None
        cnt_nodes = [x for x in ast.walk(cexpr) if isinstance(x, ast.Call) and isinstance(x.func, ast.Name) and x.func.id == "len"]
        count_all = False
        raw_cnt = [x for x in ast.walk(fill.value) if isinstance(x, ast.Call) and isinstance(x.func, ast.Name) and x.func.id == "len"]
        if not raw_cnt and isinstance(fill.value, ast.BinOp):
            for x in ast.walk(fill.value):
                if isinstance(x, ast.Name):
                    dv = flow.def_value(x)
                    if isinstance(dv, ast.Call) and isinstance(dv.func, ast.Name) and dv.func.id == "len":
                        raw_cnt = [dv]
        if len(raw_cnt) == 1 and raw_cnt[0].args:
            count_all = _is_members(flow, raw_cnt[0].args[0], members)
        cpoly = py_poly(fill.value, resolve=None, callname=None, symmap=None) if False else None
        # normalise with n as a symbol
        class R(ast.NodeTransformer):
            def visit_Call(self, node):
                if isinstance(node.func, ast.Name) and node.func.id == "len":
                    return ast.Name(id="N", ctx=ast.Load())
                return self.generic_visit(node)
        import copy
        c_all = py_poly(R().visit(_clone(cexpr)))
        sigma = None
        if c_all == Poly.atom("N").inverse():
            sigma = 1
        elif c_all == -Poly.atom("N").inverse():
            sigma = -1
        chk.ob("C05.O1", sigma is not None and count_all, where_of(f, fill),
               "member coefficient = %s with N = %s" % (c_all.key(), ast.unparse(cnt_nodes[0]) if cnt_nodes else "?"),
               "+-1/n with n = number of all intervals crossing the level (reference included)",
               key="find_offsets|member-coefficient", scope=f,
               why="the mean at a level is over all its intervals; any other weight changes the minimiser on a two-interval example")
    except NotAlgebraic as exc:
        chk.indeterminate("C05.O1", where_of(f, fill), "member coefficient not algebraic: %s" % exc)
        sigma = None
    # columns filled: the non-reference members of this level
    cols = fill.targets[0].slice
    cdef = flow.def_value(cols) if isinstance(cols, ast.Name) else cols
    ref_name = None
    cols_ok = False
    if isinstance(cdef, ast.ListComp) and len(cdef.generators) == 1:
        g = cdef.generators[0]
        if len(g.ifs) == 1 and isinstance(g.ifs[0], ast.Compare) and isinstance(g.ifs[0].ops[0], ast.NotEq):
            cmp_ = g.ifs[0]
            l, r = cmp_.left, cmp_.comparators[0]
            tv = g.target.id if isinstance(g.target, ast.Name) else None
            other = r if isinstance(l, ast.Name) and l.id == tv else l
            ref_name = other.id if isinstance(other, ast.Name) else None
            src_ok = _is_members(flow, g.iter, members, 0) or (isinstance(g.iter, ast.Name) and g.iter.id == members)
            if members_component(flow, g.iter, members) is None:
                cols_ok = None          # the sequence the columns are taken over is not traced to the members
            elt_ok = isinstance(cdef.elt, ast.Subscript) and isinstance(cdef.elt.slice, ast.Name) and cdef.elt.slice.id == tv
            cols_ok = (src_ok and elt_ok and ref_name is not None) if cols_ok is not None else None
    if cols_ok is None:
        chk.indeterminate("C05.O1", where_of(f, fill), "columns filled = %s: not traced to the members of the level" % (ast.unparse(cdef)[:80] if cdef is not None else "?"))
    else:
      chk.ob("C05.O1", cols_ok, where_of(f, fill), "columns filled = %s" % (ast.unparse(cdef)[:90] if cdef is not None else "?"),
           "the columns of every member of the level except the reference interval", key="find_offsets|member-columns", scope=f,
           why="the reference interval's offset is fixed at zero and has no column")
    # own column: guarded by series != reference; delta -sigma
    guard_ok = False
    for a in _anc(own):
        if isinstance(a, ast.If) and isinstance(a.test, ast.Compare) and isinstance(a.test.ops[0], ast.NotEq):
            nm = {x.id for x in ast.walk(a.test) if isinstance(x, ast.Name)}
            guard_ok = sid in nm and (ref_name in nm if ref_name else True)
        if a is inner:
            break
    try:
        delta = py_poly(own.value)
        if isinstance(own.op, ast.Sub):
            delta = -delta
        elif not isinstance(own.op, ast.Add):
            delta = None
    except NotAlgebraic:
        delta = None
    col_node = own.target.slice.elts[1]
    col_def = flow.def_value(col_node) if isinstance(col_node, ast.Name) else col_node
    col_ok = isinstance(col_def, ast.Subscript) and isinstance(col_def.slice, ast.Name) and col_def.slice.id == sid
    row_same = ast.unparse(own.target.slice.elts[0]) == ast.unparse(row_copy.targets[0].slice) == ast.unparse(rhs.targets[0].slice)
    own_ok = delta is not None and sigma is not None and delta == Poly.const(-sigma) and guard_ok and col_ok and row_same
    chk.ob("C05.O1", own_ok, where_of(f, own),
           "own column: %s (delta %s) at column %s, guard on non-reference: %s, same row as copy and rhs: %s"
           % (ast.unparse(own), delta.key() if delta is not None else "?", ast.unparse(col_def) if col_def is not None else "?", guard_ok, row_same),
           "-sigma added on the interval's own column (sigma = sign of the member coefficient), only for non-reference intervals",
           key="find_offsets|own-column", scope=f, why="the residual of interval s is (x_s + t_s) - mean(x + t): its own offset enters with weight 1/n - 1")
    # right-hand side sigma (t - mean)
    try:
        mean_names = {}
        def resolve(nn):
            return None
        rexpr = flow.expand(rhs.value, keep={tval})
        class M(ast.NodeTransformer):
            def visit_Call(self, node):
                fn = (dotted_name(node.func) or "").split(".")[-1]
                if fn in ("mean", "average") :
                    return ast.Name(id="MEAN", ctx=ast.Load())
                return self.generic_visit(node)
        import copy
        mcalls = [x for x in ast.walk(rexpr) if isinstance(x, ast.Call) and (dotted_name(x.func) or "").split(".")[-1] in ("mean", "average")]
        mean_all = False
        raw_means = []
        for x in ast.walk(rhs.value):
            if isinstance(x, ast.Name):
                dv = flow.def_value(x)
                if isinstance(dv, ast.Call) and (dotted_name(dv.func) or "").split(".")[-1] in ("mean", "average") and dv.args:
                    raw_means.append(dv)
            if isinstance(x, ast.Call) and (dotted_name(x.func) or "").split(".")[-1] in ("mean", "average") and x.args:
                raw_means.append(x)
        if len(raw_means) == 1:
            marg = raw_means[0].args[0]
            mean_all = _is_members(flow, marg, members, 1)
            if not mean_all and isinstance(marg, (ast.ListComp, ast.GeneratorExp)) and len(marg.generators) == 1:
                g2 = marg.generators[0]
                mean_all = isinstance(g2.iter, ast.Name) and g2.iter.id == members and not g2.ifs \
                    and isinstance(g2.target, ast.Tuple) and len(g2.target.elts) == 2 and isinstance(marg.elt, ast.Name) \
                    and isinstance(g2.target.elts[1], ast.Name) and marg.elt.id == g2.target.elts[1].id
        rp = py_poly(M().visit(_clone(rexpr)))
        want = Poly.atom(tval) - Poly.atom("MEAN")
        rhs_ok = sigma is not None and rp == want.scale(sigma) and mean_all
        chk.ob("C05.O1", rhs_ok, where_of(f, rhs), "right-hand side = %s with MEAN = %s" % (rp.key(), ast.unparse(mcalls[0]) if mcalls else "?"),
               "sigma (t_s - mean of the level's values over all its intervals)", key="find_offsets|rhs", scope=f,
               why="with the wrong sign the offsets move the pieces apart instead of together")
    except NotAlgebraic as exc:
        chk.indeterminate("C05.O1", where_of(f, rhs), "right-hand side not algebraic: %s" % exc)
    # row counter: incremented once per member
    rname = row_copy.targets[0].slice.id if isinstance(row_copy.targets[0].slice, ast.Name) else None
    incs = [n for n in ast.walk(inner) if isinstance(n, ast.AugAssign) and isinstance(n.target, ast.Name) and n.target.id == rname]
    inc_ok = len(incs) == 1 and isinstance(incs[0].op, ast.Add) and isinstance(incs[0].value, ast.Constant) and incs[0].value.value == 1 \
        and incs[0] in inner.body and inner.body.index(incs[0]) > max(inner.body.index(x) if x in inner.body else -1 for x in (row_copy, rhs))
    chk.ob("C05.O1", inc_ok, where_of(f, incs[0] if incs else inner), "row counter advances once per (level, interval), after the row is written: %s" % inc_ok,
           "one equation per crossing", key="find_offsets|row-counter", scope=f)

    # every level of the mapping and every member of a level contributes its row: no cycle of the
    # level loop avoids the member loop, no cycle of the member loop avoids the row copy / rhs store
    cfg = flow.cfg
    oh, ih = cfg.node(outer), cfg.node(inner)
    n_copy, n_rhs = cfg.node(row_copy), cfg.node(rhs)
    def cycle_avoiding(header, avoid):
        """Is there a cycle header -> ... -> header inside the loop that avoids `avoid`?"""
        members = cfg.loop_members.get(header, set())
        outside = set(cfg.nodes()) - members
        return header in cfg.reachable_from(header, avoiding=outside | {avoid})

    skip_level = oh is not None and ih is not None and cycle_avoiding(oh, ih)
    skip_member = ih is not None and (cycle_avoiding(ih, n_copy) or cycle_avoiding(ih, n_rhs))
    chk.ob("C05.O1", not skip_level and not skip_member, where_of(f, outer),
           "an iteration of the level loop can skip the member loop: %s; an iteration of the member loop can skip the row: %s" % (skip_level, skip_member),
           "one residual row for every (level, interval) crossing in the mapping", key="find_offsets|no-skipped-rows", scope=f,
           why="a level left out of the system still appears in the master curve: the offsets then do not minimise the spread that is reported")
    # the mapping iterated is the function's (pruned) input, and A, b are used whole
    it_txt = ast.unparse(outer.iter)
    whole = True
    for side in ("m1", "m2"):
        pass
    sliced = [n for n in ast.walk(f.node) if isinstance(n, ast.Assign) and any(isinstance(t, (ast.Name, ast.Tuple)) and
              any(isinstance(x, ast.Name) and x.id in (A, b) for x in ast.walk(t)) for t in n.targets)
              and any(isinstance(x, ast.Subscript) and isinstance(x.slice, ast.Slice) and isinstance(x.value, ast.Name) and x.value.id in (A, b) for x in ast.walk(n.value))]
    # the arrays that reach the products A^T A / A^T b are the allocated-and-filled ones: never rebound in between
    rebound = []
    for nm in (A, b):
        for x in ast.walk(f.node):
            if isinstance(x, ast.Name) and x.id == nm and isinstance(x.ctx, ast.Load):
                par = getattr(x, "parent", None)
                # uses inside the normal-equation products / the solve call
                anc = x
                in_solve = False
                while anc is not None and anc is not f.node:
                    if anc is sv or (isinstance(anc, ast.Assign) and any(isinstance(t, ast.Name) and isinstance(sv.args[0], ast.Name) and
                                                                         t.id in (sv.args[0].id, sv.args[1].id if len(sv.args) > 1 and isinstance(sv.args[1], ast.Name) else "") for t in anc.targets)):
                        in_solve = True
                    anc = getattr(anc, "parent", None)
                if not in_solve:
                    continue
                for d in flow.reaching_defs(x) or ():
                    st = flow.cfg.stmt_of.get(d)
                    if isinstance(st, ast.Assign):
                        v = st.value
                        alloc = isinstance(v, ast.Call) and (full_call_name(mod, v) or "").split(".")[-1] in ("zeros", "empty", "zeros_like", "full")
                        if not alloc and st not in rebound:
                            rebound.append(st)
    chk.ob("C05.O1", f.params[0] in it_txt and not sliced and not rebound, where_of(f, (rebound or sliced or [outer])[0]),
           "level loop over %s; system changed between assembly and solve: %s" % (it_txt, [ast.unparse(r)[:70] for r in (rebound or sliced)] or "no"),
           "all levels of the mapping, all assembled rows, each with its multiplicity", key="find_offsets|whole-system", scope=f,
           why="dropping, de-duplicating or re-weighting rows changes the objective: identical rows are weights in least squares")
    # levels dropped before fitting: exactly those crossed by a single interval
    prunes = [n for n in ast.walk(f.node) if isinstance(n, ast.Delete) and any(isinstance(t, ast.Subscript) and isinstance(t.value, ast.Name)
              and t.value.id == f.params[0] for t in n.targets)]
    for pr in prunes:
        cond = None
        a = getattr(pr, "parent", None)
        while a is not None and a is not f.node:
            if isinstance(a, ast.If):
                cond = a.test
                break
            a = getattr(a, "parent", None)
        okp = False
        if cond is not None:
            from ..norm import py_compare
            try:
                nf = py_compare(cond, callname=lambda c: "len" if isinstance(c.func, ast.Name) and c.func.id == "len" else None)
                want1 = py_compare(ast.parse("len(seq) == 1", mode="eval").body)
                want2 = py_compare(ast.parse("len(seq) < 2", mode="eval").body)
                want3 = py_compare(ast.parse("len(seq) <= 1", mode="eval").body)
                # rename the subject
                subj = [x for x in ast.walk(cond) if isinstance(x, ast.Call) and isinstance(x.func, ast.Name) and x.func.id == "len"]
                if len(subj) == 1 and isinstance(subj[0].args[0], ast.Name):
                    nm = subj[0].args[0].id
                    def ren(w):
                        return (w[0], type(w[1])({tuple((a_.replace("seq", nm), e_) for a_, e_ in k): v for k, v in w[1].terms.items()}))
                    okp = nf in (ren(want1), ren(want2), ren(want3))
            except NotAlgebraic:
                okp = False
        chk.ob("C05.O1", okp, where_of(f, pr), "levels dropped when `%s`" % (ast.unparse(cond) if cond is not None else "unconditionally"),
               "only levels crossed by a single interval are dropped (their rows are identically zero)",
               key="find_offsets|pruning", scope=f, why="dropping a level shared by two or more intervals removes its residuals from the objective")
    # ---------------- O3: reference position
    if ref_name:
        probe = None
        for x in ast.walk(f.node):
            if isinstance(x, ast.Name) and x.id == ref_name and isinstance(x.ctx, ast.Load):
                probe = x
                break
        rdef = flow.def_value(probe) if probe is not None else None
        is_max = isinstance(rdef, ast.Call) and isinstance(rdef.func, ast.Name) and rdef.func.id == "max" and len(rdef.args) == 1
        ids_sorted = False
        if is_max and isinstance(rdef.args[0], ast.Name):
            sdef = flow.def_value(rdef.args[0])
            ids_sorted = isinstance(sdef, ast.Call) and isinstance(sdef.func, ast.Name) and sdef.func.id == "sorted"
        # zero appended at the end of the solution
        rets = [n for n in ast.walk(f.node) if isinstance(n, ast.Return) and n.value is not None and enclosing_func(n) is f.node]
        end_ok = False
        cdesc = "?"
        if rets and isinstance(rets[0].value, ast.Tuple) and len(rets[0].value.elts) == 2:
            off = rets[0].value.elts[1]
            odef = flow.def_value(off) if isinstance(off, ast.Name) else off
            cdesc = ast.unparse(odef) if odef is not None else "?"
            if isinstance(odef, ast.Call) and (full_call_name(mod, odef) or "").endswith("concatenate") and odef.args \
                    and isinstance(odef.args[0], (ast.Tuple, ast.List)) and len(odef.args[0].elts) == 2:
                first, second = odef.args[0].elts
                end_ok = isinstance(second, (ast.List, ast.Tuple)) and len(second.elts) == 1 and isinstance(second.elts[0], ast.Constant) \
                    and second.elts[0].value == 0 and not isinstance(first, (ast.List, ast.Tuple))
            elif isinstance(odef, ast.Call) and (full_call_name(mod, odef) or "").endswith("append") and len(odef.args) == 2:
                end_ok = isinstance(odef.args[1], ast.Constant) and odef.args[1].value == 0
            ids_ret = rets[0].value.elts[0]
            ids_ok = isinstance(ids_ret, ast.Name) and is_max and isinstance(rdef.args[0], ast.Name) and ids_ret.id == rdef.args[0].id
        else:
            ids_ok = False
        chk.ob("C05.O3", is_max and ids_sorted and end_ok and ids_ok, where_of(f, rets[0] if rets else f.node),
               "reference = %s of sorted ids: %s; solution completed as %s; returned ids are that sorted list: %s"
               % (ast.unparse(rdef) if rdef is not None else "?", ids_sorted, cdesc, ids_ok),
               "reference = last of the sorted ids, and the constant 0 is appended at the end of the solution",
               key="find_offsets|reference-position", scope=f,
               why="ids and offsets are paired by position; a zero at the wrong end shifts every offset to its neighbour")
    # ---------------- O4: views
    for view, off, cross, out, tab, ztab in (("average_recession_time", "time_offset_s", "mean_crossing_time", "elapsed_time_s", "recession_interval", "recession_interval_zeta"),
                                             ("average_rising_depth", "rain_depth_offset_mm", "mean_crossing_depth_mm", "mean_crossing_depth_mm", "rising_interval", "rising_interval_zeta")):
        v = ctx.schema.views.get(view)
        if v is None:
            chk.indeterminate("C05.O4", ("spowtd/schema.sql", "<schema>", 0), "view %s missing" % view)
            continue
        sel = v.select
        # the curve column as a linear combination of means:  AVG(p) = SUM(p) / COUNT(*) = TOTAL(p) / COUNT(*),  AVG(p + q) = AVG(p) + AVG(q)
        ok = False
        desc = "no aggregate"
        unread = None
        for e, a in sel.columns:
            if not any(x[0] == "call" and x[1] in ("AVG", "SUM", "MIN", "MAX", "TOTAL", "COUNT") for x in walk_expr(e)):
                continue
            try:
                nf = _mean_normal_form(e)
                want = {Poly.atom(off).key(): 1, Poly.atom(cross).key(): 1}
                ok = nf == want
                desc = " + ".join((("%s*AVG(%s)" % (c, k) if c != 1 else "AVG(%s)" % k) if "(" not in k or k.startswith("(") else k) for k, c in sorted(nf.items())) or "0"
            except NotAlgebraic as exc:
                unread = str(exc)
                desc = str(exc)
        if unread is not None and not ok:
            chk.indeterminate("C05.O4", ("spowtd/schema.sql", "view " + view, 0), "aggregate of view %s is not a combination of means this rule reads: %s" % (view, unread))
            continue
        tabs = [s.table for s in sel.sources]
        join_ok = tab in tabs and ztab in tabs and any(s.table == ztab and s.using == ["start_epoch"] or
                                                       (s.table in (tab, ztab) and s.on is not None and "start_epoch" in expr_str(s.on)) for s in sel.sources)
        gb = [g[2] for g in sel.group_by if g[0] == "col"]
        level = [e for e, a in sel.columns if a == "zeta_mm"]
        lvl_ok = False
        if level:
            try:
                lvl_ok = sql_poly(level[0], lambda c: c[2]) == Poly.atom("zeta_number") * Poly.atom("grid_interval_mm")
            except NotAlgebraic:
                lvl_ok = False
        chk.ob("C05.O4", ok and join_ok and "zeta_number" in gb and lvl_ok, ("spowtd/schema.sql", "view " + view, 0),
               "%s per %s; intervals joined to their own crossings: %s; level = id x step: %s" % (desc, gb, join_ok, lvl_ok),
               "AVG(offset + crossing) per level id over each interval's own crossings", key="view|%s|mean" % view,
               why="the master curve is the mean of the shifted crossings at each level; the offsets minimise the spread about exactly this mean")
    from .. import sqltypes
    sqltypes.check(ctx, chk, "C05.O4", views=("average_recession_time", "average_rising_depth"))
    # ---------------- O5: connected components
    _components(ctx, chk)


def _components(ctx, chk):
    """C05.O5 -- get_connected_components: a level joins EVERY existing group it shares a series with (so groups
    that it bridges are merged).  Three verdicts: all matching groups are collected, removed and united /
    only the first match is taken (violation) / another construction (not read)."""
    try:
        f = ctx.func("fit_offsets.get_connected_components")
    except Exception:
        f = None
    if f is None:
        chk.indeterminate("C05.O5", ("spowtd/fit_offsets.py", "<module>", 0), "get_connected_components not found")
        return
    flow = Flow.of(f)
    where = where_of(f, f.node)
    req = "a level is merged with every existing group it shares a series with: all of them are removed from the table and united with it"
    why = "a level that bridges two groups joined to only one of them leaves a connected collection split: intervals are dropped and shared levels leave the objective, so the offsets written are not the minimiser over the collection"
    loops = [n for n in ast.walk(f.node) if isinstance(n, ast.For) and isinstance(n.target, ast.Tuple) and len(n.target.elts) == 2
             and all(isinstance(t, ast.Name) for t in n.target.elts) and getattr(n, "parent", None) is f.node]
    loops = [l for l in loops if f.params and any(isinstance(x, ast.Name) and x.id == f.params[0] for x in ast.walk(l.iter))]
    if len(loops) != 1:
        chk.indeterminate("C05.O5", where, "loop over the levels of the mapping not found")
        return
    loop = loops[0]
    level, sset = loop.target.elts[0].id, loop.target.elts[1].id
    # the table of groups: a dict stored by subscript inside the loop
    gstores = [n for n in ast.walk(loop) if isinstance(n, ast.Assign) and isinstance(n.targets[0], ast.Subscript) and isinstance(n.targets[0].value, ast.Name)]
    gnames = {n.targets[0].value.id for n in gstores}
    if len(gnames) != 1 or len(gstores) != 1:
        chk.indeterminate("C05.O5", where_of(f, loop), "expected one store `groups[keys] = members` per level")
        return
    groups = gnames.pop()
    store = gstores[0]

    def overlap_test(t):
        """test that the level's series set meets a group: not S.isdisjoint(G), S & G, S.intersection(G) -> G name"""
        neg = False
        if isinstance(t, ast.UnaryOp) and isinstance(t.op, ast.Not):
            neg, t = True, t.operand
        if isinstance(t, ast.Call) and isinstance(t.func, ast.Attribute) and len(t.args) == 1:
            a, b = t.func.value, t.args[0]
            names = {x.id for x in (a, b) if isinstance(x, ast.Name)}
            if sset in names and len(names) == 2:
                other = (names - {sset}).pop()
                if t.func.attr == "isdisjoint" and neg:
                    return other
                if t.func.attr == "intersection" and not neg:
                    return other
        if isinstance(t, ast.BinOp) and isinstance(t.op, ast.BitAnd) and not neg:
            names = {x.id for x in (t.left, t.right) if isinstance(x, ast.Name)}
            if sset in names and len(names) == 2:
                return (names - {sset}).pop()
        return None

    # the selection of matching groups: a comprehension / generator over groups.items() with the overlap test
    sels = []
    for n in ast.walk(loop):
        if isinstance(n, (ast.ListComp, ast.GeneratorExp, ast.SetComp)) and len(n.generators) == 1:
            g = n.generators[0]
            if any(isinstance(x, ast.Name) and x.id == groups for x in ast.walk(g.iter)) and len(g.ifs) == 1 and overlap_test(g.ifs[0]) is not None:
                sels.append(n)
    inner_loops = [n for n in ast.walk(loop) if isinstance(n, ast.For) and n is not loop and any(isinstance(x, ast.Name) and x.id == groups for x in ast.walk(n.iter))]
    if len(sels) != 1 or inner_loops:
        if inner_loops and not sels:
            brk = [x for l in inner_loops for x in ast.walk(l) if isinstance(x, ast.Break)]
            tests = [x for l in inner_loops for x in ast.walk(l) if isinstance(x, ast.If) and overlap_test(x.test) is not None]
            if brk and tests and len(inner_loops) == 1:
                chk.ob("C05.O5", False, where_of(f, brk[0]), "the search over %s stops at the first group that shares a series (break)" % groups, req,
                       key="get_connected_components|all-matches", why=why, scope=f)
                return
        chk.indeterminate("C05.O5", where_of(f, loop), "selection of the groups that share a series with the level is not a single comprehension over %s with an overlap test" % groups)
        return
    sel = sels[0]
    par = getattr(sel, "parent", None)
    # first match only: next(<generator>, default) / [ ... ][0]
    if isinstance(par, ast.Call) and isinstance(par.func, ast.Name) and par.func.id == "next" and par.args and par.args[0] is sel:
        chk.ob("C05.O5", False, where_of(f, par), "next(%s ...): only the first group that shares a series with the level is taken" % ast.unparse(sel)[:70], req,
               key="get_connected_components|all-matches", why=why, scope=f)
        return
    if isinstance(par, ast.Subscript) and par.value is sel and not isinstance(par.slice, ast.Slice):
        chk.ob("C05.O5", False, where_of(f, par), "%s[%s]: one of the matching groups is taken" % (ast.unparse(sel)[:60], ast.unparse(par.slice)), req,
               key="get_connected_components|all-matches", why=why, scope=f)
        return
    if not isinstance(sel, ast.ListComp):
        chk.indeterminate("C05.O5", where_of(f, sel), "matching groups are selected lazily (%s): how often the selection is consumed is not read" % type(sel).__name__)
        return
    mname = None
    if isinstance(par, ast.Assign) and len(par.targets) == 1 and isinstance(par.targets[0], ast.Name):
        mname = par.targets[0].id
    if mname is None:
        chk.indeterminate("C05.O5", where_of(f, sel), "the list of matching groups is not bound to a name")
        return
    elt_is_key = isinstance(sel.elt, ast.Name) and isinstance(sel.generators[0].target, ast.Tuple) and len(sel.generators[0].target.elts) == 2 \
        and isinstance(sel.generators[0].target.elts[0], ast.Name) and sel.elt.id == sel.generators[0].target.elts[0].id
    # every matched group is removed:  [groups.pop(k) for k in matches]  /  for k in matches: ... groups.pop(k) / del groups[k]
    removed = united = False
    others_name = None
    for n in ast.walk(loop):
        if isinstance(n, (ast.ListComp, ast.GeneratorExp)) and len(n.generators) == 1 and not n.generators[0].ifs \
                and isinstance(n.generators[0].iter, ast.Name) and n.generators[0].iter.id == mname and isinstance(n.generators[0].target, ast.Name):
            e = n.elt
            if isinstance(e, ast.Call) and isinstance(e.func, ast.Attribute) and e.func.attr == "pop" and isinstance(e.func.value, ast.Name) \
                    and e.func.value.id == groups and len(e.args) >= 1 and isinstance(e.args[0], ast.Name) and e.args[0].id == n.generators[0].target.id:
                removed = True
                pp = getattr(n, "parent", None)
                if isinstance(pp, ast.Assign) and isinstance(pp.targets[0], ast.Name):
                    others_name = pp.targets[0].id
                elif isinstance(pp, ast.Starred):
                    others_name = "*"
    # the new group = S.union(*others) / S | ... ; stored value
    sv = store.value
    svx = flow.def_value(sv) if isinstance(sv, ast.Name) else sv
    if isinstance(svx, ast.Call) and isinstance(svx.func, ast.Attribute) and svx.func.attr == "union" and isinstance(svx.func.value, ast.Name) and svx.func.value.id == sset:
        for a in svx.args:
            if isinstance(a, ast.Starred) and ((isinstance(a.value, ast.Name) and a.value.id == others_name) or
                                               (others_name == "*" and isinstance(a.value, (ast.ListComp, ast.GeneratorExp)))):
                united = True
    if not (elt_is_key and removed and united):
        chk.indeterminate("C05.O5", where_of(f, loop), "all matching groups are selected, but how they are removed and united (%s) is not read" % ast.unparse(store)[:70])
        return
    chk.ob("C05.O5", True, where_of(f, sel), "all groups of %s that share a series with the level are selected (%s), popped and united with it" % (groups, mname), req,
           key="get_connected_components|all-matches", why=why, scope=f)


def _mean_normal_form(e):
    """A select-list expression as {key of polynomial p: coefficient} meaning sum coeff * AVG(p), by linearity of the mean.
    Reads AVG(p), SUM(p) / COUNT(*), TOTAL(p) / COUNT(*) (through CAST), sums, differences and constant multiples.
    Raises NotAlgebraic for anything else (MIN, MAX, a bare SUM, a product of aggregates ...)."""
    from fractions import Fraction

    def strip_cast(x):
        while x[0] == "cast":
            x = x[1]
        return x

    def add(a, b, sign=1):
        out = dict(a)
        for k, c in b.items():
            out[k] = out.get(k, 0) + sign * c
            if out[k] == 0:
                del out[k]
        return out

    def mean_of(x):
        p = sql_poly(x, lambda c: c[2])
        out = {}
        for mono, c in p.terms.items():
            k = Poly({mono: 1}).key()
            out[k] = out.get(k, 0) + c
        return out

    e = strip_cast(e)
    if e[0] == "call" and e[1] == "AVG" and len(e[2]) == 1 and not e[3]:
        return mean_of(e[2][0])
    if e[0] == "call" and e[1] in ("MIN", "MAX", "SUM", "TOTAL", "COUNT") and len(e[2]) == 1:
        # another aggregate standing alone: readable, and not a mean
        return {"%s(%s)" % (e[1], expr_str(e[2][0])[:40]): 1}
    if e[0] == "bin" and e[1] in ("+", "-"):
        return add(_mean_normal_form(e[2]), _mean_normal_form(e[3]), 1 if e[1] == "+" else -1)
    if e[0] == "bin" and e[1] == "/":
        num, den = strip_cast(e[2]), strip_cast(e[3])
        if num[0] == "call" and num[1] in ("SUM", "TOTAL") and len(num[2]) == 1 and not num[3] \
                and den[0] == "call" and den[1] == "COUNT" and len(den[2]) == 1 and den[2][0][0] == "star":
            return mean_of(num[2][0])
    if e[0] == "bin" and e[1] == "*":
        for a, b in ((e[2], e[3]), (e[3], e[2])):
            if a[0] == "num":
                return {k: c * Fraction(str(a[1])) for k, c in _mean_normal_form(b).items()}
    raise NotAlgebraic("%s" % expr_str(e)[:80])


def _anc(node):
    n = getattr(node, "parent", None)
    while n is not None:
        yield n
        n = getattr(n, "parent", None)
