"""C13 -- every master-curve row traces back to a classified interval and its data.

 O1 entity typing of joins: no equality join or USING equates a storm id
    with an interval id, or a level id with anything else
 O2 right kind: recession series from interval_type = 'interstorm'; rise
    series through the pairing table
 O3 column lineage to sinks (storm id of the depth query, the rise series,
    the start_epoch written with each offset / crossing)
 O4 parallel lists stay aligned; series ids leave get_series_time_offsets
    only through index_mapping
 O5 grid contains the crossings: same upper rounding as regrid (ceil),
    lower rounding not above it
 O6 cursor typestate: a lazily iterated cursor is not re-executed inside
    that iteration
"""

import ast
from ..source import clone as _clone

from ..flow import Flow
from ..norm import NotAlgebraic, Poly, py_poly
from ..report import where_of
from ..source import dotted_name, enclosing_func, enclosing_stmt, is_ancestor
from ..sqlbind import binding_of, bindings
from ..sqlmodel import conjuncts, expr_str, select_exprs, subselects_of_expr
from .c12 import full_call_name

ROOTS = {"storm": "storm", "zeta_interval": "interval", "discrete_zeta": "level", "grid_time": "time"}


def entity_types(schema):
    """{(table, column): entity} from primary keys of the root tables and
    the foreign-key chains that lead to them."""
    types = {}
    for t, ent in ROOTS.items():
        tab = schema.tables.get(t)
        if tab is not None and len(tab.pk) >= 1:
            types[(t, tab.pk[0])] = ent
    changed = True
    while changed:
        changed = False
        for t in schema.tables.values():
            for cols, parent, rcols in t.fks:
                ptab = schema.tables.get(parent)
                if ptab is None:
                    continue
                rc = rcols or ptab.pk
                for c, r in zip(cols, rc):
                    if (parent, r) in types and (t.name, c) not in types:
                        types[(t.name, c)] = types[(parent, r)]
                        changed = True
    return types


def view_column_types(schema, types):
    """Propagate entity types through view select lists (bare columns)."""
    out = dict(types)
    for _ in range(3):
        for v in schema.views.values():
            alias = {s.alias: s.table for s in v.select.sources}
            for e, al in v.select.columns:
                if e[0] == "col":
                    name = al or e[2]
                    tabs = [alias.get(e[1])] if e[1] else [t for t in alias.values()]
                    for t in tabs:
                        if (t, e[2]) in out:
                            out[(v.name, name)] = out[(t, e[2])]
    return out


def select_joins(sel):
    """[(expr 'col', expr 'col')] equalities of ON / WHERE, and USING triples."""
    eqs = []
    alias = {s.alias: s.table for s in sel.sources}
    for i, s in enumerate(sel.sources):
        for pr in conjuncts(s.on):
            if pr[0] == "bin" and pr[1] == "=" and pr[2][0] == "col" and pr[3][0] == "col":
                eqs.append((pr[2], pr[3]))
        if s.using:
            for u in s.using:
                # column u of this source with column u of any earlier source that has it
                eqs.append((("col", s.alias, u), ("using", [x.alias for x in sel.sources[:i]], u)))
    for pr in conjuncts(sel.where):
        if pr[0] == "bin" and pr[1] == "=" and pr[2][0] == "col" and pr[3][0] == "col":
            eqs.append((pr[2], pr[3]))
    return eqs, alias



def _o4_index_mapping(ctx, chk):
    """get_series_time_offsets sorts the series internally; every series id that leaves it must be
    translated back through a table T with T[internal id] = caller's index.  Three verdicts per obligation:
    holds / a present construct is wrong (violation) / the construction is not one this analysis reads."""
    g = ctx.func("fit_offsets.get_series_time_offsets")
    gflow = Flow.of(g)
    rets = [n for n in ast.walk(g.node) if isinstance(n, ast.Return) and n.value is not None and enclosing_func(n) is g.node]
    where = where_of(g, rets[0] if rets else g.node)
    if not (len(rets) == 1 and isinstance(rets[0].value, ast.Tuple) and len(rets[0].value.elts) == 3):
        chk.indeterminate("C13.O4", where, "expected one `return (ids, offsets, mapping)`")
        return
    ids, offs, mp = rets[0].value.elts
    fo = [c for c in ast.walk(g.node) if isinstance(c, ast.Call) and ctx.cg.resolve_callee(g, c.func) == ["fit_offsets.find_offsets"]]
    fo_st = enclosing_stmt(fo[0]) if len(fo) == 1 else None
    if not (isinstance(fo_st, ast.Assign) and isinstance(fo_st.targets[0], ast.Tuple) and len(fo_st.targets[0].elts) == 2
            and isinstance(fo_st.targets[0].elts[0], ast.Name)):
        chk.indeterminate("C13.O4", where, "result of find_offsets is not unpacked into (ids, offsets)")
        return
    internal_ids = fo_st.targets[0].elts[0].id
    idef = gflow.def_value(ids) if isinstance(ids, ast.Name) else ids
    # the returned ids
    table = None
    verdict = None
    core = idef
    while isinstance(core, ast.Call) and isinstance(core.func, ast.Name) and core.func.id in ("list", "tuple") and len(core.args) == 1:
        core = core.args[0]
    if isinstance(core, ast.Name) and core.id == internal_ids:
        verdict = False
        desc = "returned ids = %s: the internal ids, untranslated" % ast.unparse(idef)
    elif isinstance(core, (ast.ListComp, ast.GeneratorExp)) and len(core.generators) == 1 and isinstance(core.generators[0].iter, ast.Name) \
            and core.generators[0].iter.id == internal_ids and isinstance(core.generators[0].target, ast.Name) and not core.generators[0].ifs:
        lv = core.generators[0].target.id
        e = core.elt
        if isinstance(e, ast.Name) and e.id == lv:
            verdict = False
            desc = "returned ids = %s: the internal ids, untranslated" % ast.unparse(idef)[:80]
        elif isinstance(e, ast.Subscript) and isinstance(e.value, ast.Name) and isinstance(e.slice, ast.Name) and e.slice.id == lv:
            table = e.value.id
            desc = "returned ids = %s" % ast.unparse(idef)[:80]
    if verdict is None and table is None:
        chk.indeterminate("C13.O4", where, "returned ids %s are not TABLE[id] for id in the ids of find_offsets" % (ast.unparse(idef)[:80] if idef is not None else "?"))
        return
    if verdict is False:
        chk.ob("C13.O4", False, where, desc, "every series id that leaves the function is translated back to the caller's index",
               key="get_series_time_offsets|index-mapping", why="ids of the internally sorted list would attach offsets to other intervals")
        return
    # the table: (a) dict filled T[new] = original inside `for new, (.., original) in enumerate(sorted decorated list)`
    #            (b) T = sorted(range(len(L)), key=...) and the sorted list is [L[i] for i in T]
    tverdict = None
    tdesc = ""
    for n in ast.walk(g.node):
        if isinstance(n, ast.Assign) and isinstance(n.targets[0], ast.Subscript) and isinstance(n.targets[0].value, ast.Name) \
                and n.targets[0].value.id == table and isinstance(n.value, ast.Name) and isinstance(n.targets[0].slice, ast.Name):
            for a in _anc(n):
                if isinstance(a, ast.For) and isinstance(a.iter, ast.Call) and isinstance(a.iter.func, ast.Name) and a.iter.func.id == "enumerate":
                    t = a.target
                    if isinstance(t, ast.Tuple) and len(t.elts) == 2 and isinstance(t.elts[0], ast.Name) and isinstance(t.elts[1], ast.Tuple):
                        counter = t.elts[0].id
                        members = [e.id for e in t.elts[1].elts if isinstance(e, ast.Name)]
                        k_, v_ = n.targets[0].slice.id, n.value.id
                        if k_ == counter and v_ in members:
                            # the member must be the index carried from enumerate(series_list)
                            carried = _carried_index(g, gflow, a.iter.args[0] if a.iter.args else None, t.elts[1], v_)
                            if carried is True:
                                tverdict, tdesc = True, "%s[position in the sorted list] = index carried from enumerate(%s)" % (table, g.params[0])
                            elif carried is False:
                                tverdict, tdesc = False, "%s[position] = %s, which is not the caller's index" % (table, v_)
                        elif v_ == counter and k_ in members:
                            tverdict, tdesc = False, "%s[%s] = %s: the table is inverted (caller's index -> internal id)" % (table, k_, v_)
    if tverdict is None:
        tv = None
        for n in ast.walk(g.node):
            if isinstance(n, ast.Assign) and len(n.targets) == 1 and isinstance(n.targets[0], ast.Name) and n.targets[0].id == table:
                tv = n.value
        if isinstance(tv, ast.Call) and isinstance(tv.func, ast.Name) and tv.func.id == "sorted" and tv.args \
                and isinstance(tv.args[0], ast.Call) and isinstance(tv.args[0].func, ast.Name) and tv.args[0].func.id == "range" \
                and len(tv.args[0].args) == 1 and isinstance(tv.args[0].args[0], ast.Call) and isinstance(tv.args[0].args[0].func, ast.Name) \
                and tv.args[0].args[0].func.id == "len" and isinstance(tv.args[0].args[0].args[0], ast.Name):
            base = tv.args[0].args[0].args[0].id
            # the list handed to build_head_mapping is [base[i] for i in table]
            bh = [c for c in ast.walk(g.node) if isinstance(c, ast.Call) and ctx.cg.resolve_callee(g, c.func) == ["fit_offsets.build_head_mapping"]]
            if len(bh) == 1 and bh[0].args:
                sv = bh[0].args[0]
                sv = gflow.def_value(sv) if isinstance(sv, ast.Name) else sv
                if isinstance(sv, ast.ListComp) and len(sv.generators) == 1 and isinstance(sv.generators[0].iter, ast.Name) and not sv.generators[0].ifs \
                        and isinstance(sv.generators[0].target, ast.Name) and isinstance(sv.elt, ast.Subscript) and isinstance(sv.elt.value, ast.Name) \
                        and isinstance(sv.elt.slice, ast.Name) and sv.elt.slice.id == sv.generators[0].target.id:
                    if sv.generators[0].iter.id == table and sv.elt.value.id == base:
                        # base must be index-aligned with the caller's list
                        bd = None
                        for n in ast.walk(g.node):
                            if isinstance(n, ast.Assign) and isinstance(n.targets[0], ast.Name) and n.targets[0].id == base:
                                bd = n.value
                        aligned = base == g.params[0] or (isinstance(bd, ast.ListComp) and len(bd.generators) == 1 and not bd.generators[0].ifs
                                                          and isinstance(bd.generators[0].iter, ast.Name) and bd.generators[0].iter.id == g.params[0])
                        if aligned:
                            tverdict, tdesc = True, "%s = argsort of %s; sorted list = [%s[i] for i in %s]" % (table, base, base, table)
    if tverdict is None:
        # (c) a positional table over the sorted decorated list:  dict(enumerate(m for (.., m) in DEC)),
        #     [m for (.., m) in DEC], {i: m for i, (.., m) in enumerate(DEC)}
        tv = None
        for n in ast.walk(g.node):
            if isinstance(n, ast.Assign) and len(n.targets) == 1 and isinstance(n.targets[0], ast.Name) and n.targets[0].id == table:
                tv = n.value if tv is None else False
        positional = None          # (member name, target tuple, iterable)
        inverted = False
        if isinstance(tv, ast.Call) and isinstance(tv.func, ast.Name) and tv.func.id == "dict" and len(tv.args) == 1 and not tv.keywords \
                and isinstance(tv.args[0], ast.Call) and isinstance(tv.args[0].func, ast.Name) and tv.args[0].func.id == "enumerate" \
                and len(tv.args[0].args) == 1 and not tv.args[0].keywords:
            tv = tv.args[0].args[0]
            if isinstance(tv, ast.Name):
                tv = gflow.def_value(tv)
        while isinstance(tv, ast.Call) and isinstance(tv.func, ast.Name) and tv.func.id in ("list", "tuple") and len(tv.args) == 1:
            tv = tv.args[0]
        if isinstance(tv, (ast.ListComp, ast.GeneratorExp)) and len(tv.generators) == 1 and not tv.generators[0].ifs \
                and isinstance(tv.generators[0].target, ast.Tuple) and isinstance(tv.elt, ast.Name):
            positional = (tv.elt.id, tv.generators[0].target, tv.generators[0].iter)
        elif isinstance(tv, ast.DictComp) and len(tv.generators) == 1 and not tv.generators[0].ifs and isinstance(tv.key, ast.Name) and isinstance(tv.value, ast.Name):
            gen = tv.generators[0]
            if isinstance(gen.iter, ast.Call) and isinstance(gen.iter.func, ast.Name) and gen.iter.func.id == "enumerate" and len(gen.iter.args) == 1 \
                    and not gen.iter.keywords and isinstance(gen.target, ast.Tuple) and len(gen.target.elts) == 2 and isinstance(gen.target.elts[0], ast.Name) \
                    and isinstance(gen.target.elts[1], ast.Tuple):
                if tv.key.id == gen.target.elts[0].id:
                    positional = (tv.value.id, gen.target.elts[1], gen.iter.args[0])
                elif tv.value.id == gen.target.elts[0].id:
                    inverted = True
        if inverted:
            tverdict, tdesc = False, "%s = %s: the table is inverted (caller's index -> internal id)" % (table, ast.unparse(tv)[:60])
        elif positional is not None:
            member, tgt, it = positional
            # the positions must be those of the list handed to build_head_mapping: the same sorted sequence
            carried = _carried_index(g, gflow, it, tgt, member)
            bh = [c for c in ast.walk(g.node) if isinstance(c, ast.Call) and ctx.cg.resolve_callee(g, c.func) == ["fit_offsets.build_head_mapping"]]
            same_seq = None
            if len(bh) == 1 and bh[0].args:
                sv = bh[0].args[0]
                sv = gflow.def_value(sv) if isinstance(sv, ast.Name) else sv
                while isinstance(sv, ast.Call) and isinstance(sv.func, ast.Name) and sv.func.id in ("list", "tuple") and len(sv.args) == 1:
                    sv = sv.args[0]
                if isinstance(sv, (ast.ListComp, ast.GeneratorExp)) and len(sv.generators) == 1 and not sv.generators[0].ifs:
                    same_seq = ast.dump(sv.generators[0].iter) == ast.dump(it) and isinstance(it, ast.Name) and gflow.def_value(it) is not None
            if carried is True and same_seq is True:
                tverdict, tdesc = True, "%s[position in %s] = index carried from enumerate(%s)" % (table, ast.unparse(it), g.params[0])
            elif carried is False and same_seq is True:
                tverdict, tdesc = False, "%s[position] = %s, which is not the caller's index" % (table, member)
    if tverdict is None:
        chk.indeterminate("C13.O4", where, "construction of the translation table %s not recognised" % table)
        return
    # the output mapping's entries
    mverdict = None
    mdesc = ""
    comps = []
    if isinstance(mp, ast.Name):
        for n in ast.walk(g.node):
            if isinstance(n, ast.Assign) and isinstance(n.targets[0], ast.Subscript) and isinstance(n.targets[0].value, ast.Name) \
                    and n.targets[0].value.id == mp.id and isinstance(n.value, ast.ListComp):
                comps.append(n.value)
            if isinstance(n, ast.Assign) and isinstance(n.targets[0], ast.Name) and n.targets[0].id == mp.id and isinstance(n.value, ast.DictComp) \
                    and isinstance(n.value.value, ast.ListComp):
                comps.append(n.value.value)
    elif isinstance(mp, ast.DictComp) and isinstance(mp.value, ast.ListComp):
        comps.append(mp.value)
    for lc in comps:
        if isinstance(lc.elt, ast.Tuple) and len(lc.elt.elts) == 2 and len(lc.generators) == 1 and isinstance(lc.generators[0].target, ast.Tuple) \
                and len(lc.generators[0].target.elts) == 2 and isinstance(lc.generators[0].target.elts[0], ast.Name):
            sid = lc.generators[0].target.elts[0].id
            e0 = lc.elt.elts[0]
            if isinstance(e0, ast.Name) and e0.id == sid:
                mverdict, mdesc = False, "mapping entries (%s, ...): the internal id, untranslated" % sid
            elif isinstance(e0, ast.Subscript) and isinstance(e0.value, ast.Name) and isinstance(e0.slice, ast.Name) and e0.slice.id == sid:
                mverdict = e0.value.id == table
                mdesc = "mapping entries (%s[%s], ...)" % (e0.value.id, sid)
    if mverdict is None:
        chk.indeterminate("C13.O4", where, "entries of the returned mapping not recognised")
        return
    chk.ob("C13.O4", tverdict and mverdict, where, "%s; %s; %s" % (desc, tdesc, mdesc),
           "every series id that leaves the function is translated back to the caller's index",
           key="get_series_time_offsets|index-mapping", why="ids of the internally sorted list would attach offsets to other intervals")


def _carried_index(g, gflow, sorted_arg, member_tuple, member):
    """Is `member` (a position in the loop's tuple) the index that `enumerate(series_list)` attached
    before sorting?  True / False / None (unknown)."""
    pos = [k for k, e in enumerate(member_tuple.elts) if isinstance(e, ast.Name) and e.id == member]
    if not pos or sorted_arg is None:
        return None
    dec = gflow.def_value(sorted_arg) if isinstance(sorted_arg, ast.Name) else sorted_arg
    if isinstance(dec, ast.Call) and isinstance(dec.func, ast.Name) and dec.func.id == "sorted" and dec.args:
        dec = dec.args[0]
    if isinstance(dec, ast.Name):
        dec = gflow.def_value(dec)
    if isinstance(dec, (ast.GeneratorExp, ast.ListComp)) and isinstance(dec.elt, ast.Tuple) and len(dec.generators) == 1 \
            and len(dec.elt.elts) == len(member_tuple.elts):
        gen = dec.generators[0]
        if isinstance(gen.iter, ast.Call) and isinstance(gen.iter.func, ast.Name) and gen.iter.func.id == "enumerate" and gen.iter.args \
                and isinstance(gen.iter.args[0], ast.Name) and gen.iter.args[0].id == g.params[0] and isinstance(gen.target, ast.Tuple) \
                and isinstance(gen.target.elts[0], ast.Name):
            e = dec.elt.elts[pos[0]]
            return isinstance(e, ast.Name) and e.id == gen.target.elts[0].id
    return None

def level_grid_rule(ctx, chk, rule):
    """populate_zeta_grid: level ids = range(floor(min / step), ceil(max / step)) of the gridded water level, and the step
    stored is the step used.  Shared by C13.O5 and C09.O4 (a level that is missing from the grid cannot be the origin)."""
    zg = ctx.func("zeta_grid.populate_zeta_grid")
    zflow = Flow.of(zg)
    rng = [c for c in ast.walk(zg.node) if isinstance(c, ast.Call) and isinstance(c.func, ast.Name) and c.func.id == "range" and len(c.args) == 2]
    bq = None
    selects = [s for s in ctx.sites_in(zg) if s.stmt is not None and s.stmt.kind == "select"]
    # the bounds query: the SELECT whose columns are aggregates (other look-ups of the function, e.g. of the grid already
    # stored, are not it)
    agg_selects = [s for s in selects if s.stmt.columns and all(e[0] == "call" for e, _ in s.stmt.columns)]
    if len(agg_selects) == 1:
        bq = agg_selects[0]
    elif len(selects) == 1:
        bq = selects[0]
    if len(rng) != 1 or bq is None:
        chk.indeterminate(rule, where_of(zg, zg.node), "range(lower, upper) of level ids or the bounds query not found")
    else:
        agg = [e[1] if e[0] == "call" else None for e, _ in bq.stmt.columns]
        step = zg.params[1]

        def bound(n):
            for _h in range(4):
                if isinstance(n, ast.Call) and isinstance(n.func, ast.Name) and n.func.id == "int" and n.args:
                    n = n.args[0]
                elif isinstance(n, ast.Name) and zflow.def_value(n) is not None:
                    n = zflow.def_value(n)
                else:
                    break
            fn = None
            if isinstance(n, ast.Call):
                fn = (full_call_name(zg.module, n) or "").split(".")[-1]
                arg = n.args[0] if n.args else None
            elif isinstance(n, ast.BinOp) and isinstance(n.op, ast.FloorDiv):
                fn, arg = "floor", ast.BinOp(left=n.left, op=ast.Div(), right=n.right)
            elif isinstance(n, ast.BinOp) and isinstance(n.op, ast.Div):
                # int(X / step): the quotient itself is truncated towards zero
                fn, arg = "int", n
            else:
                return None, None
            which = None
            if isinstance(arg, ast.BinOp) and not isinstance(arg.op, ast.Div) and isinstance(arg.right, ast.Name) and arg.right.id == step \
                    and isinstance(arg.op, (ast.Mult, ast.Add, ast.Sub, ast.Mod, ast.Pow)):
                # aggregate (op) step with another operator: readable, and not the quotient
                fn = "%s of aggregate %s step, not the quotient:" % (fn, type(arg.op).__name__)
                arg = ast.BinOp(left=arg.left, op=ast.Div(), right=arg.right)
            if isinstance(arg, ast.BinOp) and isinstance(arg.op, ast.Div) and isinstance(arg.right, ast.Name) and arg.right.id == step:
                num = arg.left
                if isinstance(num, ast.Call) and len(num.args) == 1 and (full_call_name(zg.module, num) or "").split(".")[-1] in ("floor", "ceil", "round", "trunc", "int", "float"):
                    # rounding applied to the aggregate before the division: readable, and another function
                    fn = "%s of %s(.)/step" % (fn, (full_call_name(zg.module, num) or "").split(".")[-1]) if fn != "int" else "%s(.)/step truncated" % (full_call_name(zg.module, num) or "").split(".")[-1]
                    num = num.args[0]
                if isinstance(num, ast.Subscript) and isinstance(num.slice, ast.Constant) and isinstance(num.slice.value, int) and num.slice.value < len(agg):
                    which = agg[num.slice.value]
                elif isinstance(num, ast.Name):
                    b = binding_of(ctx, zg, bq)
                    if b is not None and num.id in b.names:
                        which = agg[b.names.index(num.id)]
            return fn, which

        lo, hi = bound(rng[0].args[0]), bound(rng[0].args[1])
        ok = lo == ("floor", "MIN") and hi == ("ceil", "MAX") or (lo == ("ceil", "MIN") and hi == ("ceil", "MAX") and False)
        if None in lo or None in hi:
            chk.indeterminate(rule, where_of(zg, rng[0]), "bounds of the level-id range (%s) are not rounding(aggregate / step) in a form this rule reads" % ast.unparse(rng[0])[:80])
        else:
            chk.ob(rule, ok, where_of(zg, rng[0]), "level ids = range(%s(%s/step), %s(%s/step))" % (lo[0], lo[1], hi[0], hi[1]),
                   "range(floor(min/step), ceil(max/step)): contains regrid's [ceil(min/step), ceil(max/step)) and covers the observed range from below",
                   key="populate_zeta_grid|range", why="a level that is crossed but missing from the grid violates the foreign key (or is silently dropped)")
        tabs = {x.table for x in bq.stmt.sources}
        chk.ob(rule, tabs == {"water_level"} and agg == ["MIN", "MAX"], where_of(zg, bq.call), "bounds = %s of %s" % (agg, sorted(tabs)),
               "(min, max) of the gridded water level", key="populate_zeta_grid|bounds")
        ins = [s for s in ctx.sites_in(zg) if s.stmt is not None and s.stmt.kind == "insert" and s.stmt.table == "zeta_grid"]
        sv_ = ins[0].column_values(zflow).get("grid_interval_mm") if ins else None
        if sv_ is None:
            chk.indeterminate(rule, where_of(zg, ins[0].call if ins else zg.node), "the value stored in zeta_grid.grid_interval_mm is not a bound parameter")
        else:
            svx = zflow.expand(sv_, keep={step})
            okg = isinstance(svx, ast.Name) and svx.id == step
            chk.ob(rule, okg, where_of(zg, ins[0].call), "zeta_grid.grid_interval_mm <- %s" % ast.unparse(svx)[:60],
                   "the step the ids were computed with", key="populate_zeta_grid|stored-step")



def run(ctx, chk, tier="quick"):
    chk.explanation = (
        "Entity typing (storm id / interval id / level id / grid time) derived from the schema's primary "
        "and foreign keys and checked on every equality join and USING of rise.py, recession.py and the "
        "master-curve views; the interval kinds selected; column lineage from the row bindings to the "
        "SQL parameters and appended series; alignment of the parallel lists; the index mapping back to "
        "the caller's series ids; rounding functions of the level grid against regrid's; cursor typestate."
    )
    chk.assumptions = ["entity roots are the tables storm, zeta_interval, discrete_zeta, grid_time (from the property's state description)",
                       "when max/step is an integer the top level is never crossed under the half-open rule (documented numeric edge, not decided)"]
    from ..sqlrules import conflict_clauses, lossy_functions, parents_not_deleted
    parents_not_deleted(ctx, chk, "C13.O2", ("classify", "zeta_grid", "set_curvature", "rise", "recession", "load"),
                        ("rising_interval", "rising_interval_zeta", "recession_interval", "recession_interval_zeta"), "curve-parents",
                        "a master-curve row whose interval (or storm, or level) was removed by a later step no longer traces back to a classified interval: the stored curve describes intervals that are not in the dataset")
    conflict_clauses(ctx, chk, "C13.O2", ("rise", "recession", "zeta_grid"), "curve-writes",
                     "rows that collide with an earlier assembly are dropped or overwritten silently: master-curve rows no longer trace to the intervals of this run")
    lossy_functions(ctx, chk, "C13.O5", ("rise", "recession", "zeta_grid"), "curve-queries",
                    "a rounded level, bound or epoch is not the stored one: a level that is crossed can fall outside the grid, an interval can be looked up under another instant")
    from .. import sqltypes
    sqltypes.check(ctx, chk, "C13.O3", modules=("rise", "recession", "zeta_grid"), views=("storm_total_rise", "rising_curve_line_segment", "storm_total_rain_depth"))
    sch = ctx.schema
    types = view_column_types(sch, entity_types(sch))

    def col_type(col, alias, sel=None):
        if col[0] == "using":
            for a in col[1]:
                t = alias.get(a)
                if (t, col[2]) in types:
                    return types[(t, col[2])], "%s.%s" % (t, col[2])
            return None, "USING(%s)" % col[2]
        if col[1] is not None:
            t = alias.get(col[1], col[1])
            return types.get((t, col[2])), "%s.%s" % (t, col[2])
        cands = [t for t in alias.values() if (t, col[2]) in types]
        if len(cands) >= 1:
            return types[(cands[0], col[2])], "%s.%s" % (cands[0], col[2])
        return None, col[2]

    # ------------------------------------------------------------ O1
    targets = []
    for name in ("storm_total_rise", "rising_curve_line_segment", "average_recession_time", "average_rising_depth", "storm_total_rain_depth"):
        v = sch.views.get(name)
        if v is not None:
            targets.append(("spowtd/schema.sql", "view " + name, 0, v.select))
    for modname in ("rise", "recession", "simulate_recession"):
        for s in ctx.sites:
            if s.func.module.name == modname and s.stmt is not None and s.stmt.kind == "select":
                targets.append((s.func.module.relpath, s.func.qualname, s.line, s.stmt))
    n_eq = 0
    for rel, fn, line, sel in targets:
        eqs, alias = select_joins(sel)
        for a, b in eqs:
            ta, da = col_type(a, alias)
            tb, db = col_type(b, alias)
            n_eq += 1
            bad = (ta is not None and tb is not None and ta != tb and "time" not in (ta, tb)) or \
                  ("level" in (ta, tb) and ta != tb and None not in (ta, tb))
            chk.ob("C13.O1", not bad, (rel, fn, line), "join %s [%s] = %s [%s]" % (da, ta, db, tb),
                   "both sides identify the same kind of entity (or one is a plain grid time)",
                   key="%s|%s|join|%s=%s" % (rel, fn, da, db),
                   why="equating a storm's start with an interval's start attaches rows to whatever interval happens to start at that instant")
    chk.floor("equality joins typed", n_eq, 10)

    # ------------------------------------------------------------ O3 index spaces (rise and recession)
    from .. import indexspace
    n_ix = 0
    for fq_ in ("rise.compute_rise_offsets", "recession.compute_offsets"):
        n_ix += indexspace.check(ctx, chk, "C13.O3", ctx.func(fq_), fq_.split(".")[-1])
    chk.floor("subscripts by looked-up positions whose index space was compared (rise, recession)", n_ix, 2)

    # ------------------------------------------------------------ O2 + O3 rise
    rise = ctx.func("rise.compute_rise_offsets")
    rflow = Flow.of(rise)
    rowb = None
    for b in bindings(ctx, rise):
        if b.kind == "rows" and len(b.names) == 4:
            rowb = b
    if rowb is None:
        chk.indeterminate("C13.O2", where_of(rise, rise.node), "row binding of the rise query not found")
    else:
        sel = rowb.site.stmt
        alias = {s.alias: s.table for s in sel.sources}
        tabs = set(alias.values())
        chk.ob("C13.O2", {"storm", "zeta_interval_storm", "zeta_interval"} <= tabs, where_of(rise, rowb.site.call),
               "rise series come from %s" % sorted(tabs), "storm JOIN pairing table JOIN interval: matched rises only",
               key="compute_rise_offsets|source-tables", why="an unmatched interval has no storm depth")
        colof = {}
        for i, nm in enumerate(rowb.names):
            e = sel.columns[i][0]
            if nm and e[0] == "col":
                colof[nm] = (alias.get(e[1], e[1]), e[2])
        storm_id = next((n for n, c in colof.items() if c == ("storm", "start_epoch")), None)
        # depth query parameter
        dq = [s for s in ctx.sites_in(rise) if s.stmt is not None and s.stmt.kind == "select" and "storm_total_rain_depth" in {x.table for x in s.stmt.sources}]
        if len(dq) != 1:
            chk.indeterminate("C13.O3", where_of(rise, rise.node), "total-depth query not found")
        else:
            q = dq[0]
            key_ok = False
            pname = None
            for pr in conjuncts(q.stmt.where):
                if pr[0] == "bin" and pr[1] == "=" and pr[2][0] == "col" and pr[2][2] == "storm_start_epoch" and pr[3][0] == "param":
                    pname = pr[3][1]
            val = None
            if isinstance(q.params_node, ast.Dict):
                for k, v in zip(q.params_node.keys, q.params_node.values):
                    if isinstance(k, ast.Constant) and k.value == pname:
                        val = v
            elif isinstance(q.params_node, ast.Tuple) and isinstance(pname, int) and pname < len(q.params_node.elts):
                val = q.params_node.elts[pname]
            key_ok = isinstance(val, ast.Name) and val.id == storm_id
            depth_keyed = pname is not None and val is not None
            if not depth_keyed:
                # all depths fetched at once (into a table keyed in Python), or keyed some other way: not read
                chk.indeterminate("C13.O3", where_of(rise, q.call), "the total depth is not looked up by `storm_start_epoch = <parameter>` in the query itself: which storm's depth a row gets is not decided")
            else:
                chk.ob("C13.O3", key_ok, where_of(rise, q.call), "depth looked up for storm_start_epoch = %s" % (ast.unparse(val) if val is not None else "?"),
                       "the storm id of the same row (%s)" % storm_id, key="compute_rise_offsets|depth-key",
                       why="a depth looked up by the rise's start belongs to another storm, or to none")
            sel_ok = q.stmt.columns and q.stmt.columns[0][0][0] == "col" and q.stmt.columns[0][0][2] == "total_depth_mm"
            db = binding_of(ctx, rise, q)
            depth_name = db.names[0] if db is not None and db.names and db.names[0] else None
            # the series appended
            apps = [c for c in ast.walk(rise.node) if isinstance(c, ast.Call) and isinstance(c.func, ast.Attribute) and c.func.attr == "append"
                    and isinstance(c.func.value, ast.Name)]
            ser = [c for c in apps if c.args and isinstance(c.args[0], ast.Tuple) and len(c.args[0].elts) == 2
                   and all("array" in ast.unparse(e) for e in c.args[0].elts)]
            ok = False
            desc = "series append not found"
            if len(ser) == 1:
                xs, ys = ser[0].args[0].elts

                def inner(n):
                    while isinstance(n, ast.Call) and (full_call_name(rise.module, n) or "").split(".")[-1] in ("array", "asarray") and n.args:
                        n = n.args[0]
                    return n
                xs, ys = inner(xs), inner(ys)
                desc = "series = (%s, %s)" % (ast.unparse(xs), ast.unparse(ys))
                if isinstance(xs, (ast.Tuple, ast.List)) and isinstance(ys, (ast.Tuple, ast.List)) and len(xs.elts) == 2 and len(ys.elts) == 2:
                    x0, x1 = xs.elts
                    y0, y1 = [rflow.expand(e) for e in ys.elts]
                    x_ok = isinstance(x0, ast.Constant) and x0.value == 0 and isinstance(x1, ast.Name) and x1.id == depth_name
                    def endof(e):
                        if isinstance(e, ast.Subscript) and isinstance(e.value, ast.Subscript) and isinstance(e.value.slice, ast.Slice):
                            return ast.unparse(e.slice), e.value
                        return None, None
                    i0, s0 = endof(y0)
                    i1, s1 = endof(y1)
                    y_ok = i0 == "0" and i1 == "-1" and s0 is not None and s1 is not None and ast.unparse(s0) == ast.unparse(s1)
                    ok = x_ok and y_ok and sel_ok
            if not ok and (not depth_keyed or depth_name is None):
                chk.indeterminate("C13.O3", where_of(rise, ser[0] if ser else rise.node), "%s: the name holding the row's total depth is not identified" % desc[:100])
            else:
                chk.ob("C13.O3", ok, where_of(rise, ser[0] if ser else rise.node), desc,
                       "((0, total rain depth of the row's storm), (level at the rise's first sample, level at its last sample))",
                       key="compute_rise_offsets|series", why="a rise is the straight segment from zero depth at its initial level to the storm's depth at its final level")
            # ------------------------------------------------------------ O4 parallel lists
            loop = None
            for a in _anc(ser[0]) if ser else []:
                if isinstance(a, ast.For):
                    loop = a
                    break
            if loop is not None:
                top = [c for c in apps if enclosing_stmt(c) in loop.body]
                cond = [c for c in apps if is_ancestor(loop, c) and enclosing_stmt(c) not in loop.body]
                names_ = sorted({c.func.value.id for c in top})
                chk.ob("C13.O4", not cond and len(top) == len(names_) and len(names_) >= 2, where_of(rise, loop),
                       "lists appended once per row, unconditionally: %s; conditional appends: %d" % (names_, len(cond)),
                       "series and interval lists grow in lock step", key="compute_rise_offsets|parallel-lists",
                       why="a skipped append shifts every later interval against its series")
                # ... and stay in lock step afterwards: after the row loop none of them is filtered, re-ordered, shortened
                # or rebound (positions in one are used as positions in the others)
                after = [n for n in ast.walk(rise.node) if isinstance(n, ast.stmt) and getattr(n, "lineno", 0) > getattr(loop, "end_lineno", loop.lineno)
                         and enclosing_func(n) is rise.node]
                changed = {}
                for n in after:
                    if isinstance(n, ast.Assign):
                        for t in n.targets:
                            if isinstance(t, ast.Name) and t.id in names_:
                                v_ = n.value
                                while isinstance(v_, ast.Call) and isinstance(v_.func, ast.Name) and v_.func.id in ("list", "tuple") and len(v_.args) == 1:
                                    v_ = v_.args[0]
                                same = isinstance(v_, ast.Name) and v_.id == t.id
                                if not same:
                                    changed.setdefault(t.id, n)
                    if isinstance(n, ast.Expr) and isinstance(n.value, ast.Call) and isinstance(n.value.func, ast.Attribute) and isinstance(n.value.func.value, ast.Name) \
                            and n.value.func.value.id in names_ and n.value.func.attr in ("sort", "reverse", "pop", "remove", "insert", "clear", "append", "extend"):
                        changed.setdefault(n.value.func.value.id, n)
                    if isinstance(n, ast.Delete):
                        for t in n.targets:
                            if isinstance(t, ast.Subscript) and isinstance(t.value, ast.Name) and t.value.id in names_:
                                changed.setdefault(t.value.id, n)
                used_after = {nm for nm in names_ if any(isinstance(x, ast.Name) and x.id == nm and isinstance(x.ctx, ast.Load) for n in after for x in ast.walk(n))}
                partial = sorted(set(changed) & used_after)
                untouched = sorted((used_after - set(changed)))
                if changed and untouched and partial:
                    n0 = changed[partial[0]]
                    chk.ob("C13.O4", False, where_of(rise, n0),
                           "%s is rebuilt / changed after the row loop (%s) while %s keeps one entry per row" % (partial[0], ast.unparse(n0)[:60], ", ".join(untouched)),
                           "lists indexed by the same series id stay aligned: what is done to one after the loop is done to all",
                           key="compute_rise_offsets|parallel-lists-after", why="a series id returned by the fit is a position in the changed list: the other lists give the interval of another row")
                else:
                    chk.ob("C13.O4", True, where_of(rise, loop), "after the row loop the lists %s are %s" % (names_, "all changed alike or not used" if changed else "not changed"),
                           "lists indexed by the same series id stay aligned", key="compute_rise_offsets|parallel-lists-after")
                # zeta_intervals element: (index of start, index of thru + 1) of the same row
    stored_rows_lineage(ctx, chk, "C13.O3")
    # ---- recession kind
    rec = ctx.func("recession.compute_offsets")
    kq = None
    for b in bindings(ctx, rec):
        if b.kind == "rows" and {s.table for s in b.site.stmt.sources} == {"zeta_interval"}:
            kq = b
    if kq is None:
        chk.indeterminate("C13.O2", where_of(rec, rec.node), "interstorm interval query not found")
    else:
        ok = any(pr[0] == "bin" and pr[1] == "=" and pr[2][0] == "col" and pr[2][2] == "interval_type" and pr[3] == ("str", "interstorm")
                 for pr in conjuncts(kq.site.stmt.where))
        chk.ob("C13.O2", ok, where_of(rec, kq.site.call), "recession series from zeta_interval WHERE %s" % expr_str(kq.site.stmt.where),
               "interval_type = 'interstorm'", key="compute_offsets|interval-kind", why="a rise entered in the recession curve reverses its slope")
        # series appended from the row's own epoch range
        rflow_ = Flow.of(rec)
        gcall = [c for c in ast.walk(rec.node) if isinstance(c, ast.Call) and ctx.cg.resolve_callee(rec, c.func) == ["fit_offsets.get_series_time_offsets"]]
        sp = _series_pair(ctx, rec, rflow_, gcall[0].args[0]) if len(gcall) == 1 and gcall[0].args else None
        if sp is None:
            chk.indeterminate("C13.O3", where_of(rec, rec.node), "the recession series are not built by appends in one loop over the intervals")
        else:
            en_, ln_ = _series_arrays(ctx, rec)
            a0, a1 = rflow_.expand(sp["x"], keep={en_, ln_}), rflow_.expand(sp["y"], keep={en_, ln_})
            if not (isinstance(a0, ast.Subscript) and isinstance(a1, ast.Subscript)):
                chk.indeterminate("C13.O3", where_of(rec, sp["x"]), "series = (%s, %s): not two subscripted arrays" % (ast.unparse(a0)[:60], ast.unparse(a1)[:60]))
            else:
                okp = ast.dump(a0.slice) == ast.dump(a1.slice) and ast.unparse(a0.value) == en_ and ast.unparse(a1.value) == ln_
                chk.ob("C13.O3", okp, where_of(rec, sp["x"]), "series = (%s, %s)" % (ast.unparse(a0)[:80], ast.unparse(a1)[:80]),
                       "(times, levels) of the same sample indices of the interval", key="compute_offsets|series",
                       why="levels taken with other indices than the times belong to a neighbour's samples")

    # ------------------------------------------------------------ O3 grid-step lineage
    # zeta_grid.grid_interval_mm -> get_series_time_offsets(step) -> build_head_mapping(step) -> regrid(step)
    gs = ctx.func("fit_offsets.get_series_time_offsets")
    bh = ctx.func("fit_offsets.build_head_mapping")
    rg = ctx.func("regrid.regrid")

    def passes(caller, callee, pname, must_be):
        """Every call of callee in caller binds parameter `pname` to `must_be(caller)` (a Name test)."""
        calls = [c for c in ast.walk(caller.node) if isinstance(c, ast.Call) and ctx.cg.resolve_callee(caller, c.func) == [callee.fq]]
        if not calls:
            return None, "no call"
        idx = callee.params.index(pname)
        for c in calls:
            val = None
            for k in c.keywords:
                if k.arg == pname:
                    val = k.value
            if val is None and len(c.args) > idx:
                val = c.args[idx]
            if val is None:
                return False, "%s(%s): %s left to its default" % (callee.name, ", ".join(ast.unparse(a) for a in c.args), pname)
            if not must_be(val):
                return False, "%s: %s = %s" % (callee.name, pname, ast.unparse(val))
        return True, "%s receives %s" % (callee.name, pname)

    chain = []
    chain.append((gs, passes(gs, bh, bh.params[1], lambda v: isinstance(v, ast.Name) and v.id == gs.params[1])))
    chain.append((bh, passes(bh, rg, rg.params[2], lambda v: isinstance(v, ast.Name) and v.id == bh.params[1])))
    for caller_fq in ("rise.compute_rise_offsets", "recession.compute_offsets"):
        cf = ctx.func(caller_fq)
        stepn = None
        for b in bindings(ctx, cf):
            if {x.table for x in b.site.stmt.sources} == {"zeta_grid"} and any(b.names):
                stepn = [n for n in b.names if n][0]
        chain.append((cf, passes(cf, gs, gs.params[1], lambda v, stepn=stepn: isinstance(v, ast.Name) and v.id == stepn)))
    for caller, (okc, dsc) in chain:
        if okc is None:
            chk.indeterminate("C13.O3", where_of(caller, caller.node), "grid-step lineage: %s" % dsc)
        else:
            chk.ob("C13.O3", okc, where_of(caller, caller.node), "grid step: %s" % dsc,
                   "the step stored in zeta_grid reaches regrid unchanged", key="%s|grid-step-lineage" % caller.qualname,
                   why="crossings computed on another step are stored under level ids of the grid: every row is attached to the wrong level unless the step is 1")
    # ------------------------------------------------------------ O4 index mapping
    _o4_index_mapping(ctx, chk)

    # ------------------------------------------------------------ O5 grid
    level_grid_rule(ctx, chk, "C13.O5")

    # ------------------------------------------------------------ O6 cursor typestate
    from ..typestate import lazy_cursor_loops
    lazy_cursor_loops(ctx, chk, "C13.O6", ("rise", "recession", "classify", "load", "simulate_rise", "simulate_recession", "pestfiles", "zeta_grid"))


def _series_pair(ctx, f, flow, series_expr):
    """The list handed to get_series_time_offsets as (row loop, x expr, y expr, {list: appended exprs}):
       either one list of (x, y) tuples appended in the row loop, or zip(LX, LY) of two such lists."""
    apps = [c for c in ast.walk(f.node) if isinstance(c, ast.Call) and isinstance(c.func, ast.Attribute) and c.func.attr == "append"
            and isinstance(c.func.value, ast.Name) and len(c.args) == 1]
    e = series_expr
    while isinstance(e, ast.Call) and isinstance(e.func, ast.Name) and e.func.id in ("list", "tuple") and len(e.args) == 1:
        e = e.args[0]
    lists = []
    if isinstance(e, ast.Name):
        lists = [e.id]
    elif isinstance(e, ast.Call) and isinstance(e.func, ast.Name) and e.func.id == "zip" and len(e.args) == 2 and all(isinstance(a, ast.Name) for a in e.args):
        lists = [a.id for a in e.args]
    if not lists:
        return None
    first = [c for c in apps if c.func.value.id == lists[0]]
    if len(first) != 1:
        return None
    row_loop = None
    for a in _anc(first[0]):
        if isinstance(a, ast.For):
            row_loop = a
            break
    if row_loop is None:
        return None
    appended = {}
    for c in apps:
        if is_ancestor(row_loop, c):
            appended.setdefault(c.func.value.id, []).append((c.args[0], enclosing_stmt(c) in row_loop.body))
    aligned = {k: v[0][0] for k, v in appended.items() if len(v) == 1 and v[0][1]}
    if not all(l in aligned for l in lists):
        return None
    if len(lists) == 1:
        t = aligned[lists[0]]
        if not (isinstance(t, ast.Tuple) and len(t.elts) == 2):
            return None
        x, y = t.elts
    else:
        x, y = aligned[lists[0]], aligned[lists[1]]
    return {"loop": row_loop, "x": x, "y": y, "appended": appended, "aligned": aligned, "lists": lists}

def stored_rows_lineage(ctx, chk, rule):
    """start_epoch, offset, crossing and level id written with each row of the four fit tables (rise + recession)"""
    for f, tabs, kind in ((ctx.func("rise.compute_rise_offsets"), ("rising_interval", "rising_interval_zeta"), "rise"),
                          (ctx.func("recession.compute_offsets"), ("recession_interval", "recession_interval_zeta"), "recession")):
        flow = Flow.of(f)
        call = [c for c in ast.walk(f.node) if isinstance(c, ast.Call) and ctx.cg.resolve_callee(f, c.func) == ["fit_offsets.get_series_time_offsets"]]
        if len(call) != 1:
            chk.indeterminate(rule, where_of(f, f.node), "call of get_series_time_offsets not found")
            continue
        st = enclosing_stmt(call[0])
        if not (isinstance(st, ast.Assign) and isinstance(st.targets[0], ast.Tuple) and len(st.targets[0].elts) == 3):
            chk.indeterminate(rule, where_of(f, st), "result of get_series_time_offsets not unpacked into three names")
            continue
        ids_n, offs_n, map_n = [e.id for e in st.targets[0].elts]
        series_arg = call[0].args[0] if call[0].args else None
        _lineage_of_stored_rows(ctx, chk, f, flow, kind, tabs, ids_n, offs_n, map_n, series_arg, rule=rule)


def _lineage_of_stored_rows(ctx, chk, f, flow, kind, tabs, ids_n, offs_n, map_n, series_arg, rule="C13.O3"):
    """Every row written to <kind>_interval / <kind>_interval_zeta carries the start of the interval whose
    series has the id in scope, the offset at that id's position, the crossing paired with that id and the
    level id that keys it.  Decided by resolving the stored expressions through (a) loop bindings
    (enumerate / zip / .items()), (b) the per-row lists appended in lock step with the series list
    (LIST[sid] = what was appended for that row) and (c) the identity A[position of K in A] = K."""
    import copy
    from ..loops import binding
    from ..idioms import index_lookup

    # --- the row loop and its lists
    sp = _series_pair(ctx, f, flow, series_arg)
    if sp is None:
        chk.indeterminate(rule, where_of(f, f.node), "the list of series handed to get_series_time_offsets is not built by appends in one loop over the intervals")
        return
    row_loop = sp["loop"]
    appended = {k: [e for e, _top in v] for k, v in sp["appended"].items()}
    aligned = sp["aligned"]
    # row variable holding zeta_interval.start_epoch
    zs_name = None
    rowb = None
    for b in bindings(ctx, f):
        if b.kind == "rows" and any(x.table == "zeta_interval" for x in b.site.stmt.sources) or \
                (b.kind == "rows" and any((x.table or "").startswith("zeta_interval") for x in b.site.stmt.sources)):
            rowb = b
    if rowb is not None:
        al = {x.alias: x.table for x in rowb.site.stmt.sources}
        for i_, nm in enumerate(rowb.names):
            e = rowb.site.stmt.columns[i_][0]
            if nm and e[0] == "col" and e[2] == "start_epoch" and al.get(e[1], e[1] or "zeta_interval") in ("zeta_interval", None):
                zs_name = nm
    series_x = sp["x"]
    series_list = sp["lists"][0] if len(sp["lists"]) == 1 else None

    def role(name_node):
        b = binding(name_node)
        if b is None:
            # sid = IDS[i] with i counting the positions of IDS (or of the offsets)
            dv = flow.def_value(name_node)
            if isinstance(dv, ast.Subscript) and isinstance(dv.value, ast.Name) and isinstance(dv.slice, ast.Name):
                r_, lp_ = role(dv.slice)
                if r_ == "pos" and dv.value.id == ids_n:
                    return "sid", lp_
                if r_ == "pos" and dv.value.id == offs_n:
                    return "offset", lp_
            return None, None
        c = b.container
        if isinstance(c, ast.Name) and c.id == ids_n:
            if b.kind == "elem" and b.path == ():
                return "sid", b.loop
            if b.kind == "counter":
                return "pos", b.loop
        if isinstance(c, ast.Name) and c.id == offs_n:
            if b.kind == "elem" and b.path == ():
                return "offset", b.loop
            if b.kind == "counter":
                return "pos", b.loop
        if isinstance(c, ast.Name) and c.id == map_n:
            if b.kind == "key":
                return "level", b.loop
            if b.kind == "value" and b.path == ():
                return "crossings", b.loop
        if isinstance(c, ast.Name) and b.kind == "elem":
            r2, l2 = role(c)
            if r2 == "crossings":
                if b.path == (0,):
                    return "sid", b.loop
                if b.path == (1,):
                    return "crossing", b.loop
        if isinstance(c, ast.Subscript) and isinstance(c.value, ast.Name) and c.value.id == map_n and b.kind == "elem":
            if b.path == (0,):
                return "sid", b.loop
            if b.path == (1,):
                return "crossing", b.loop
        return None, None

    def simplify(e):
        """tuple[k] -> element; A[lookup of K in A] -> K; np.array(x) kept."""
        changed = True
        while changed:
            changed = False
            for parent in ast.walk(ast.Expression(body=e)) if False else [None]:
                pass
            e2 = _rewrite(e)
            if ast.dump(e2) != ast.dump(e):
                e = e2
                changed = True
        return e

    def _rewrite(e):
        class T(ast.NodeTransformer):
            def visit_Subscript(self, node):
                self.generic_visit(node)
                v, sl = node.value, node.slice
                if isinstance(v, (ast.Tuple, ast.List)) and isinstance(sl, ast.Constant) and isinstance(sl.value, int) and -len(v.elts) <= sl.value < len(v.elts):
                    return v.elts[sl.value]
                lk = index_lookup(sl)
                if lk is not None and lk[3] == 0 and lk[0] == "eq":
                    a, b_ = lk[1], lk[2]
                    if ast.dump(a) == ast.dump(v):
                        return b_
                    if ast.dump(b_) == ast.dump(v):
                        return a
                return node
        return T().visit(_clone(e))

    def through_rows(name_node):
        """`for a, b in ROWS` with ROWS = [(E0, E1) for ... ]: a stands for E0 (in the comprehension's scope)."""
        b = binding(name_node)
        if b is None or b.kind != "elem" or len(b.path) != 1 or not isinstance(b.container, ast.Name):
            return None
        dv = flow.def_value(b.container)
        while isinstance(dv, ast.Call) and isinstance(dv.func, ast.Name) and dv.func.id in ("list", "tuple") and len(dv.args) == 1:
            dv = dv.args[0]
        if isinstance(dv, (ast.ListComp, ast.GeneratorExp)) and isinstance(dv.elt, (ast.Tuple, ast.List)) and b.path[0] < len(dv.elt.elts):
            return dv.elt.elts[b.path[0]]
        return None

    def pre_expand(v):
        """v with such row variables replaced by the expressions they stand for (original nodes, so that loop
        bindings inside the comprehension can still be looked up)."""
        for n in ast.walk(v):
            if isinstance(n, ast.Name) and isinstance(n.ctx, ast.Load) and flow.def_value(n) is None:
                inner = through_rows(n)
                if inner is not None and v is n:
                    return inner
        return v

    def resolve(v, sid_name):
        """v with LIST[sid] replaced by what the row loop appended to LIST; None if some LIST[sid] is not an aligned list."""
        ok = [True]
        v = pre_expand(v)
        ex = flow.expand(v, keep={sid_name, ids_n, offs_n, map_n} | set(appended))
        if sid_name.startswith("Subscript("):
            # the dump of an expanded copy has no positions either: compare structurally
            pass

        class T(ast.NodeTransformer):
            def visit_Subscript(self, node):
                is_sid = (isinstance(node.slice, ast.Name) and node.slice.id == sid_name) or \
                    (sid_name.startswith("Subscript(") and ast.dump(node.slice) == sid_name)
                if isinstance(node.value, ast.Name) and node.value.id in appended and is_sid:
                    if node.value.id not in aligned:
                        ok[0] = False
                        return node
                    return flow.expand(aligned[node.value.id])
                self.generic_visit(node)
                return node
        r = T().visit(ex)
        if not ok[0]:
            return None
        # a list indexed by anything else than the id in scope is not resolved
        for n in ast.walk(r):
            if isinstance(n, ast.Name) and n.id in appended:
                return None
        return simplify(r)

    for s in ctx.sites_in(f):
        if s.stmt is None or s.stmt.kind != "insert" or s.stmt.table not in tabs:
            continue
        pd = None
        pn = s.params_node
        if isinstance(pn, (ast.GeneratorExp, ast.ListComp)) and isinstance(pn.elt, ast.Dict):
            pn = pn.elt          # executemany over a generator of parameter dicts: loop roles come from its generators
        if isinstance(pn, ast.Dict):
            pd = {k.value: v for k, v in zip(pn.keys, pn.values) if isinstance(k, ast.Constant)}
        if isinstance(pn, (ast.GeneratorExp, ast.ListComp)) and isinstance(pn.elt, (ast.Tuple, ast.List)) \
                and not any(isinstance(x, ast.Starred) for x in pn.elt.elts) and s.stmt.values is not None and len(s.stmt.values) == len(s.stmt.columns):
            # executemany over a generator of positional parameter tuples: the k-th `?` is the k-th element
            pd = {}
            for col_, v_ in zip(s.stmt.columns, s.stmt.values):
                if isinstance(v_, tuple) and v_ and v_[0] == "param" and isinstance(v_[1], int) and 0 <= v_[1] < len(pn.elt.elts):
                    pd[col_] = pn.elt.elts[v_[1]]
                    pd.setdefault({"zeta_number": "discrete_zeta", "mean_crossing_time": "mean_crossing_time_s"}.get(col_, col_), pn.elt.elts[v_[1]])
            pd = pd or None
        # by column, whatever the parameters are called (and for positional parameters)
        if not (isinstance(s.params_node, (ast.GeneratorExp, ast.ListComp))):
            cv_ = s.column_values(flow)
            if cv_:
                pd = dict(pd or {})
                for col_, e_ in cv_.items():
                    pd.setdefault(col_, e_)
                # the column names this rule asks for
                alias_ = {"zeta_number": "discrete_zeta", "mean_crossing_time": "mean_crossing_time_s"}
                for col_, e_ in cv_.items():
                    if col_ in alias_:
                        pd.setdefault(alias_[col_], e_)
        if pd is None:
            chk.indeterminate(rule, where_of(f, s.call), "parameters of the INSERT into %s are not a literal dict" % s.stmt.table)
            continue
        where = where_of(f, s.call)
        v = pd.get("start_epoch")
        # names in the stored expressions and their loop roles
        def roles_in(e):
            out = {}
            if e is None:
                return out
            ex = flow.expand(e, keep=set()) if False else e
            seen = set()
            stack = [e]
            while stack:
                x = stack.pop()
                for n in ast.walk(x):
                    if isinstance(n, ast.Name) and isinstance(n.ctx, ast.Load) and id(n) not in seen:
                        seen.add(id(n))
                        r, lp = role(n)
                        if r == "pos" and isinstance(getattr(n, "parent", None), ast.Subscript) and n.parent.slice is n \
                                and isinstance(n.parent.value, ast.Name) and n.parent.value.id == ids_n:
                            # IDS[position]: the series id, written inline
                            out.setdefault("sid", []).append((n.parent, lp))
                        if r:
                            out.setdefault(r, []).append((n, lp))
                        else:
                            dv = flow.def_value(n)
                            if dv is None:
                                dv = through_rows(n)
                            if dv is not None and len(seen) < 200:
                                stack.append(dv)
            return out
        rs = roles_in(v)
        sids = rs.get("sid", [])
        if v is not None and not sids and any(
                isinstance(n, ast.Subscript) and isinstance(n.value, ast.Name) and n.value.id in appended and isinstance(n.slice, ast.Name)
                and role(n.slice)[0] in ("pos", "level", "crossing", "offset")
                for n in _expanded_with_parents(flow, v, appended)):
            chk.ob(rule, False, where, "%s.start_epoch = %s: a per-row list indexed by something that is not a series id"
                   % (s.stmt.table, ast.unparse(flow.expand(v, keep=set(appended)))[:100]),
                   "start of the interval whose series carries that id", key="%s|%s|start_epoch" % (f.qualname, s.stmt.table),
                   why="the position in the returned ids (or a level id) is not an index into the caller's lists")
        elif v is None or not sids:
            chk.indeterminate(rule, where, "%s.start_epoch = %s: no series id (element of the returned ids / of a crossing list) in it"
                              % (s.stmt.table, ast.unparse(v) if v is not None else "?"))
        else:
            sid_node, sid_loop = sids[0]
            sid_text = sid_node.id if isinstance(sid_node, ast.Name) else ast.unparse(sid_node)
            r = resolve(v, sid_node.id if isinstance(sid_node, ast.Name) else ast.dump(flow.expand(sid_node, keep={ids_n})))
            if r is None:
                chk.indeterminate(rule, where, "%s.start_epoch = %s uses a list that is not appended exactly once per row" % (s.stmt.table, ast.unparse(v)))
            else:
                # strip int()/float() wrappers
                core = r
                while isinstance(core, ast.Call) and isinstance(core.func, ast.Name) and core.func.id in ("int", "float") and len(core.args) == 1:
                    core = core.args[0]
                good = (isinstance(core, ast.Name) and core.id == zs_name) or \
                       (series_x is not None and isinstance(core, ast.Subscript) and isinstance(core.slice, ast.Constant) and core.slice.value == 0
                        and ast.dump(core.value) == ast.dump(flow.expand(series_x)))
                # decided only if the resolved expression speaks about the row loop's own quantities
                row_names = {n.id for n in ast.walk(row_loop.target) if isinstance(n, ast.Name)} if row_loop is not None else set()
                mentions_row = any(isinstance(n, ast.Name) and n.id in row_names for n in ast.walk(core))
                from ..idioms import lookup_defect
                unread_lookup = any(isinstance(n, ast.Subscript) and isinstance(n.value, ast.Name) and any(isinstance(c_, ast.Call) for c_ in ast.walk(n.slice))
                                    and index_lookup(n.slice) is None and lookup_defect(n.slice) is None for n in ast.walk(core))
                if not good and unread_lookup:
                    chk.indeterminate(rule, where, "%s.start_epoch resolves to %s: an element looked up by something other than an exact position look-up" % (s.stmt.table, ast.unparse(core)[:80]))
                elif not good and not mentions_row:
                    chk.indeterminate(rule, where, "%s.start_epoch resolves to %s, which is not expressed in the row loop's variables" % (s.stmt.table, ast.unparse(core)[:80]))
                else:
                    chk.ob(rule, good, where, "%s.start_epoch = %s = %s for the row of series id %s" % (s.stmt.table, ast.unparse(v)[:60], ast.unparse(core)[:80], sid_text),
                           "start of the interval whose series carries that id", key="%s|%s|start_epoch" % (f.qualname, s.stmt.table),
                           why="an offset or crossing stored under another interval's start belongs to the wrong interval")
        sid_loop = sids[0][1] if sids else None
        if s.stmt.table == tabs[0]:
            offcol = "rain_depth_offset_mm" if kind == "rise" else "time_offset_s"
            ov = pd.get(offcol)
            if isinstance(ov, ast.Name) and flow.def_value(ov) is None and through_rows(ov) is not None:
                ov = through_rows(ov)
            verdict = None
            if ov is not None and sid_loop is not None:
                ro = roles_in(ov)
                for n, lp in ro.get("offset", []):
                    verdict = lp is sid_loop if verdict is None else verdict and lp is sid_loop
                exo = flow.expand(ov, keep={offs_n, ids_n})
                for n in ast.walk(ov):
                    if isinstance(n, ast.Subscript) and isinstance(n.value, ast.Name) and n.value.id == offs_n:
                        if isinstance(n.slice, ast.Name):
                            r_, lp = role(n.slice)
                            verdict = (r_ == "pos" and lp is sid_loop) if verdict is None else verdict and (r_ == "pos" and lp is sid_loop)
                        else:
                            verdict = False
            if verdict is None:
                chk.indeterminate(rule, where, "%s = %s: no element of the returned offsets in it" % (offcol, ast.unparse(ov) if ov is not None else "?"))
            else:
                chk.ob(rule, verdict, where, "%s = %s" % (offcol, ast.unparse(ov)),
                       "the offset at the same position as the series id", key="%s|%s|offset-position" % (f.qualname, s.stmt.table))
        else:
            ccol = "mean_crossing_depth_mm" if kind == "rise" else "mean_crossing_time_s"
            cv, zv = pd.get(ccol), pd.get("discrete_zeta")
            rc, rz = roles_in(cv), roles_in(zv)
            zb_ = binding(zv) if isinstance(zv, ast.Name) else None
            if zb_ is not None and zb_.kind == "counter":
                chk.ob(rule, False, where, "level id written = %s, a running count of `%s`" % (ast.unparse(zv), ast.unparse(zb_.loop.iter)[:60]),
                       "the key of the returned mapping under which the crossing is listed", key="%s|%s|crossing" % (f.qualname, s.stmt.table),
                       why="levels crossed by a single interval are removed from the mapping, so its keys are not consecutive: counted from the lowest, every crossing above a removed level is stored one level too low and the stored offsets no longer minimise the spread of the stored crossings")
            elif not rc or not rz or sid_loop is None:
                chk.indeterminate(rule, where, "crossing = %s at level %s: not loop variables of the returned mapping" % (
                    ast.unparse(cv) if cv is not None else "?", ast.unparse(zv) if zv is not None else "?"))
            else:
                ok_c = list(rc) == ["crossing"] and all(lp is sid_loop for _, lp in rc["crossing"])
                # the level key must key the list the (sid, crossing) pairs come from
                ok_z = list(rz) == ["level"]
                if ok_z:
                    lvl_loop = rz["level"][0][1]
                    cont = binding(sids[0][0]).container if isinstance(sids[0][0], ast.Name) else None
                    if isinstance(cont, ast.Name):
                        bcont = binding(cont)
                        ok_z = bcont is not None and bcont.loop is lvl_loop
                    elif isinstance(cont, ast.Subscript) and isinstance(cont.slice, ast.Name):
                        rk, lk_ = role(cont.slice)
                        ok_z = rk == "level" and lk_ is lvl_loop
                    else:
                        ok_z = False
                chk.ob(rule, ok_c and ok_z, where, "crossing = %s at level %s" % (ast.unparse(cv), ast.unparse(zv)),
                       "the crossing value paired with that series id, at the level id that keys it", key="%s|%s|crossing" % (f.qualname, s.stmt.table))

def _expanded_with_parents(flow, v, keep):
    """Original nodes of v and of the definitions it reaches (so that loop bindings can be looked up)."""
    seen = set()
    out = []
    stack = [v]
    while stack and len(out) < 400:
        x = stack.pop()
        for n in ast.walk(x):
            if id(n) in seen:
                continue
            seen.add(id(n))
            out.append(n)
            if isinstance(n, ast.Name) and isinstance(n.ctx, ast.Load) and n.id not in keep:
                dv = flow.def_value(n)
                if dv is not None:
                    stack.append(dv)
    return out


def _series_arrays(ctx, f):
    """(epoch array name, level array name) bound from the water_level query of f."""
    for b in bindings(ctx, f):
        if b.kind == "columns" and {x.table for x in b.site.stmt.sources} == {"water_level"}:
            en = ln = None
            for i, nm in enumerate(b.names):
                e = b.site.stmt.columns[i][0]
                if nm and e[0] == "col" and e[2] == "epoch":
                    en = nm
                if nm and e[0] == "col" and e[2] == "zeta_mm":
                    ln = nm
            if en and ln:
                return en, ln
    return None, None


def _anc(node):
    n = getattr(node, "parent", None)
    while n is not None:
        yield n
        n = getattr(n, "parent", None)
