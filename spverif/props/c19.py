"""C19 -- calibration files and simulation output describe the same problem.

 O1 declared counts NPAR / NOBS / NPARGP / NOBSGP = symbolic number of
    lines in the corresponding sections (lossless-join lemma for NOBS)
 O2 names: parameter names = template placeholders (case-insensitive);
    every parameter's and observation's group is declared; observation
    name families of .pst and .ins agree
 O3 order: per curve, direction(pst observations) = direction(simulate)
 O4 observation values are written with >= 17 significant digits
 O5 .ins column window starts at column 3 and is >= 24 wide
 O6 .ins markers = comment lines written by the simulate commands
 O7 template keys = constructor parameters of the class the factory maps
    the type to; fixed values are the original values
"""

import ast
import re

from ..flow import Flow
from ..norm import NotAlgebraic, Poly, sql_poly
from ..pestsym import Item, SymList, first_token, sections, token, total
from ..report import where_of
from ..source import AnalysisError, dotted_name
from ..pestsym import ReadableWrong
from ..sqlmodel import conjuncts
from .c17 import resolve_vector, column_role, strip_tolist, vector_dumps

PST_HEADERS = ["* control data", "* parameter groups", "* parameter data", "* observation groups",
               "* observation data", "* model command line", "* model input/output", "* prior information"]
KINDS = ("rise", "curves")
TYPES = ("spline", "peatclsm")


def lemma_lossless(ctx, view, child):
    """#rows(view) = count(distinct child.zeta_number): every join of the
    view follows a declared FK on NOT NULL columns, grouping is by the
    level id (plus columns of a singleton table)."""
    sch = ctx.schema
    v = sch.views.get(view)
    if v is None:
        return False, "view %s missing" % view
    sel = v.select
    alias = {s.alias: s.table for s in sel.sources}
    if child not in alias.values():
        return False, "%s not in view" % child
    for s in sel.sources[1:]:
        if s.join != "INNER":
            return False, "non-inner join"
        pairs = []
        if s.using:
            for col in s.using:
                pairs.append((col, col))
        elif s.on is not None:
            for c in conjuncts(s.on):
                if c[0] == "bin" and c[1] == "=" and c[2][0] == "col" and c[3][0] == "col":
                    pairs.append((c[2], c[3]))
                else:
                    return False, "non-equality join"
        ok = False
        # find an FK between the joined table and an earlier one covering the pairs
        for t in sch.tables.values():
            for cols, rt, rcols in t.fks:
                tabs = {t.name, rt}
                if s.table in tabs and (tabs - {s.table} <= set(alias.values()) or tabs == {s.table}):
                    # NOT NULL on fk columns
                    if all(t.col(c) is not None and (t.col(c).notnull or c in t.pk) for c in cols):
                        names = set()
                        for pr in pairs:
                            if isinstance(pr[0], str):
                                names |= {pr[0]}
                            else:
                                names |= {pr[0][2], pr[1][2]}
                        if set(cols) <= names or set(rcols) <= names:
                            ok = True
        if not ok:
            return False, "join with %s does not follow a declared NOT NULL foreign key" % s.table
    gb = [g for g in sel.group_by]
    gcols = [g[2] for g in gb if g[0] == "col"]
    if "zeta_number" not in gcols:
        return False, "view is not grouped by the level id"
    for g in gcols:
        if g == "zeta_number":
            continue
        owners = [t for t in alias.values() if t in sch.tables and sch.tables[t].col(g)]
        if not owners or not all(sch.is_singleton(t) for t in owners):
            return False, "extra grouping column %s is not from a singleton table" % g
    return True, "all joins follow NOT NULL foreign keys; grouped by level id"


def _float_form(e):
    """Canonical tree of the floating-point operations of an SQL expression: literals as floats, integer-only constant
    sub-expressions folded (exact), CAST to a real type dropped (the identity on the value), operands of + and * sorted
    (IEEE addition and multiplication commute; nothing is re-associated).  None if the expression has other node kinds."""
    from fractions import Fraction

    def const_int(x):
        if x[0] == "num":
            try:
                v = Fraction(str(x[1]))
            except Exception:
                return None
            return v if v.denominator == 1 and "." not in str(x[1]) and "e" not in str(x[1]).lower() else None
        if x[0] == "bin" and x[1] in ("+", "-", "*"):
            a, b = const_int(x[2]), const_int(x[3])
            if a is None or b is None:
                return None
            return a + b if x[1] == "+" else (a - b if x[1] == "-" else a * b)
        return None

    def rec(x):
        ci = const_int(x)
        if ci is not None:
            return ("k", float(ci))
        if x[0] == "num":
            try:
                return ("k", float(x[1]))
            except Exception:
                return None
        if x[0] == "col":
            return ("col", x[2])
        if x[0] == "cast":
            ty = str(x[2]).upper()
            if any(t in ty for t in ("REAL", "DOUBLE", "FLOAT")):
                return rec(x[1])
            return None
        if x[0] == "bin" and x[1] in ("+", "-", "*", "/"):
            a, b = rec(x[2]), rec(x[3])
            if a is None or b is None:
                return None
            if x[1] in ("+", "*"):
                a, b = sorted((a, b), key=repr)
            return (x[1], a, b)
        return None

    return rec(e)


def run(ctx, chk, tier="quick"):
    chk.explanation = (
        "Symbolic construction (per parameterisation branch) of the line lists written by the six "
        "pestfiles generators: section line counts as polynomials over symbolic sizes compared with the "
        "declared control-line counts; name families of parameters / placeholders / observations; "
        "ordering parity of observations against the simulate commands; format precision by constant "
        "propagation through the call chain from the CLI; the instruction window; markers; template "
        "keys against constructor signatures."
    )
    chk.assumptions = ["PEST names are case-insensitive", "yaml.dump writes a float list as '- <repr>' lines (number starts in column 3)",
                       "repr(float) is at most 24 characters", "foreign keys hold in the dataset (enforced at load; level ids contained in the grid: C13.O5)"]
    from ..sqlrules import lossy_functions
    lossy_functions(ctx, chk, "C19.O3", ("pestfiles",), "pestfiles",
                    "observation values written to the control file are the master-curve values: a rounded or clipped value is not what the simulation is compared with")
    from .. import sqltypes
    sqltypes.check(ctx, chk, "C19.O3", modules=("pestfiles",), views=("average_rising_depth", "average_recession_time"))
    _truthiness_filters(ctx, chk)
    mod = ctx.repo.module("pestfiles")
    subst = {}
    for view, child, sym in (("average_rising_depth", "rising_interval_zeta", "N_rise"),
                             ("average_recession_time", "recession_interval_zeta", "N_recession")):
        ok, why = lemma_lossless(ctx, view, child)
        chk.ob("C19.O1", ok, ("spowtd/schema.sql", "view " + view, 0), "lossless-join lemma: %s" % why,
               "rows(%s) = count(distinct %s.zeta_number)" % (view, child), key="lemma|%s" % view,
               why="NOBS is taken from one of these and the observation lines from the other")
        if ok:
            subst["rows(%s)" % view] = sym
            subst["count(%s.zeta_number)" % child] = sym

    def canon(p):
        out = Poly.const(0)
        for mono, c in p.terms.items():
            t = Poly.const(c)
            for atom, e in mono:
                t = t * Poly.atom(subst.get(atom, atom)).power(e)
            out = out + t
        return out

    built = {}
    for kind in KINDS:
        for ext in ("tpl", "ins", "pst"):
            fq = "pestfiles.generate_%s_%s_file" % (kind, ext)
            if not ctx.repo.has_func(fq):
                chk.indeterminate("C19.O1", ("spowtd/pestfiles.py", "<module>", 0), "%s not found" % fq)
                continue
            f = ctx.func(fq)
            for sy in TYPES:
                for tr in (TYPES if ext == "tpl" else (sy,)):
                    try:
                        s = SymList(ctx, f, {"specific_yield.type": sy, "transmissivity.type": tr}).run()
                    except ReadableWrong as exc:
                        chk.ob("C19.O1", False, where_of(f, exc.node if exc.node is not None else f.node), str(exc), exc.required,
                               key="%s|readable-wrong|%s" % (f.qualname, str(exc)[:40]),
                               why="the instruction / control file is generated with the two section sizes exchanged (or fails) whenever the counts are not in statement order")
                        continue
                    except (AnalysisError, NotAlgebraic) as exc:
                        chk.indeterminate("C19.O1", where_of(f, f.node), "symbolic construction (%s/%s): %s" % (sy, tr, exc))
                        continue
                    if s.written is None:
                        chk.indeterminate("C19.O1", where_of(f, f.node), "no outfile.write(os.linesep.join(lines)) found (%s/%s)" % (sy, tr))
                        continue
                    built[(kind, ext, sy, tr)] = (f, s)
    chk.floor("generator x parameterisation branches constructed symbolically", len(built), 16)

    # ------------------------------------------------------------ pst files
    for kind in KINDS:
        for sy in TYPES:
            k = (kind, "pst", sy, sy)
            if k not in built:
                continue
            f, s = built[k]
            items = s.written
            sec = sections(items, PST_HEADERS)
            ctrl = sec.get("* control data", [])
            if len(ctrl) < 2 or len(ctrl[1].args) != 4:
                chk.indeterminate("C19.O1", where_of(f, f.node), "control line with four formatted counts not found (%s %s)" % (kind, sy))
                continue
            cl = ctrl[1]

            def count_arg(a):
                # str(x).rjust(k) -> x
                n = a
                while isinstance(n, ast.Call) and isinstance(n.func, ast.Attribute) and n.func.attr in ("rjust", "ljust", "format", "center"):
                    n = n.func.value
                if isinstance(n, ast.Call) and isinstance(n.func, ast.Name) and n.func.id == "str" and n.args:
                    n = n.args[0]
                return canon(s.intval(n))

            try:
                npar, nobs, npargp, nobsgp = [count_arg(a) for a in cl.args]
            except NotAlgebraic as exc:
                chk.indeterminate("C19.O1", where_of(f, cl.node), "declared counts not symbolic: %s" % exc)
                continue
            # the literal between NPARGP and NOBSGP is NPRIOR = 0
            pairs = [("NPAR", npar, "* parameter data"), ("NOBS", nobs, "* observation data"),
                     ("NPARGP", npargp, "* parameter groups"), ("NOBSGP", nobsgp, "* observation groups")]
            for name, declared, hdr in pairs:
                lines = canon(total(sec.get(hdr, [])))
                chk.ob("C19.O1", declared == lines, where_of(f, cl.node),
                       "%s %s: %s declared %s, section '%s' has %s lines" % (kind, sy, name, declared.key(), hdr, lines.key()),
                       "declared count = number of lines", key="%s|%s|%s" % (f.qualname, sy, name),
                       why="PEST reads exactly the declared number of lines from each section")
            # ---- names
            pdata = sec.get("* parameter data", [])
            pgroups = {first_token(it).lower() for it in sec.get("* parameter groups", [])}
            ogroups = {first_token(it).lower() for it in sec.get("* observation groups", [])}
            pfams = [name_family(it, s, canon) for it in pdata]
            for it in pdata:
                g = token(it, 6)
                chk.ob("C19.O2", g is not None and g.lower() in pgroups, where_of(f, it.node),
                       "%s %s: parameter %s in group %s" % (kind, sy, first_token(it), g), "a declared parameter group",
                       key="%s|%s|pargroup|%s" % (f.qualname, sy, first_token(it)))
            odata = sec.get("* observation data", [])
            for it in odata:
                g = it.template.split()[-1]
                chk.ob("C19.O2", g.lower() in ogroups, where_of(f, it.node),
                       "%s %s: observations %s in group %s" % (kind, sy, first_token(it), g), "a declared observation group",
                       key="%s|%s|obsgroup|%s" % (f.qualname, sy, g))
            # template placeholders for the same parameterisation
            for tr in TYPES:
                kt = (kind, "tpl", sy, tr)
                if kt not in built or (kind == "curves" and tr != sy):
                    continue
                tf, ts = built[kt]
                placeholders = []
                for it in ts.written:
                    for m in re.finditer(r"@\s*([A-Za-z_][A-Za-z_0-9]*(?:\{\d+\})?)\s*@", it.template):
                        placeholders.append(name_family(it, ts, canon, m.group(1)))
                    if it.template.startswith("ptf"):
                        continue
                if kind == "rise" and tr != sy:
                    # the rise template only parameterises the specific yield
                    pass
                a = sorted(fam_key(x) for x in pfams)
                b = sorted(fam_key(x) for x in placeholders)
                chk.ob("C19.O2", a == b, where_of(tf, tf.node),
                       "%s sy=%s T=%s: control-file parameters %s; template placeholders %s" % (kind, sy, tr, a, b),
                       "the same names (case-insensitive), the same index ranges",
                       key="%s|%s|%s|names" % (tf.qualname, sy, tr),
                       why="PEST matches template placeholders to control-file parameters by name")
            # ---- observations vs ins
            ki = (kind, "ins", sy, sy)
            if ki in built:
                jf, js = built[ki]
                ins_f = [name_family(it, js, canon) for it in js.written if it.kind == "fam"]
                pst_f = [name_family(it, s, canon) for it in odata]
                a = [fam_key(x) for x in pst_f]
                b = [fam_key(x) for x in ins_f]
                chk.ob("C19.O2", a == b, where_of(jf, jf.node), "%s %s: pst observations %s; ins observations %s" % (kind, sy, a, b),
                       "the same e<k> families in the same order", key="%s|%s|obsnames" % (jf.qualname, sy),
                       why="the k-th value extracted must be compared with the k-th observation")
            # ---- O4 precision
            for it in odata:
                spec = None
                for m in re.finditer(r"\{(\d+)(?:![rsa])?:([^}]*)\}", it.template):
                    spec = m.group(2)
                conv = re.search(r"\{\d+!r\}", it.template)
                prec = None
                if spec:
                    m = re.match(r"0?\.(<\w+>|\d+)([geEfG])$", spec)
                    if m:
                        prec = m.group(1)
                        typ = m.group(2)
                if conv:
                    chk.ob("C19.O4", True, where_of(f, it.node), "observation value written with repr()", "round-trips", key="%s|%s|precision|%s" % (f.qualname, sy, it.template.split()[-1]))
                    continue
                if prec is None:
                    chk.indeterminate("C19.O4", where_of(f, it.node), "format of the observation value not recognised: %r" % it.template)
                    continue
                if prec.startswith("<"):
                    val = resolve_param(ctx, f, prec[1:-1])
                else:
                    val = int(prec)
                need = 17 if typ in "gG" else (16 if typ in "eE" else None)
                ok = val is not None and need is not None and val >= need
                chk.ob("C19.O4", ok, where_of(f, it.node),
                       "%s %s: observation values formatted with .%s%s (precision reaching the format: %s)" % (kind, sy, prec, typ, val),
                       ">= 17 significant digits, so that the text reads back as the identical float",
                       key="%s|%s|precision|%s" % (f.qualname, sy, it.template.split()[-1]),
                       why="with fewer digits the control file's observation differs from the stored master-curve value")
            # ---- O3 order of observations vs simulate
            for it in odata:
                src = getattr(it, "source", None)
                if src is None or src not in s.sql_order:
                    chk.indeterminate("C19.O3", where_of(f, it.node), "source query of the observation values not found")
                    continue
                tab, order_by, sel = s.sql_order[src]
                d = None
                if order_by and column_role(order_by[0][0]) == "level":
                    d = order_by[0][1]
                want = simulate_direction(ctx, tab)
                vv = getattr(it, "value_var", None)
                uses_val = any(isinstance(a, ast.Name) and a.id == vv for a in it.args)
                if d is None or want is None:
                    chk.indeterminate("C19.O3", where_of(f, it.node), "%s %s: direction of the observations (%s) or of the simulated vector (%s) not determined"
                                      % (kind, sy, d, want[0] if want else None))
                    continue
                chk.ob("C19.O3", d is not None and want is not None and d == want[0] and uses_val, where_of(f, it.node),
                       "%s %s: observations from %s ordered by level %s; simulate writes %s" % (kind, sy, tab, d, want[0] if want else "?"),
                       "the same direction", key="%s|%s|order|%s" % (f.qualname, sy, tab),
                       why="otherwise the k-th observation and the k-th simulated value belong to different levels")
                # the value written is the measured curve value of that view
                col0 = sel.columns[0][0]
                chk.ob("C19.O3", column_role(col0) == "measured", where_of(f, it.node),
                       "%s %s: observation value column = %s" % (kind, sy, _expr(col0)), "the measured master-curve value",
                       key="%s|%s|obsvalue|%s" % (f.qualname, sy, tab))
                # ... in the unit its name says, and in the same unit as the measured column the simulate command reads
                try:
                    from .c17 import sql_alias_unit
                    from ..units import fmt as _fmt
                    ue, ua, cname = sql_alias_unit(sel, 0)
                    if ue is not None and ua is not None:
                        chk.ob("C19.O3", ue == ua, where_of(f, it.node), "%s %s: observation column %s [%s] named as [%s]" % (kind, sy, cname, _fmt(ue), _fmt(ua)),
                               "alias unit = expression unit", key="%s|%s|obsunit|%s" % (f.qualname, sy, tab),
                               why="observations in another unit than the simulated values make every residual meaningless")
                    sim = ctx.func("simulate_rise.simulate_rise") if tab == "average_rising_depth" else ctx.func("simulate_recession.simulate_recession")
                    from ..sqlbind import bindings as _bindings
                    sims = [x for x in ctx.sites_in(sim)] + [b_.site for b_ in _bindings(ctx, sim) if getattr(b_, "via", None)]
                    for ss in sims:
                        if ss.stmt is not None and ss.stmt.kind == "select" and tab in {x.table for x in ss.stmt.sources}:
                            mcols = [c_[0] for c_ in ss.stmt.columns if column_role(c_[0]) == "measured"]
                            if len(mcols) == 1:
                                def unq(e):
                                    # both queries read one view: a table alias in front of a column means nothing
                                    if isinstance(e, tuple):
                                        if len(e) == 3 and e[0] == "col":
                                            return ("col", None, e[2])
                                        return tuple(unq(x) for x in e)
                                    if isinstance(e, list):
                                        return [unq(x) for x in e]
                                    return e
                                same = sql_poly(unq(mcols[0])) == sql_poly(unq(col0))
                                if same:
                                    fa, fb = _float_form(unq(mcols[0])), _float_form(unq(col0))
                                    if fa is not None and fb is not None:
                                        chk.ob("C19.O3", fa == fb, where_of(f, it.node),
                                               "%s %s: observation value computed as %s ; the simulate command computes %s" % (kind, sy, _expr(col0), _expr(mcols[0])),
                                               "the same sequence of floating-point operations (equal as real numbers is not enough: x / 3600 / 24 rounds twice, x / 86400 once)",
                                               key="%s|%s|obs-vs-simulate-float|%s" % (f.qualname, sy, tab),
                                               why="the k-th observation must be the measured value the simulate command reports for that level, not a neighbouring floating-point number")
                                chk.ob("C19.O3", same, where_of(f, it.node),
                                       "%s %s: observation value = %s ; the simulate command compares with %s" % (kind, sy, _expr(col0), _expr(mcols[0])),
                                       "the same expression of the view's column", key="%s|%s|obs-vs-simulate|%s" % (f.qualname, sy, tab),
                                       why="PEST subtracts the k-th simulated value from the k-th observation: both must be the same quantity in the same unit")
                except NotAlgebraic:
                    pass
            # rise block before recession block
            if kind == "curves" and len(odata) == 2:
                tabs = [s.sql_order.get(getattr(it, "source", None), (None,))[0] for it in odata]
                chk.ob("C19.O3", tabs == ["average_rising_depth", "average_recession_time"], where_of(f, odata[0].node),
                       "observation blocks from %s" % tabs, "rise block, then recession block (as in the .ins file)",
                       key="%s|%s|block-order" % (f.qualname, sy))

    # ------------------------------------------------------------ ins files
    markers = {}
    seen_widths = set()
    item_formats = {}       # values written one per line with a hand-made format, not by yaml.dump
    for fq, label in (("simulate_rise.simulate_rise", "rise"), ("simulate_recession.dump_simulated_recession", "recession")):
        g = ctx.func(fq)
        ins_texts = set()
        for kind_ in KINDS:
            if (kind_, "ins", "spline", "spline") in built:
                for it_ in built[(kind_, "ins", "spline", "spline")][1].written:
                    if it_.kind == "lit" and it_.template.startswith("@"):
                        ins_texts.add(it_.template.strip("@").strip())
        entries = list(vector_dumps(ctx, g))
        # several comment lines before the vector: the marker is the one the instruction files search for
        searched = [e for e in entries if e[1].strip() in ins_texts]
        for wcall, marker, dump in entries:
            if searched and (wcall, marker, dump) not in searched:
                continue
            markers[label] = marker.strip()
            # the values start on the line after the marker: nothing else is written to the file between the marker and the vector
            if dump is not None:
                from ..source import enclosing_stmt as _encl
                blk = _encl(wcall)
                par_ = getattr(blk, "parent", None)
                body_ = next((getattr(par_, fld) for fld in ("body", "orelse") if blk in getattr(par_, fld, [])), None)
                dstmt = getattr(dump, "loop", None) or _encl(dump)
                while dstmt is not None and body_ is not None and dstmt not in body_:
                    dstmt = getattr(dstmt, "parent", None)
                if body_ is not None and dstmt in body_:
                    recv = ast.unparse(wcall.func.value)
                    between = body_[body_.index(blk) + 1:body_.index(dstmt)]
                    extra = [c_ for st_ in between for c_ in ast.walk(st_) if isinstance(c_, ast.Call) and (
                        (isinstance(c_.func, ast.Attribute) and c_.func.attr in ("write", "writelines") and ast.unparse(c_.func.value) == recv)
                        or ((dotted_name(c_.func) or "").endswith("yaml.dump") and len(c_.args) > 1 and ast.unparse(c_.args[1]) == recv)
                        or (isinstance(c_.func, ast.Name) and c_.func.id == "print" and any(k.arg == "file" and ast.unparse(k.value) == recv for k in c_.keywords)))]
                    chk.ob("C19.O6", not extra, where_of(g, extra[0] if extra else wcall),
                           "%s output: %s between the marker line and the vector" % (label, ("`%s` is written" % ast.unparse(extra[0])[:60]) if extra else "nothing is written"),
                           "the vector starts on the line after the marker: the instruction file reads item k from the k-th line after it (`l1` per item)",
                           key="%s|after-marker" % g.qualname,
                           why="an extra line (a note, a blank line, a header) shifts every read by one level: item 1 reads text, the last level is never read; a YAML reader sees no difference, PEST does")
            if dump is not None and getattr(dump, "item_format", None) is not None:
                item_formats[label] = (g, dump.loop, dump.item_format)
    for kind in KINDS:
        k = (kind, "ins", "spline", "spline")
        if k not in built:
            continue
        f, s = built[k]
        lits = [it for it in s.written if it.kind == "lit"]
        fams = [it for it in s.written if it.kind == "fam"]
        seq = []
        for it in s.written:
            if it.kind == "lit" and it.template.startswith("@"):
                seq.append(it.template.strip("@").strip())
        want = [markers.get("rise")] if kind == "rise" else [markers.get("rise"), markers.get("recession")]
        if None in want:
            chk.indeterminate("C19.O6", where_of(f, f.node), "%s .ins markers %s: the marker line the simulate command writes is not found (%s)" % (kind, seq, want))
            continue
        chk.ob("C19.O6", seq == want, where_of(f, f.node), "%s .ins markers %s" % (kind, seq), "the comment lines simulate writes: %s" % want,
               key="%s|markers" % f.qualname, why="PEST searches the model output for the marker text before reading values")
        for it in fams:
            m = re.search(r"\](\d+):(\d+)$", it.template.strip())
            if not m:
                chk.indeterminate("C19.O5", where_of(f, it.node), "instruction line format not recognised: %r" % it.template)
                continue
            a, b = int(m.group(1)), int(m.group(2))
            width = b - a + 1
            ok = a == 3 and width >= 24
            chk.ob("C19.O5", ok, where_of(f, it.node), "%s .ins window %d:%d (%d columns from column %d)" % (kind, a, b, width, a),
                   "starts at column 3 (after '- ') and is at least 24 columns wide (longest repr of a float)",
                   key="%s|window|%d:%d" % (f.qualname, a, b),
                   why="a value such as -1.2345678901234568e-05 (23 characters) is cut, PEST reads a different number")
            # a writer that formats the items itself fixes their width: it must fit the window that reads them
            from .c17 import common_item_width, max_item_width
            for label_, (g_, loop_, spec_) in sorted(item_formats.items()):
                if (kind == "rise" and label_ != "rise") or (kind, label_, width) in seen_widths:
                    continue
                seen_widths.add((kind, label_, width))
                wmax, wneg = max_item_width(spec_), common_item_width(spec_)
                if wmax is None:
                    chk.indeterminate("C19.O5", where_of(g_, loop_), "width of items written with format %r is not read" % spec_)
                elif wneg is not None and wneg > width:
                    chk.ob("C19.O5", False, where_of(g_, loop_), "%s values are written as '- {:%s}': %d characters for any negative value, read by the %s .ins window %d:%d (%d columns)" % (
                               label_, spec_, wneg, kind, a, b, width),
                           "what the simulation writes fits the columns the instruction file reads", key="%s|item-width|%s|%s" % (g_.qualname, kind, label_),
                           why="the last digit of the exponent of every negative value falls outside the window: PEST reads -3.018e+0 for -3.018e+01")
                elif wmax > width:
                    chk.info("C19.O5", where_of(g_, loop_), "items '- {:%s}' can take %d characters (three-digit exponent, sign); window %d:%d has %d: the window finding above covers it" % (spec_, wmax, a, b, width), "see window")
                else:
                    chk.ob("C19.O5", True, where_of(g_, loop_), "%s values written as '- {:%s}' (at most %d characters) fit the window %d:%d" % (label_, spec_, wmax, a, b),
                           "what the simulation writes fits the columns the instruction file reads", key="%s|item-width|%s|%s" % (g_.qualname, kind, label_))
            chk.ob("C19.O5", it.template.startswith("l1 "), where_of(f, it.node), "instruction %r" % it.template.split()[0],
                   "l1: one value per line of the YAML list", key="%s|line-advance|%s" % (f.qualname, it.start.key()))

    # ------------------------------------------------------------ tpl files: O7
    for (kind, ext, sy, tr), (f, s) in sorted(built.items()):
        if ext != "tpl":
            continue
        cur = None
        keys = {"specific_yield": {}, "transmissivity": {}}
        for it in s.written:
            t = it.template
            if t in ("specific_yield:", "transmissivity:"):
                cur = t[:-1]
                continue
            m = re.match(r"^  ([A-Za-z_][A-Za-z_0-9]*):(.*)$", t)
            if m and cur:
                keys[cur][m.group(1)] = (m.group(2), it)
        for section, ty in (("specific_yield", sy), ("transmissivity", tr)):
            got = dict(keys[section])
            tyval = got.pop("type", (None, None))[0]
            chk.ob("C19.O7", tyval is not None and tyval.strip() == ty, where_of(f, f.node),
                   "%s template (%s/%s): %s type written as %r" % (kind, sy, tr, section, tyval), "type: %s" % ty,
                   key="%s|%s|%s|%s|type" % (f.qualname, sy, tr, section))
            cls = factory_class(ctx, section, ty)
            if cls is None:
                chk.indeterminate("C19.O7", where_of(f, f.node), "factory class for %s type %s not found" % (section, ty))
                continue
            want = [p for p in cls.params if p != "self"]
            chk.ob("C19.O7", sorted(got) == sorted(want), where_of(f, f.node),
                   "%s template (%s/%s): %s keys %s" % (kind, sy, tr, section, sorted(got)),
                   "parameters of %s: %s" % (cls.qualname, sorted(want)), key="%s|%s|%s|%s|keys" % (f.qualname, sy, tr, section),
                   why="a missing or extra key makes the filled template unloadable or silently different")
            # fixed values are the original ones
            for key, (rest, it) in got.items():
                if "@" in rest:
                    continue
                if it.args:
                    p = s.path_of(it.args[0])
                    vc = _value_changing_helper(ctx, f, it.args[0]) if p is None else None
                    if vc is not None:
                        hf_, c_ = vc
                        chk.ob("C19.O7", False, where_of(f, it.node), "%s: %s written from %s, which passes the value through %s" % (section, key, ast.unparse(it.args[0])[:60], ast.unparse(c_)[:50]),
                               "the original value of %s.%s, written as it was read" % (section, key),
                               key="%s|%s|%s|%s|value|%s" % (f.qualname, sy, tr, section, key), local=True,
                               why="filling the template's placeholders with the original values must give back an equivalent parameter file: a fixed value that is clipped, rounded or floored on its way into the template differs from the one in the file whenever it lies outside the range the helper allows")
                        continue
                    chk.ob("C19.O7", p == "%s.%s" % (section, key) and "{0}" in rest, where_of(f, it.node),
                           "%s: %s written from %s" % (section, key, p), "the original value of %s.%s" % (section, key),
                           key="%s|%s|%s|%s|value|%s" % (f.qualname, sy, tr, section, key))
        # list items under list-valued keys iterate the original lists
        for it in s.written:
            if it.kind == "fam" and "@" not in it.template and getattr(it, "source_path", None):
                ok = it.template.strip() == "- {0}" and isinstance(it.args[0], ast.Name) and it.args[0].id == getattr(it, "value_var", None)
                chk.ob("C19.O7", ok, where_of(f, it.node), "list %s written as %r" % (it.source_path, it.template), "one '- value' line per original element",
                       key="%s|%s|%s|list|%s" % (f.qualname, sy, tr, it.source_path))


def _value_changing_helper(ctx, f, e):
    """e = H(...) with H a function of the package whose returned value passes through min / max / clip / round / abs of
    something derived from its parameters: (H, the value-changing call), else None."""
    if not isinstance(e, ast.Call):
        return None
    try:
        tg = ctx.cg.resolve_callee(f, e.func)
    except Exception:
        return None
    hf = ctx.cg.func(tg[0]) if len(tg) == 1 else None
    if hf is None:
        return None
    from ..flow import Flow as _Flow
    hflow = _Flow.of(hf)
    params = set(hf.params)
    for r in ast.walk(hf.node):
        if not (isinstance(r, ast.Return) and r.value is not None):
            continue
        ex = hflow.expand(r.value, keep=params)
        for c in ast.walk(ex):
            if isinstance(c, ast.Call):
                nm = c.func.attr if isinstance(c.func, ast.Attribute) else (c.func.id if isinstance(c.func, ast.Name) else "")
                if nm in ("min", "max", "clip", "round", "around", "abs", "fabs", "floor", "ceil", "trunc", "maximum", "minimum", "nan_to_num") \
                        and any(isinstance(x, ast.Name) and x.id in params for x in ast.walk(c)):
                    return hf, c
    return None


def _expr(e):
    from ..sqlmodel import expr_str
    return expr_str(e)


def name_family(it, s, canon, name_tpl=None):
    """(prefix, first value Poly, count Poly) of the names a line family produces."""
    nt = name_tpl or first_token(it)
    if nt.startswith("l1") and "[" in it.template:
        nt = it.template[it.template.index("[") + 1: it.template.index("]")]
    m = re.match(r"^(.*?)\{(\d+)\}(.*)$", nt)
    if not m:
        return (nt.lower(), None, Poly.const(1))
    prefix = (m.group(1) + "#" + m.group(3)).lower()
    arg = it.args[int(m.group(2))]
    # strip str(i).ljust(k)
    n = arg
    while isinstance(n, ast.Call) and isinstance(n.func, ast.Attribute) and n.func.attr in ("ljust", "rjust"):
        n = n.func.value
    if isinstance(n, ast.Call) and isinstance(n.func, ast.Name) and n.func.id == "str" and n.args:
        n = n.args[0]
    # value as poly in the loop variable
    var = it.var

    class _S:
        pass

    def val(node):
        if isinstance(node, ast.Name) and node.id == var:
            return Poly.atom("@i")
        if isinstance(node, ast.BinOp) and isinstance(node.op, (ast.Add, ast.Sub)):
            a, b = val(node.left), val(node.right)
            return a + b if isinstance(node.op, ast.Add) else a - b
        return s.intval(node)

    try:
        v = val(n)
    except NotAlgebraic:
        return (prefix, "?", canon(it.count))
    coef = v.coeff_of_atom("@i")
    if coef != Poly.const(1):
        return (prefix, "?", canon(it.count))
    first = canon(v.without_atom("@i") + it.start)
    return (prefix, first, canon(it.count))


def fam_key(f):
    p, first, count = f
    return "%s[%s; n=%s]" % (p, first.key() if isinstance(first, Poly) else first, count.key())


def resolve_param(ctx, f, pname):
    """Constant value of a formatting parameter through the call chain
    generator <- dispatcher function <- CLI."""
    # callers of f inside pestfiles (dict dispatch)
    vals = set()
    for fq, calls in ctx.cg.calls.items():
        for call, tg in calls:
            if f.fq in tg:
                caller = ctx.cg.func(fq)
                v = None
                for k in call.keywords:
                    if k.arg == pname:
                        v = k.value
                if v is None:
                    vals.add(None)
                    continue
                if isinstance(v, ast.Constant) and isinstance(v.value, int):
                    vals.add(v.value)
                elif isinstance(v, ast.Name) and v.id in caller.params:
                    # default of the caller's parameter, unless its callers override
                    a_ = caller.node.args
                    allp = a_.posonlyargs + a_.args
                    dmap = dict(zip([x.arg for x in allp][len(allp) - len(a_.defaults):], a_.defaults))
                    d = dmap.get(v.id)
                    dv = d.value if isinstance(d, ast.Constant) and isinstance(d.value, int) else None
                    over = set()
                    for fq2, calls2 in ctx.cg.calls.items():
                        for call2, tg2 in calls2:
                            if caller.fq in tg2:
                                given = None
                                for k in call2.keywords:
                                    if k.arg == v.id:
                                        given = k.value
                                idx = caller.params.index(v.id)
                                if given is None and len(call2.args) > idx:
                                    given = call2.args[idx]
                                if given is None:
                                    over.add(dv)
                                elif isinstance(given, ast.Constant) and isinstance(given.value, int):
                                    over.add(given.value)
                                else:
                                    over.add(None)
                    vals |= over if over else {dv}
                else:
                    vals.add(None)
    if not vals or None in vals:
        return None
    return min(vals)


def simulate_direction(ctx, view):
    """Direction (ASC/DESC by level) of the vector the simulate command
    writes for the curve backed by `view`."""
    if view == "average_rising_depth":
        g = ctx.func("simulate_rise.simulate_rise")
        dumpf = g
    else:
        g = ctx.func("simulate_recession.simulate_recession")
        dumpf = ctx.func("simulate_recession.dump_simulated_recession")
    qdir = None
    from ..sqlbind import bindings as _bindings
    sites_ = [s for s in ctx.sites_in(g)] + [b_.site for b_ in _bindings(ctx, g) if getattr(b_, "via", None)]   # own queries and query helpers'
    for s in sites_:
        if s.stmt is not None and s.stmt.kind == "select" and view in {x.table for x in s.stmt.sources}:
            if s.stmt.order_by and column_role(s.stmt.order_by[0][0]) == "level":
                qdir = s.stmt.order_by[0][1]
    if qdir is None:
        return None
    for wcall, marker, dump in vector_dumps(ctx, dumpf):
        if dump is not None and dump.args:
            core, rev = resolve_vector(Flow.of(dumpf), dump.args[0])
            if not isinstance(core, ast.Name):
                return None          # converted / reordered by something this rule does not read
            if rev == "by-value":
                return "BY-VALUE", marker
            return ("DESC" if qdir == "ASC" else "ASC") if rev else qdir, marker
    return None


def factory_class(ctx, section, ty):
    fq = "specific_yield.create_specific_yield_function" if section == "specific_yield" else "transmissivity.create_transmissivity_function"
    f = ctx.func(fq)
    for n in ast.walk(f.node):
        if isinstance(n, ast.Dict):
            for k, v in zip(n.keys, n.values):
                if isinstance(k, ast.Constant) and k.value == ty and isinstance(v, ast.Name):
                    q = "%s.__init__" % v.id
                    if q in f.module.functions:
                        return f.module.functions[q]
    return None


def _truthiness_filters(ctx, chk):
    """Rows of a query must not be selected by the truth value of a measured column: a master-curve value of
    exactly 0.0 (every curve passes through zero at its reference level) would be dropped like a NULL, and
    the control file would then list fewer observations than the instruction file and the simulation write.
    Counted instances: comprehension filters / if tests in the pestfiles generators and the simulate commands
    whose subject is a loop variable that ranges over fetched rows."""
    n_filters = 0
    for modname in ("pestfiles", "simulate_rise", "simulate_recession"):
        if modname not in ctx.repo.modules:
            continue
        for q, f in sorted(ctx.repo.modules[modname].functions.items()):
            flow = Flow.of(f)

            def from_rows(it, depth=0):
                if depth > 5 or it is None:
                    return False
                for c in ast.walk(it):
                    if isinstance(c, ast.Call) and isinstance(c.func, ast.Attribute) and c.func.attr in ("fetchall", "fetchmany", "execute"):
                        return True
                    if isinstance(c, ast.Name) and isinstance(c.ctx, ast.Load):
                        if c.id in ("cursor",):
                            return True
                        dv = flow.def_value(c)
                        if dv is not None and from_rows(dv, depth + 1):
                            return True
                return False

            for comp in ast.walk(f.node):
                if not isinstance(comp, (ast.ListComp, ast.GeneratorExp, ast.SetComp, ast.DictComp)):
                    continue
                for g in comp.generators:
                    tnames = {x.id for x in ast.walk(g.target) if isinstance(x, ast.Name)}
                    for t in g.ifs:
                        n_filters += 1
                        core = t
                        while isinstance(core, ast.UnaryOp) and isinstance(core.op, ast.Not):
                            core = core.operand
                        subj = core.value if isinstance(core, ast.Subscript) and isinstance(core.slice, ast.Constant) else core
                        if isinstance(subj, ast.Name) and subj.id in tnames and from_rows(g.iter):
                            core = subj if core is subj else core
                            chk.ob("C19.O1", False, where_of(f, t), "rows selected by the truth value of `%s` in %s" % (ast.unparse(core), ast.unparse(comp)[:80]),
                                   "`is not None`: an exact 0.0 is a measured value, not a missing one",
                                   key="%s|truthiness-filter|%s" % (f.qualname, ast.unparse(core)),
                                   why="each master curve is zero at its reference level; dropping that row shifts every later observation against the instruction file and the simulated vector")
    chk.count("row_filters_examined", n_filters)
