"""C09 -- the reference water level is the origin of the master curve.

 O1 level -> index conversion is round-to-nearest (both modules)
 O2 the on-grid test is two-sided
 O3 the rejection dominates every write and raises
 O4 offsets are stored relative to the mean crossing of the reference
    level; the default reference is the highest level of the curve
 O5 the sibling blocks in rise.py and recession.py agree
 O6 the CLI passes -r to both commands
"""

import ast

from ..cli import args_attr, task_options
from ..flow import Flow
from ..guards import back_slice, guards_of
from ..norm import NotAlgebraic, Poly, py_poly
from ..report import where_of
from ..source import dotted_name, enclosing_func, enclosing_stmt, is_ancestor
from .c12 import full_call_name
from .c20 import dispatch_branches

ROUNDERS = {"round", "numpy.round", "numpy.rint", "numpy.around", "numpy.round_"}
FLOORS = {"math.floor", "numpy.floor"}
TRUNCS = {"int", "math.trunc", "numpy.trunc", "numpy.fix", "math.ceil", "numpy.ceil"}
CLOSE = {"numpy.isclose", "numpy.allclose", "math.isclose"}

SITES = [
    ("rise", "rise.compute_rise_offsets", "rising_interval", "rising_interval_zeta", "rain_depth_offset_mm"),
    ("recession", "recession.compute_offsets", "recession_interval", "recession_interval_zeta", "time_offset_s"),
]


def classify_rounding(mod, expr, quotient):
    """Classify how `expr` turns the quotient ref/step into an integer.
    Returns ('nearest'|'truncate'|'floor'|'unknown', description)."""
    e = expr
    wrappers = []
    while isinstance(e, ast.Call) and (full_call_name(mod, e) or "") in ("int", "numpy.int64", "numpy.int_") and len(e.args) == 1:
        wrappers.append("int")
        e = e.args[0]
    if isinstance(e, ast.Call) and len(e.args) >= 1:
        fn = full_call_name(mod, e) or ""
        try:
            arg = py_poly(e.args[0])
        except NotAlgebraic:
            arg = None
        if fn in ROUNDERS and arg == quotient and len(e.args) == 1:
            return "nearest", "%s(ref / step)" % fn
        if fn in FLOORS and arg is not None and arg == quotient + Poly.const(num_half()):
            return "nearest", "floor(ref / step + 0.5)"
        if fn in FLOORS and arg == quotient:
            return "floor", "%s(ref / step)" % fn
        if fn in TRUNCS and arg == quotient:
            return "truncate", "%s(ref / step)" % fn
        if (fn in ROUNDERS or fn in FLOORS or fn in TRUNCS) and arg is not None and set(arg.atoms()) <= set(quotient.atoms()) and set(arg.atoms()):
            # a rounding of an expression in the reference and the step only -- but not of their quotient
            return "wrong-quotient", "%s(%s)" % (fn, arg.key())
        return "unknown", ast.unparse(expr)
    if isinstance(e, ast.BinOp) and isinstance(e.op, ast.FloorDiv):
        return "floor", "ref // step"
    try:
        if py_poly(e) == quotient:
            return ("truncate", "int(ref / step)") if wrappers else ("unknown", ast.unparse(expr))
        if py_poly(e) == quotient + Poly.const(num_half()) and wrappers:
            return "truncate-half", "int(ref / step + 0.5)"
    except NotAlgebraic:
        pass
    return "unknown", ast.unparse(expr)


def _is_offsets_element(e):
    """OFFSETS[i] or a loop variable that stands for an element of a sequence (zip / enumerate partner)."""
    while isinstance(e, ast.Call) and isinstance(e.func, ast.Name) and e.func.id in ("float", "int") and len(e.args) == 1:
        e = e.args[0]
    if isinstance(e, ast.Subscript) and isinstance(e.value, ast.Name) and not isinstance(e.slice, ast.Slice):
        return True
    if isinstance(e, ast.Name):
        from ..loops import binding as _lb
        b = _lb(e)
        return b is not None and b.kind == "elem" and b.path == ()
    return False


def _unread(chk, ctx, f):
    from ..report import unread_functions, Where
    return unread_functions(ctx, Where((f.module.relpath, f.qualname, 0), f, f.node))


def num_half():
    from fractions import Fraction
    return Fraction(1, 2)


def run(ctx, chk, tier="quick"):
    chk.explanation = (
        "In the two functions that write rising_interval / recession_interval: classification of the "
        "level->index conversion idiom, shape of the on-grid test (one- vs two-sided), CFG dominance of "
        "the rejection over every INSERT, algebraic form of the stored offsets relative to the reference "
        "level's mean crossing, default reference, agreement of the two sibling implementations, and the "
        "CLI wiring of -r."
    )
    chk.assumptions = ["numpy.isclose/allclose default tolerances are adequate for grid multiples"]
    # the level that becomes the origin (the highest one without a reference, any on-grid one with a reference) must be a
    # row of the level grid: the master-curve views join it
    from .c13 import level_grid_rule
    level_grid_rule(ctx, chk, "C09.O4")
    from ..sqlrules import conflict_clauses
    conflict_clauses(ctx, chk, "C09.O3", ("rise", "recession"), "curve-writes",
                     "with INSERT OR IGNORE / OR REPLACE a second assembly on a database that already holds a curve reports success while rows of the first assembly remain: the curve is anchored at the old origin, not at this run's reference level")
    descriptors = {}
    for label, fq, tab, ztab, offcol in SITES:
        f = ctx.func(fq)
        flow = Flow.of(f)
        mod = f.module
        ref = f.params[1]  # reference_zeta_mm
        ins = [s for s in ctx.sites_in(f) if s.stmt is not None and s.stmt.kind == "insert" and s.stmt.table in (tab, ztab)]
        if len(ins) < 2:
            chk.indeterminate("C09.O3", where_of(f, f.node), "INSERTs into %s / %s not found" % (tab, ztab))
            continue
        # grid step: value read from zeta_grid
        step_name = None
        from ..sqlbind import bindings
        for b in bindings(ctx, f):
            if {src.table for src in b.site.stmt.sources} == {"zeta_grid"}:
                step_name = [n for n in b.names if n][0] if any(b.names) else None
        if step_name is None:
            chk.indeterminate("C09.O1", where_of(f, f.node), "grid step read from zeta_grid not found")
            continue
        quotient = Poly.atom(ref) * Poly.atom(step_name).inverse()
        desc = {}
        # ---- reference index: the subscript of the mapping used for the origin
        main_ins = [s for s in ins if s.stmt.table == tab][0]
        offval = _param_value(main_ins, offcol)
        if offval is None:
            chk.indeterminate("C09.O4", where_of(f, main_ins.call), "value bound to %s not found" % offcol)
            continue
        offx = flow.expand(offval, keep=set())
        # offsets[i] - M
        origin_ok = False
        origin_known = False
        refidx_node = None
        mean_desc = ast.unparse(offx)[:160]
        if isinstance(offval, ast.BinOp) and isinstance(offval.op, (ast.Sub, ast.Add)):
            left, right = offval.left, offval.right
            mexpr = flow.def_value(right) if isinstance(right, ast.Name) else right
            mean_call, comp = _mean_of_comp(mod, mexpr)
            if comp is not None and len(comp.generators) == 1:
                g = comp.generators[0]
                it = g.iter
                if isinstance(it, ast.Subscript) and isinstance(it.slice, ast.Name):
                    refidx_node = it.slice
                    mapping = it.value
                    # element: offsets[indices.index(sid)] + crossing
                    if isinstance(g.target, ast.Tuple) and len(g.target.elts) == 2 and all(isinstance(t, ast.Name) for t in g.target.elts):
                        sid, crossing = g.target.elts[0].id, g.target.elts[1].id
                        try:
                            ep = py_poly(comp.elt)
                            # left = offsets[i]; the same offsets array
                            off_arr = left.value.id if isinstance(left, ast.Subscript) and isinstance(left.value, ast.Name) else None
                            if off_arr is None and isinstance(left, ast.Name):
                                # `for sid, offset in zip(ids, offsets)`: the loop variable stands for offsets[position]
                                from ..loops import binding as _lb
                                lb_ = _lb(left)
                                if lb_ is not None and lb_.kind == "elem" and lb_.path == () and isinstance(lb_.container, ast.Name):
                                    off_arr = lb_.container.id
                            atoms = ep.atoms()
                            has_cross = ep.coeff_of_atom(crossing) == Poly.const(1)
                            other = ep - Poly.atom(crossing)
                            st = other.single_term()
                            ok_off = st is not None and st[1] == 1 and len(st[0]) == 1 and off_arr is not None \
                                and st[0][0][0].startswith("(%s)[" % off_arr) and ".index" in st[0][0][0] and sid in st[0][0][0]
                            origin_ok = has_cross and ok_off and isinstance(offval.op, ast.Sub)
                            origin_known = off_arr is not None
                            mean_desc = "offset - mean(%s for (%s, %s) in mapping[reference index])" % (ep.key(), sid, crossing)
                        except NotAlgebraic:
                            pass
        if not origin_known and _is_offsets_element(offval):
            chk.ob("C09.O4", False, where_of(f, main_ins.call), "stored %s = %s: the fitted offset itself, nothing subtracted" % (offcol, ast.unparse(offval)),
                   "offset_i - mean over the intervals crossing the reference level of (offset_j + crossing_j)",
                   key="%s|origin" % fq, why="only then is the master curve zero at the reference level")
        elif not origin_known:
            chk.indeterminate("C09.O4", where_of(f, main_ins.call), "stored %s = %s: not of the form offsets[i] - mean(... for (id, crossing) in mapping[reference])" % (offcol, mean_desc))
        else:
            chk.ob("C09.O4", origin_ok, where_of(f, main_ins.call), "stored %s = %s" % (offcol, mean_desc),
                   "offset_i - mean over the intervals crossing the reference level of (offset_j + crossing_j)",
                   key="%s|origin" % fq, why="only then is the master curve zero at the reference level")
        desc["origin"] = origin_ok
        if refidx_node is None:
            chk.indeterminate("C09.O1", where_of(f, main_ins.call), "reference index not identifiable from the origin computation")
            continue
        # the assignments that can supply the index, followed through plain aliases (`idx = tmp` with tmp set in two branches)
        leaf_defs = []
        seen_defs = set()
        work = [refidx_node]
        while work and len(seen_defs) < 40:
            nn = work.pop()
            for d in sorted(flow.reaching_defs(nn) or set()):
                if (d, nn.id) in seen_defs:
                    continue
                seen_defs.add((d, nn.id))
                st = flow.cfg.stmt_of.get(d)
                if not isinstance(st, ast.Assign):
                    continue
                from ..cfg import assigned_value
                v_ = assigned_value(flow.cfg, d, nn.id)
                if isinstance(v_, ast.Name) and (flow.reaching_defs(v_) or set()) and not flow.is_param(v_):
                    work.append(v_)
                else:
                    leaf_defs.append((st, v_ if v_ is not None else st.value))
        kinds = {}
        for st, v in leaf_defs:
            names = {n.id for n in ast.walk(flow.expand(v, keep={ref, step_name})) if isinstance(n, ast.Name)}
            if ref in names:
                kind, d_ = classify_rounding(mod, flow.expand(v, keep={ref, step_name}), quotient)
                kinds["explicit"] = (kind, d_, st)
            else:
                kinds["default"] = (ast.unparse(v), st)
        if "explicit" not in kinds:
            chk.indeterminate("C09.O1", where_of(f, f.node), "conversion of the reference level to an index not found")
        else:
            kind, d_, st = kinds["explicit"]
            if kind == "unknown":
                chk.indeterminate("C09.O1", where_of(f, st), "unrecognised level->index idiom: %s" % d_[:100])
            else:
                chk.ob("C09.O1", kind == "nearest", where_of(f, st), "reference index = %s [%s]" % (d_, kind),
                       "round-to-nearest of reference / step", key="%s|level-to-index" % fq,
                       why="int(-37.9 / 0.1) == -378: truncation maps an on-grid level to its neighbour")
            desc["rounding"] = kind
        if "default" in kinds:
            txt, st = kinds["default"]
            v = st.value
            ok = isinstance(v, ast.Call) and isinstance(v.func, ast.Name) and v.func.id == "max" and len(v.args) == 1
            chk.ob("C09.O4", ok, where_of(f, st), "default reference index = %s" % txt, "the highest level of the curve (max of its level ids)",
                   key="%s|default-reference" % fq, why="without a reference the highest level of the curve is the origin", scope=f)
            desc["default"] = ok if (ok or not _unread(chk, ctx, f)) else None
            # ... and it is the highest level of the curve *as stored*: the loop that stores the levels of the same mapping
            # does not leave levels out (a `continue` on the level inside it) while the default is taken over all of them
            if ok and isinstance(v.args[0], (ast.Call, ast.Name)):
                base = v.args[0]
                if isinstance(base, ast.Call) and isinstance(base.func, ast.Attribute) and base.func.attr == "keys":
                    base = base.func.value
                for lp in [n_ for n_ in ast.walk(f.node) if isinstance(n_, ast.For)]:
                    it_ = lp.iter
                    if isinstance(it_, ast.Call) and isinstance(it_.func, ast.Attribute) and it_.func.attr in ("items", "keys") and not it_.args:
                        it_ = it_.func.value
                    elif isinstance(it_, ast.Call) and isinstance(it_.func, ast.Name) and it_.func.id == "sorted" and it_.args:
                        it_ = it_.args[0]
                        if isinstance(it_, ast.Call) and isinstance(it_.func, ast.Attribute) and it_.func.attr in ("items", "keys"):
                            it_ = it_.func.value
                    if not (isinstance(base, ast.Name) and isinstance(it_, ast.Name) and it_.id == base.id):
                        continue
                    keyv = lp.target.elts[0] if isinstance(lp.target, (ast.Tuple, ast.List)) and lp.target.elts else lp.target
                    if not isinstance(keyv, ast.Name):
                        continue
                    has_store = any(isinstance(c_, ast.Call) and isinstance(c_.func, ast.Attribute) and c_.func.attr in ("execute", "executemany") for c_ in ast.walk(lp))
                    for st_ in lp.body:
                        if isinstance(st_, ast.If) and any(isinstance(x_, ast.Continue) for b_ in st_.body for x_ in ast.walk(b_)) \
                                and any(isinstance(x_, ast.Name) and x_.id == keyv.id for x_ in ast.walk(st_.test)) and has_store:
                            chk.ob("C09.O4", False, where_of(f, st_), "levels are left out of the stored curve when `%s`, while the default origin is %s over all levels of %s" % (ast.unparse(st_.test)[:60], txt[:40], base.id),
                                   "the default origin is the highest level of the curve that is stored",
                                   key="%s|default-over-unstored-levels" % fq, local=True,
                                   why="when the highest level of the mapping is among those left out, the curve stored ends at a lower level with a non-zero value there: without a reference the highest level of the curve is not the origin")
        else:
            # `if ref is None: ref = <default>` before one conversion ref -> index: the default goes through the conversion too
            rebound = []
            if "explicit" in kinds:
                for n_ in ast.walk(kinds["explicit"][2].value):
                    if isinstance(n_, ast.Name) and n_.id == ref:
                        for d_ in sorted(flow.reaching_defs(n_) or set()):
                            st_ = flow.cfg.stmt_of.get(d_)
                            if isinstance(st_, ast.Assign) and len(st_.targets) == 1 and isinstance(st_.targets[0], ast.Name) and st_.targets[0].id == ref:
                                rebound.append(st_)
                        break
            if len(rebound) == 1:
                st_ = rebound[0]
                v_ = st_.value
                ids_max = isinstance(v_, ast.Call) and isinstance(v_.func, ast.Name) and v_.func.id == "max" and len(v_.args) == 1
                scaled = isinstance(v_, ast.BinOp) and isinstance(v_.op, ast.Mult) and any(
                    isinstance(o_, ast.Call) and isinstance(o_.func, ast.Name) and o_.func.id == "max" for o_ in (v_.left, v_.right)) and any(
                    isinstance(o_, ast.Name) and o_.id == step_name for o_ in (v_.left, v_.right))
                if ids_max or scaled:
                    chk.ob("C09.O4", scaled, where_of(f, st_), "default reference: %s = %s, then index = %s" % (ref, ast.unparse(v_)[:60], kinds["explicit"][1][:60]),
                           "the highest level id of the curve itself (or that id x step, if it is to pass through level / step)",
                           key="%s|default-reference" % fq, scope=f,
                           why="the keys of the mapping are level ids (level / step): dividing the largest id by the step once more puts the origin at level max / step, which is the highest level only for a step of 1 mm")
                    desc["default"] = scaled if (scaled or not _unread(chk, ctx, f)) else None
                else:
                    chk.indeterminate("C09.O4", where_of(f, st_), "default reference %s = %s passes through the level -> index conversion; not read" % (ref, ast.unparse(v_)[:60]))
            else:
                chk.indeterminate("C09.O4", where_of(f, f.node), "default reference index not found")
        # ---- O2 / O3: the rejection
        gs = []
        for g in guards_of(f, include_assert=False):
            sl = " ".join(ast.unparse(e) for e in back_slice(flow, g.expr, 3))
            if ref in sl and step_name in sl:
                gs.append(g)
        if not gs:
            chk.ob("C09.O2", False, where_of(f, f.node), "no rejection involving the reference level and the grid step",
                   "a level that is not a multiple of the step is rejected", key="%s|rejection" % fq,
                   why="an off-grid reference has no crossing data; silently using a neighbour moves the origin")
            continue
        g = gs[0]
        gx = flow.expand(g.expr, keep={ref, step_name})
        # the test delegated to a predicate of the package with several returns: every `return True` under a test is an
        # acceptance of its own and must itself be the on-grid test; `return False` / raise only refuse more
        accepted_otherwise = None
        for c_ in [x for x in ast.walk(gx) if isinstance(x, ast.Call)]:
            try:
                tg_ = ctx.cg.resolve_callee(f, c_.func)
            except Exception:
                tg_ = []
            hf = ctx.cg.func(tg_[0]) if len(tg_) == 1 else None
            if hf is None or len(c_.args) != len(hf.params) or c_.keywords:
                continue
            from ..normalize import _subst
            sub = dict(zip(hf.params, c_.args))
            rets_ = [r for r in ast.walk(hf.node) if isinstance(r, ast.Return) and r.value is not None]
            mains = []
            for r in rets_:
                par = getattr(r, "parent", None)
                if isinstance(r.value, ast.Constant) and r.value.value is True and isinstance(par, ast.If) and r in par.body:
                    t_ = _subst(par.test, sub)
                    sh_, sd_ = _grid_test_shape(ctx.repo.module(hf.module.name), t_, ref, step_name, quotient, False)
                    if sh_ != "two-sided" and accepted_otherwise is None:
                        accepted_otherwise = (hf, r, par.test)
                elif isinstance(r.value, ast.Constant) and r.value.value is False:
                    continue
                else:
                    mains.append(r)
            if len(mains) == 1:
                v_ = mains[0].value
                while isinstance(v_, ast.Call) and isinstance(v_.func, ast.Name) and v_.func.id == "bool" and len(v_.args) == 1:
                    v_ = v_.args[0]
                hflow = Flow.of(hf)
                body_ = _subst(hflow.expand(v_, keep=set(hf.params)), sub)
                gx = body_
                mod = ctx.repo.module(hf.module.name)
            break
        if accepted_otherwise is not None:
            hf, r_, t_ = accepted_otherwise
            chk.ob("C09.O2", False, where_of(hf, r_), "%s accepts the reference when `%s`, without the on-grid test" % (hf.qualname, ast.unparse(t_)[:80]),
                   "a reference is accepted only if it is (within rounding) a multiple of the grid step: every accepting path applies the two-sided test",
                   key="%s|on-grid-shortcut" % fq, local=True,
                   why="a shortcut that accepts a class of references (whole millimetres on a sub-millimetre grid) accepts off-grid levels whenever the step does not divide them (-37 mm on a 0.3 mm grid): the origin silently moves to the neighbouring level")
            desc["gridtest"] = "shortcut"
            continue
        shape, sdesc = _grid_test_shape(mod, gx, ref, step_name, quotient, g.negated)
        if shape == "unknown":
            chk.indeterminate("C09.O2", where_of(f, g.stmt), "unrecognised on-grid test: %s" % sdesc[:120])
        else:
            chk.ob("C09.O2", shape == "two-sided", where_of(f, g.stmt), "on-grid test: %s [%s]" % (sdesc, shape),
                   "two-sided: compares the reference with (rounded index x step), or a remainder folded with min(r, step - r)",
                   key="%s|on-grid-test" % fq,
                   why="0.3 % 0.1 == 0.0999...: a one-sided remainder test refuses about half of the on-grid levels")
        desc["gridtest"] = shape
        wn = [flow.cfg.node_containing(s.call) for s in ins]
        # on every path that converts an explicit reference to an index, the rejection is passed before any INSERT:
        # no path entry -> (explicit conversion) -> INSERT avoids the guard
        cfg = flow.cfg
        enode = cfg.node(kinds["explicit"][2]) if "explicit" in kinds else None
        if enode is not None:
            from ..cfg import ENTRY
            reach_e = enode in cfg.reachable_from(ENTRY, avoiding={g.node}) or enode == ENTRY
            after_e = cfg.reachable_from(enode, avoiding={g.node})
            dom = not (reach_e and any(n in after_e for n in wn))
        else:
            dom = all(cfg.dominates(g.node, n) for n in wn)
        chk.ob("C09.O3", dom and g.kind in ("if-raise", "else-raise"), where_of(f, g.stmt),
               "rejection (%s): %s" % (g.kind, "no path converts an explicit reference and reaches an INSERT without passing it" if dom
                                      else "a path converts the reference to an index and reaches an INSERT into %s / %s without passing it" % (tab, ztab)),
               "raise before anything is written", key="%s|rejection-dominates" % fq,
               why="a rejection after the first INSERT leaves rows behind unless the caller rolls back")
        desc["dominates"] = dom
        # the explicit branch is selected by `is not None`, not by truthiness (a reference of 0 is a valid level)
        if "explicit" in kinds:
            est = kinds["explicit"][2]
            tests = []
            child = est
            a = getattr(est, "parent", None)
            while a is not None and a is not f.node:
                if isinstance(a, ast.If) and ref in {x.id for x in ast.walk(a.test) if isinstance(x, ast.Name)}:
                    tests.append(a)
                child = a
                a = getattr(a, "parent", None)

            def is_none_test(t):
                return any(isinstance(c, ast.Compare) and isinstance(c.ops[0], (ast.IsNot, ast.Is, ast.NotEq, ast.Eq))
                           and any(isinstance(x, ast.Constant) and x.value is None for x in c.comparators)
                           and isinstance(c.left, ast.Name) and c.left.id == ref for c in ast.walk(t))

            def is_bare(t):
                # the reference itself used as a truth value: `if ref`, `ref and ..`, `not ref`
                return any(isinstance(x, ast.Name) and x.id == ref and isinstance(getattr(x, "parent", None), (ast.BoolOp, ast.UnaryOp, ast.If, ast.IfExp, ast.While))
                           and not (isinstance(x.parent, ast.UnaryOp) and not isinstance(x.parent.op, ast.Not))
                           for x in ast.walk(t)) or (isinstance(t, ast.Name) and t.id == ref)

            if tests:
                bare = [t for t in tests if is_bare(t.test)]
                nonet = [t for t in tests if is_none_test(t.test)]
                if bare:
                    chk.ob("C09.O1", False, where_of(f, bare[0]), "explicit reference selected by the truth value of `%s`" % ast.unparse(bare[0].test)[:80],
                           "`reference is not None`: zero is a valid reference level", key="%s|reference-selected-by-none-test" % fq,
                           why="0.0 is falsy: `if reference:` silently treats the level 0 (a multiple of every step) as 'no reference'")
                    desc["none_test"] = False
                elif nonet:
                    chk.ob("C09.O1", True, where_of(f, nonet[0]), "explicit reference selected by `%s`" % ast.unparse(nonet[0].test)[:80],
                           "`reference is not None`: zero is a valid reference level", key="%s|reference-selected-by-none-test" % fq)
                    desc["none_test"] = True
                else:
                    chk.indeterminate("C09.O1", where_of(f, tests[0]), "how the explicit reference is told from the default is not recognised: %s" % ast.unparse(tests[0].test)[:80])
        descriptors[label] = desc

    # ---- O5 siblings
    if len(descriptors) == 2:
        a, b = descriptors["rise"], descriptors["recession"]
        # only decisions that were decided on both sides can disagree; an undecided one is already reported as such
        common = sorted(k for k in set(a) & set(b) if a[k] not in (None, "unknown") and b[k] not in (None, "unknown"))
        undecided = sorted((set(a) | set(b)) - set(common))
        a_, b_ = {k: a[k] for k in common}, {k: b[k] for k in common}
        if a_ != b_ or not undecided:
            chk.ob("C09.O5", a_ == b_, ("spowtd/rise.py", "compute_rise_offsets", 0),
                   "rise: %s; recession: %s" % (a_, b_), "the two sibling implementations make the same decisions",
                   key="siblings|agree", why="one curve referenced differently from the other breaks the shared origin convention")
        else:
            chk.indeterminate("C09.O5", ("spowtd/rise.py", "compute_rise_offsets", 0), "sibling comparison: %s not decided on one side" % undecided)
    # ---- O6 CLI
    disp, branches = dispatch_branches(ctx)
    opts = task_options(ctx)
    for label, fq, *_ in SITES:
        br = branches.get(label)
        if br is None:
            chk.indeterminate("C09.O6", where_of(disp, disp.node), "dispatch branch for %s not found" % label)
            continue
        entry = "rise.find_rise_offsets" if label == "rise" else "recession.find_recession_offsets"
        okc = False
        desc = "no call"
        from ..cli import entry_binding
        ef = ctx.func(entry)
        bind, n = entry_binding(ctx, disp, br, ef)
        if bind is None:
            chk.indeterminate("C09.O6", where_of(disp, br), "%s: call of %s not found in the dispatch" % (label, entry))
            continue
        if not opts.get(label):
            chk.indeterminate("C09.O6", where_of(disp, br), "%s: the options of this task's parser could not be enumerated" % label)
            continue
        if bind is not None:
            pname = ef.params[1]
            val = bind.get(pname)
            dest = args_attr(val) if val is not None else None
            o = [x for x in opts.get(label, []) if x.dest == dest]
            desc = "%s=%s; option %s" % (pname, ast.unparse(val) if val is not None else "default", o[0] if o else "missing")
            okc = bool(o) and "-r" in o[0].flags and ast.unparse(o[0].kw.get("type", ast.Constant(None))) == "float"
            # entry passes it on
            inner = [c for c in ast.walk(ef.node) if isinstance(c, ast.Call) and ctx.cg.resolve_callee(ef, c.func) == [fq]]
            passes = bool(inner) and any(isinstance(a, ast.Name) and a.id == pname for c in inner for a in list(c.args) + [k.value for k in c.keywords])
            if inner and not passes:
                ip = ctx.func(fq).params
                vals = []
                for c in inner:
                    if len(c.args) > 1:
                        vals.append(c.args[1])
                    vals += [k.value for k in c.keywords if len(ip) > 1 and k.arg == ip[1]]
                if vals and not all(isinstance(v_, (ast.Name, ast.Constant)) for v_ in vals):
                    chk.indeterminate("C09.O6", where_of(ef, inner[0]), "%s: the reference handed on by %s is computed, not the parameter itself: %s"
                                      % (label, entry, ast.unparse(vals[0])[:60]))
                    continue
            okc = okc and passes
        chk.ob("C09.O6", okc, where_of(disp, br), "%s: %s" % (label, desc), "-r (float) reaches the reference parameter",
               key="cli|%s|reference" % label, why="an unwired option silently uses the default origin")


def _param_value(site, pname):
    # by column (whatever the parameter is called, positional or named), then by parameter name
    try:
        from ..flow import Flow as _F
        cv = site.column_values(_F.of(site.func))
        if pname in cv:
            return cv[pname]
    except Exception:
        pass
    p = site.params_node
    if isinstance(p, ast.Dict):
        for k, v in zip(p.keys, p.values):
            if isinstance(k, ast.Constant) and k.value == pname:
                return v
    return None


def _mean_of_comp(mod, e):
    """np.array([...]).mean() / np.mean([...]) -> (call, comprehension)"""
    if not isinstance(e, ast.Call):
        return None, None
    fn = full_call_name(mod, e) or ""
    inner = None
    if isinstance(e.func, ast.Attribute) and e.func.attr == "mean" and not e.args:
        inner = e.func.value
    elif fn.split(".")[-1] in ("mean", "average") and e.args:
        inner = e.args[0]
    if inner is None:
        return None, None
    while isinstance(inner, ast.Call) and (full_call_name(mod, inner) or "").split(".")[-1] in ("array", "asarray", "list") and inner.args:
        inner = inner.args[0]
    if isinstance(inner, (ast.ListComp, ast.GeneratorExp)):
        return e, inner
    return e, None


def _grid_test_shape(mod, gx, ref, step, quotient, negated):
    """'two-sided' | 'one-sided' | 'unknown' with a description."""
    mods = [n for n in ast.walk(gx) if isinstance(n, ast.BinOp) and isinstance(n.op, ast.Mod)]
    fmods = [n for n in ast.walk(gx) if isinstance(n, ast.Call) and (full_call_name(mod, n) or "") in ("numpy.mod", "numpy.fmod", "math.fmod", "numpy.remainder")]
    if mods or fmods:
        # folded with min(r, step - r)?
        for n in ast.walk(gx):
            if isinstance(n, ast.Call) and (full_call_name(mod, n) or "").split(".")[-1] in ("min", "minimum") and len(n.args) == 2:
                txt = ast.unparse(n)
                if "%" in txt or "mod" in txt:
                    return "two-sided", "remainder folded with %s" % txt[:60]
        return "one-sided", "remainder compared with 0 only: %s" % ast.unparse(gx)[:90]
    # comparison of ref with round(ref/step)*step
    for n in ast.walk(gx):
        if isinstance(n, ast.Call) and (full_call_name(mod, n) or "") in CLOSE and len(n.args) >= 2:
            a, b = n.args[0], n.args[1]
            for x, y in ((a, b), (b, a)):
                if _is_rounded_multiple(mod, x, quotient, step) and _is_name(y, ref):
                    return "two-sided", "isclose(round(ref / step) * step, ref)"
            for x, y in ((a, b), (b, a)):
                if _is_name(y, ref) and {m.id for m in ast.walk(x) if isinstance(m, ast.Name) and not isinstance(getattr(m, "parent", None), ast.Call) or
                                         (isinstance(m, ast.Name) and m.id in (ref, step))} >= {ref, step} \
                        and {m.id for m in ast.walk(x) if isinstance(m, ast.Name)} <= {ref, step, "round", "int", "np", "numpy", "math"} \
                        and any(isinstance(c, ast.Call) and (full_call_name(mod, c) or "") in ROUNDERS for c in ast.walk(x)):
                    # the reference compared with a rounded expression of (reference, step) that is not round(ref / step) * step
                    return "wrong-multiple", "isclose(%s, ref)" % ast.unparse(x)[:70]
            # isclose(ref/step, round(ref/step))
            for x, y in ((a, b), (b, a)):
                try:
                    if py_poly(x) == quotient and _is_round_of(mod, y, quotient):
                        return "two-sided", "isclose(ref / step, round(ref / step))"
                except NotAlgebraic:
                    pass
        if isinstance(n, ast.Compare) and len(n.ops) == 1 and isinstance(n.ops[0], (ast.Gt, ast.Lt, ast.GtE, ast.LtE)):
            txt = ast.unparse(n)
            if "abs(" in txt and ("round" in txt or "rint" in txt):
                return "two-sided", "abs(distance to the nearest multiple) against a tolerance"
    return "unknown", ast.unparse(gx)


def _is_name(n, name):
    return isinstance(n, ast.Name) and n.id == name


def _is_round_of(mod, n, quotient):
    while isinstance(n, ast.Call) and (full_call_name(mod, n) or "") == "int" and len(n.args) == 1:
        n = n.args[0]
    if isinstance(n, ast.Call) and (full_call_name(mod, n) or "") in ROUNDERS and len(n.args) == 1:
        try:
            return py_poly(n.args[0]) == quotient
        except NotAlgebraic:
            return False
    return False


def _is_rounded_multiple(mod, n, quotient, step):
    if isinstance(n, ast.BinOp) and isinstance(n.op, ast.Mult):
        for x, y in ((n.left, n.right), (n.right, n.left)):
            if _is_round_of(mod, x, quotient) and _is_name(y, step):
                return True
    return False
