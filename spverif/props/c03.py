"""C03 -- storms and rises are exactly the maximal above-threshold runs.

 O1 predicate strictness and operands (rain > storm threshold; level
    increment > jump threshold x step length in hours)
 O2 every comparison against a threshold in the classification call tree
    is that predicate or its exact complement
 O3 epoch conventions at the SQL sinks (affine index kinds)
 O4 reader / writer agreement on the interval conventions
 O5 rain-depth view = SUM(intensity x (thru - from) / 3600) per storm
 O6 no run crosses a gap: array-feeding SELECTs restricted to one data
    interval (the loop variable) and ordered by time
"""

import ast
from ..source import clone as _clone

from ..classfacts import candidate_kinds, pair_flow, threshold_roles
from ..flow import Flow
from ..norm import NotAlgebraic, Poly, py_compare, py_poly, sql_poly
from ..report import where_of
from ..source import AnalysisError, dotted_name, enclosing_func, enclosing_stmt
from ..sqlbind import binding_of, bindings
from ..sqlmodel import conjuncts, expr_str, walk_expr
from .c12 import full_call_name

WANT_KINDS = {
    ("storm", "start_epoch"): ("F", "rain", 0),
    ("storm", "thru_epoch"): ("L", "rain", 1),
    ("zeta_interval", "start_epoch"): ("F", "jump", 0),
    ("zeta_interval", "thru_epoch"): ("L", "jump", 1),
    ("zeta_interval_storm", "interval_start_epoch"): ("F", "jump", 0),
    ("zeta_interval_storm", "storm_start_epoch"): ("F", "rain", 0),
}


class NotGridTime(Exception):
    pass


def grid_time_of(expr, flow, epoch_name, names, kinds, mod):
    """Normalise an epoch expression to (end, mask, total offset) or raise.
    Accepts int(E), epoch[I], epoch[I] + k*step, with I affine in one run end;
    `min` / `max` clamps against the array length are decided by cases
    (stop inside the array / stop == len(array)): the offsets of all
    feasible cases are returned as a list [(case label, offset)]."""
    from ..ordercell import CellEval, Undecided

    e = flow.expand(expr, keep={epoch_name} | set(names))
    while isinstance(e, ast.Call) and isinstance(e.func, ast.Name) and e.func.id == "int" and len(e.args) == 1:
        e = e.args[0]
    steps = 0
    core = e
    if isinstance(core, ast.BinOp) and isinstance(core.op, (ast.Add, ast.Sub)):
        sign = 1 if isinstance(core.op, ast.Add) else -1
        k = _step_multiple(core.right, epoch_name, mod)
        if k is None:
            raise NotGridTime("epoch expression %s adds something that is not a whole number of steps" % ast.unparse(e)[:80])
        steps = sign * k
        core = core.left
    if not (isinstance(core, ast.Subscript) and isinstance(core.value, ast.Name) and core.value.id == epoch_name):
        raise AnalysisError("epoch expression %s is not a grid time" % ast.unparse(e)[:80])
    used = sorted({n.id for n in ast.walk(core.slice) if isinstance(n, ast.Name) and n.id in names})
    if len(used) != 1:
        raise AnalysisError("index %s does not depend on exactly one run end" % ast.unparse(core.slice))
    a = used[0]
    k = names[a]
    has_clamp = any(isinstance(n, ast.Call) for n in ast.walk(core.slice))
    if not has_clamp:
        try:
            idx = py_poly(core.slice)
        except NotAlgebraic:
            raise AnalysisError("index %s not affine" % ast.unparse(core.slice))
        if idx.coeff_of_atom(a) != Poly.const(1) or not idx.without_atom(a).is_const():
            raise AnalysisError("index %s is not NAME + c" % idx.key())
        c = idx.without_atom(a).const_value()
        return [("always", (k.end, k.mask, k.off + int(c) + steps))]

    # case analysis over the position of the stop relative to the last valid index M = len - 1
    def sym_of(node):
        return None

    def apply(call, args, evl):
        if isinstance(call.func, ast.Name) and call.func.id == "len" and len(call.args) == 1:
            return Poly.atom("M") + Poly.const(1)
        return None

    out = []
    cases = [("stop inside the array", {a: 0, "M": 1}, None)]
    if k.end == "L" and k.off >= 1:
        cases.append(("stop = last index", {a: 1, "M": 1}, None))
        cases.append(("stop = len(array) (run reaches the end of the stretch)", {"M": 0}, Poly.atom("M") + Poly.const(1)))
    for label, cell, bound in cases:
        ev = CellEval(cell, sym_of, apply=apply, env={a: bound if bound is not None else Poly.atom(a)})
        try:
            idx = ev.eval(core.slice)
        except Undecided as exc:
            raise AnalysisError("index %s not decidable in case '%s': %s" % (ast.unparse(core.slice), label, exc))
        if bound is not None:
            # express in terms of the stop: M = stop - 1
            if idx.coeff_of_atom("M") != Poly.const(1) or not idx.without_atom("M").is_const():
                raise AnalysisError("index %s is not affine in case '%s'" % (idx.key(), label))
            c = idx.without_atom("M").const_value() - 1
        else:
            if idx.coeff_of_atom(a) != Poly.const(1) or not idx.without_atom(a).is_const():
                # the clamp picked the length side although the stop is inside
                if idx.coeff_of_atom("M") == Poly.const(1) and idx.without_atom("M").is_const() and cell.get(a) == cell.get("M"):
                    c = idx.without_atom("M").const_value()
                else:
                    raise AnalysisError("index %s is not NAME + c in case '%s'" % (idx.key(), label))
            else:
                c = idx.without_atom(a).const_value()
        out.append((label, (k.end, k.mask, k.off + int(c) + steps)))
    return out


def _step_multiple(node, epoch_name, mod):
    """k if node is k * (epoch[1] - epoch[0]) (or that difference itself)."""
    def is_step(n):
        if isinstance(n, ast.BinOp) and isinstance(n.op, ast.Sub):
            a, b = n.left, n.right
            def el(x, i):
                return isinstance(x, ast.Subscript) and isinstance(x.value, ast.Name) and x.value.id == epoch_name \
                    and isinstance(x.slice, ast.Constant) and x.slice.value == i
            return el(a, 1) and el(b, 0)
        return False
    # epoch[a] - epoch[b] with literal a, b: (a - b) steps of the uniform grid
    if isinstance(node, ast.BinOp) and isinstance(node.op, ast.Sub):
        def lit(x):
            if isinstance(x, ast.Subscript) and isinstance(x.value, ast.Name) and x.value.id == epoch_name \
                    and isinstance(x.slice, ast.Constant) and isinstance(x.slice.value, int) and x.slice.value >= 0:
                return x.slice.value
            return None
        a_, b_ = lit(node.left), lit(node.right)
        if a_ is not None and b_ is not None:
            return a_ - b_
    if is_step(node):
        return 1
    if isinstance(node, ast.BinOp) and isinstance(node.op, ast.Mult):
        for x, y in ((node.left, node.right), (node.right, node.left)):
            if is_step(x) and isinstance(y, ast.Constant) and isinstance(y.value, int):
                return y.value
    return None


def data_interval_loop(ctx, chk, rule):
    """classify_intervals: one call of populate_zeta_interval per data-interval label that actually occurs in grid_time
    (SELECT DISTINCT / GROUP BY ... IS NOT NULL), each with its own label.  Shared by C03.O6 and C01.O2."""
    ci = ctx.func("classify.classify_intervals")
    ciflow = Flow.of(ci)
    loopvar = None
    call_arg_ok = False
    for n in ast.walk(ci.node):
        if isinstance(n, ast.For) and isinstance(n.target, ast.Name):
            for c in ast.walk(n):
                if isinstance(c, ast.Call) and ctx.cg.resolve_callee(ci, c.func) == ["classify.populate_zeta_interval"]:
                    callee = ctx.func("classify.populate_zeta_interval")
                    idx = callee.params.index("data_interval") if "data_interval" in callee.params else 1
                    a = c.args[idx] if len(c.args) > idx else None
                    call_arg_ok = isinstance(a, ast.Name) and a.id == n.target.id
                    loopvar = n
    src_ok = False
    src_known = False
    if loopvar is not None and isinstance(loopvar.iter, ast.Name):
        for b in bindings(ctx, ci):
            if loopvar.iter.id in b.names:
                sel = b.site.stmt
                col0 = sel.columns[0][0] if sel.columns else None
                grouped = bool(sel.group_by) and col0 is not None and len(sel.group_by) == 1 and sel.group_by[0] == col0
                src_ok = (sel.distinct or grouped) and any(c[0] == "bin" and c[1] == "ISNOT" and c[3] == ("null",) for c in conjuncts(sel.where))
                src_known = True
    if loopvar is not None and not src_known:
        it_ = loopvar.iter
        itv = ciflow.def_value(it_) if isinstance(it_, ast.Name) else it_
        if isinstance(itv, ast.Call) and isinstance(itv.func, ast.Name) and itv.func.id == "range":
            agg_src = None
            for b in bindings(ctx, ci):
                if any(nm and any(isinstance(x, ast.Name) and x.id == nm for a_ in itv.args for x in ast.walk(a_)) for nm in b.names):
                    e0 = b.site.stmt.columns[0][0] if b.site.stmt.columns else None
                    if e0 is not None and e0[0] == "call" and e0[1] in ("MAX", "COUNT"):
                        agg_src = "%s(%s)" % (e0[1], expr_str(e0[2][0]) if e0[2] else "")
            if agg_src is not None:
                chk.ob(rule, False, where_of(ci, loopvar), "the labels are enumerated as %s from %s, not read from grid_time" % (ast.unparse(itv)[:50], agg_src),
                       "one pass per label that occurs in grid_time (SELECT DISTINCT data_interval ... IS NOT NULL)",
                       key="classify_intervals|per-interval-loop",
                       why="a stretch of water-level samples between two close drop-outs can contain no grid time: its label exists in no grid_time row, the series query returns nothing and the unpacking aborts classification")
                return
    if loopvar is None or not src_known:
        chk.indeterminate(rule, where_of(ci, loopvar or ci.node), "the loop over the data-interval labels, or the query that feeds it, is not recognised")
    else:
        chk.ob(rule, call_arg_ok and src_ok, where_of(ci, loopvar or ci.node),
               "per-interval loop passes its own label: %s; labels are the distinct non-NULL data intervals: %s" % (call_arg_ok, src_ok),
               "each gap-free stretch is classified on its own", key="classify_intervals|per-interval-loop",
               why="a run computed over concatenated stretches would cross a gap")


def series_feed_queries(ctx, chk, rule):
    """The SELECTs of classify_interstorms / match_all_storms that feed the positional array code: rows of ONE data interval
    (restricted by the function's data_interval argument), the three series tied to the same instant by equalities, in
    time order.  Shared by C03.O6 and C04.O2."""
    n_feed = 0
    for fq in ("classify.classify_interstorms", "classify.match_all_storms"):
        f = ctx.func(fq)
        for s in ctx.sites_in(f):
            if s.stmt is None or s.stmt.kind != "select":
                continue
            sel = s.stmt
            tabs = {x.table for x in sel.sources}
            sub_preds = []
            cte_names = set()
            for _n, cte in getattr(sel, "ctes", []) or []:
                tabs |= {x.table for x in cte.sources}
                cte_names.add(_n)
                sub_preds += conjuncts(cte.where)          # a restriction inside the CTE counts as a restriction of the query
            for pr in conjuncts(sel.where):
                # epoch IN (SELECT epoch FROM grid_time WHERE data_interval = ?): grid_time takes part through the sub-query
                if pr[0] in ("in", "inlist") and len(pr[2]) == 1 and pr[2][0][0] == "subq":
                    q_ = pr[2][0][1]
                    tabs |= {x.table for x in q_.sources}
                    sub_preds += conjuncts(q_.where)
            if not {"grid_time", "water_level", "rainfall_intensity"} <= tabs:
                continue
            n_feed += 1
            preds = []
            for src in sel.sources:
                preds += conjuncts(src.on)
            preds += conjuncts(sel.where) + sub_preds
            restricted = False
            for pr in preds:
                if pr[0] == "bin" and pr[1] == "=" and {pr[2][0], pr[3][0]} == {"col", "param"}:
                    col = pr[2] if pr[2][0] == "col" else pr[3]
                    par = pr[3] if pr[2][0] == "col" else pr[2]
                    if col[2] == "data_interval":
                        # bound parameter is the function's data_interval argument
                        a = s.param(par[1], Flow.of(f))
                        if a is not None:
                            restricted = isinstance(a, ast.Name) and a.id in f.params
            # equivalence classes of (table, column) under the join equalities (ON / WHERE / USING)
            alias = {x.alias: x.table for x in sel.sources if x.table}
            cols_of = {t: set(ctx.schema.columns_of(t)) for t in alias.values()} if hasattr(ctx.schema, "columns_of") else {}

            def owner(q, c):
                if q:
                    return alias.get(q, q)
                own = [t for t, cs in cols_of.items() if c in cs]
                if len(own) > 1 and len({find((t, c)) for t in own}) == 1:
                    return own[0]          # merged by USING: one column
                return own[0] if len(own) == 1 else None

            parent_ = {}

            def find(x):
                while parent_.setdefault(x, x) != x:
                    x = parent_[x]
                return x

            def union(a_, b_):
                parent_[find(a_)] = find(b_)

            seen_tabs = []
            for src in sel.sources:
                if src.using and src.table:
                    for c in src.using:
                        for t in seen_tabs:
                            if not cols_of or c in cols_of.get(t, ()):
                                union((t, c), (src.table, c))
                if src.table:
                    seen_tabs.append(src.table)
            for pr in preds:
                if pr[0] == "bin" and pr[1] == "=" and pr[2][0] == "col" and pr[3][0] == "col":
                    ta, tb = owner(pr[2][1], pr[2][2]), owner(pr[3][1], pr[3][2])
                    if ta and tb:
                        union((ta, pr[2][2]), (tb, pr[3][2]))
            # IN (SELECT epoch FROM grid_time WHERE data_interval = ?) restricts, and ties the instant to grid_time
            for pr in preds:
                if pr[0] in ("in", "inlist") and pr[1][0] == "col" and len(pr[2]) == 1 and pr[2][0][0] == "subq":
                    q_ = pr[2][0][1]
                    if len(q_.columns) == 1 and q_.columns[0][0][0] == "col" and len(q_.sources) == 1 and q_.sources[0].table == "grid_time":
                        ta = owner(pr[1][1], pr[1][2])
                        if ta:
                            union((ta, pr[1][2]), ("grid_time", q_.columns[0][0][2]))
            joined = find(("rainfall_intensity", "from_epoch")) == find(("water_level", "epoch")) == find(("grid_time", "epoch"))
            ordered = bool(sel.order_by) and sel.order_by[0][0][0] == "col" and sel.order_by[0][0][2].endswith("epoch") and sel.order_by[0][1] == "ASC"
            ranged = [pr for pr in preds if pr[0] == "bin" and pr[1] in (">=", "<=", ">", "<") and pr[2][0] == "col" and pr[3][0] == "col"
                      and ({alias.get(pr[2][1], pr[2][1]), alias.get(pr[3][1], pr[3][1])} & cte_names)]
            closing = []
            for pr in ranged:
                for side in (pr[2], pr[3]):
                    if alias.get(side[1], side[1]) not in cte_names and side[2] == "thru_epoch":
                        closing.append((pr, side))
            if not joined and closing:
                from ..sqlmodel import expr_str as _es
                chk.ob(rule, False, where_of(f, s.call), "the rows of the data interval are selected by `%s`: the closing epoch of a step (its start + one step) is bounded by an instant of the record" % _es(closing[0][0])[:90],
                       "the samples of a record are the instants labelled with its data interval: selected by the instant itself (from_epoch / epoch), by equality with the labelled grid times or by bounds on that same column",
                       key="%s|series-range-on-closing-epoch" % f.qualname, local=True,
                       why="the step that starts at the last instant of the record closes one step later, so it fails the bound: the last sample of every gap-free record is left out, and a recession (or storm) that reaches it is recorded one sample short or not at all")
                continue
            elif not joined and ranged:
                chk.indeterminate(rule, where_of(f, s.call), "the rows of the data interval are selected by a range against %s (%s), not by equality of the instant with the labelled grid times: whether the bounds keep exactly the interval's rows is not decided"
                                  % (sorted(cte_names), "; ".join(expr_str(pr)[:50] for pr in ranged[:2])))
                continue
            chk.ob(rule, restricted and joined and ordered, where_of(f, s.call),
                   "series query: restricted to the data interval argument: %s; three series joined on the same instant: %s; ordered by time ascending: %s" % (restricted, joined, ordered),
                   "one gap-free stretch, aligned, in time order", key="%s|series-query" % f.qualname,
                   why="positional array code assumes consecutive rows are consecutive steps of one stretch")
    chk.floor("array-feeding series queries in the classification call tree", n_feed, 2)
    return n_feed


def _jump_delta(ctx, chk, rule, mas, maflow, mc, a_jt, bl, why):
    """jump threshold passed to match_storms = rate threshold x step length in hours"""
    try:
        jd = maflow.expand(a_jt, keep=set(mas.params))
        # timedelta(seconds=X).total_seconds() is X; .seconds is X modulo one day
        class _TD(ast.NodeTransformer):
            lossy = None
            unread = None

            def _td_arg(self, c):
                if isinstance(c, ast.Call) and (dotted_name(c.func) or "").split(".")[-1] == "timedelta" and not c.args \
                        and len(c.keywords) == 1 and c.keywords[0].arg == "seconds":
                    return c.keywords[0].value
                return None

            def visit_Call(self, n):
                self.generic_visit(n)
                if isinstance(n.func, ast.Attribute) and n.func.attr == "total_seconds" and not n.args:
                    x = self._td_arg(n.func.value)
                    if x is not None:
                        return x
                if isinstance(n.func, ast.Name) and n.func.id == "float" and len(n.args) == 1:
                    return n.args[0]
                if self._td_arg(n) is None:
                    self.unread = n
                return n

            def visit_Attribute(self, n):
                self.generic_visit(n)
                if n.attr in ("seconds", "days", "microseconds") and self._td_arg(n.value) is not None:
                    self.lossy = n
                return n
        td = _TD()
        jd = ast.fix_missing_locations(td.visit(jd))
        if td.lossy is not None:
            chk.ob(rule, False, where_of(mas, enclosing_stmt(a_jt) if not isinstance(a_jt, ast.Name) else (maflow.cfg.stmt_of.get(maflow.unique_def_node(a_jt)) or mc)),
                   "jump threshold per step uses `%s`: one field of the timedelta, not its length" % ast.unparse(td.lossy)[:70],
                   "rate threshold [mm/h] x time_step_s / 3600", key="match_all_storms|jump-delta",
                   why=why + "; timedelta.seconds is the step modulo one day, so a daily step gives a threshold of 0")
            return
        if td.unread is not None:
            chk.indeterminate(rule, where_of(mas, mc), "jump threshold per step goes through `%s`, which this rule does not read" % ast.unparse(td.unread)[:70])
            return
        step_names = [n.id for n in ast.walk(jd) if isinstance(n, ast.Name) and n.id not in mas.params]
        # the step factor must be the SQL time step in hours
        step_ok = False
        sdesc = ""
        if len(step_names) == 1:
            e = bl.get(step_names[0])
            if e is not None:
                sp = sql_poly(e, lambda c: c[2])
                step_ok = sp == Poly.atom("time_step_s") * _inv3600()
                sdesc = expr_str(e)
        jp = py_poly(jd)
        prod_ok = len(step_names) == 1 and jp == Poly.atom(mas.params[3]) * Poly.atom(step_names[0])
        if len(step_names) == 1 and bl.get(step_names[0]) is not None and not (step_ok and prod_ok):
            # the division by 3600 may be done on either side of the query: compare the composed expression
            try:
                total = jp.subst({step_names[0]: sql_poly(bl[step_names[0]], lambda c: c[2])})
                if total == Poly.atom(mas.params[3]) * Poly.atom("time_step_s") * _inv3600():
                    step_ok = prod_ok = True
            except Exception:
                pass
        chk.ob(rule, step_ok and prod_ok, where_of(mas, enclosing_stmt(a_jt) if not isinstance(a_jt, ast.Name) else (maflow.cfg.stmt_of.get(maflow.unique_def_node(a_jt)) or mc)),
               "jump threshold per step = %s with step = %s" % (ast.unparse(jd), sdesc), "rate threshold [mm/h] x time_step_s / 3600",
               key="match_all_storms|jump-delta", why=why)
    except (NotAlgebraic, IndexError) as exc:
        chk.indeterminate(rule, where_of(mas, mc), "jump threshold per step: %s" % exc)


def jump_delta_obligation(ctx, chk, rule, why):
    """The same obligation for another property's rule id (C01: both classifiers must mean the same jump)."""
    mas = ctx.func("classify.match_all_storms")
    maflow = Flow.of(mas)
    names, _ = pair_flow(ctx)
    mc = names["match_call"]
    if len(mc.args) != 4:
        chk.indeterminate(rule, where_of(mas, mc), "match_storms call does not have four positional arguments")
        return
    bl = {b.names[i]: b.site.stmt.columns[i][0] for b in bindings(ctx, mas) for i in range(len(b.names)) if b.names[i]}
    _jump_delta(ctx, chk, rule, mas, maflow, mc, mc.args[3], bl, why)


def run(ctx, chk, tier="quick"):
    chk.explanation = (
        "Comparison normal forms of the two run-defining predicates and of every comparison against a "
        "threshold role in the classification call tree; affine index kinds (first/last True index of a "
        "run mask plus offset) followed positionally from get_candidate_match_intervals to the values "
        "bound to the storm / zeta_interval / zeta_interval_storm INSERTs; reader predicates of the "
        "rain-depth view, rise.py and recession.py against the half-open (steps) / closed (samples) "
        "conventions; the view's aggregate expression; gap isolation of the array-feeding queries."
    )
    chk.assumptions = ["numpy cumsum labelling in get_true_interval_masks yields maximal interior runs (leading run: C01.O3)",
                       "a rain mask has one element per time step, a jump mask one per increment (np.diff)"]
    from ..sqlrules import conflict_clauses as _conflict_clauses
    _conflict_clauses(ctx, chk, "C03.O6", ("classify",), "classify", 'a second classification with other thresholds keeps storms and rises of the first run that are not runs under the stored thresholds')
    from .c04 import record_read_whole
    record_read_whole(ctx, chk, "C03.O1")
    from ..sqlrules import lossy_functions
    lossy_functions(ctx, chk, "C03.O1", ("classify",), "classify", "thresholds are compared with the stored intensities and levels, not with rounded ones")
    roles = threshold_roles(ctx)
    mod = ctx.repo.module("classify")
    # ------------------------------------------------------------ O1
    ms = ctx.func("classify.match_storms")
    msflow = Flow.of(ms)
    if len(ms.params) < 4:
        chk.indeterminate("C03.O1", where_of(ms, ms.node), "match_storms signature changed")
        return
    rain_p, head_p, rthr_p, jthr_p = ms.params[:4]
    # the two masks passed to get_true_interval_masks
    gm_calls = [c for c in ast.walk(ms.node) if isinstance(c, ast.Call) and ctx.cg.resolve_callee(ms, c.func) == ["classify.get_true_interval_masks"]]
    defs = {}
    for k_, c in enumerate(gm_calls):
        if c.args:
            ex = msflow.expand(c.args[0], keep={rain_p, head_p, rthr_p, jthr_p})
            defs[c.args[0].id if isinstance(c.args[0], ast.Name) else "mask#%d" % k_] = (c, ex)
    want = {
        "storm": ("%s > %s" % (rain_p, rthr_p), "rain intensity > storm threshold"),
        "jump": ("diffop(%s) > %s" % (head_p, jthr_p), "level increment > jump threshold"),
    }
    found = {}
    for name, (c, ex) in defs.items():
        try:
            def callname(call):
                fn = full_call_name(mod, call) or ""
                if fn.endswith("numpy.diff"):
                    return "diffop"
                return None
            # head[1:] - head[:-1] is the same increment vector as np.diff(head)
            exn = _normalise_diff(ex, head_p)
            op, p = py_compare(exn, callname=callname)
            for role, (spec, text) in want.items():
                wop, wp = py_compare(ast.parse(spec, mode="eval").body)
                if p == wp or p == -wp:
                    found[role] = (c, ex, (op, p) == (wop, wp))
        except NotAlgebraic:
            continue
    for role, (spec, text) in want.items():
        if role not in found:
            thr_name = rthr_p if role == "storm" else jthr_p
            cand = [(c, ex) for name, (c, ex) in defs.items() if thr_name in {x.id for x in ast.walk(ex) if isinstance(x, ast.Name)}]
            if cand:
                c, ex = cand[0]
                chk.ob("C03.O1", False, where_of(ms, c), "%s runs are runs of `%s`" % (role, ast.unparse(ex)), text + " (strict)",
                       key="match_storms|predicate|%s" % role, why="the run-defining quantity or its strictness differs from the property's")
            else:
                chk.indeterminate("C03.O1", where_of(ms, ms.node), "run-defining predicate for %s not found among the masks passed to get_true_interval_masks" % role)
            continue
        c, ex, ok = found[role]
        chk.ob("C03.O1", ok, where_of(ms, c), "%s runs are runs of `%s`" % (role, ast.unparse(ex)), text + " (strict)",
               key="match_storms|predicate|%s" % role, why="a value exactly at the threshold does not belong to a run")
    # jump threshold passed in = rate threshold x step length in hours
    mas = ctx.func("classify.match_all_storms")
    maflow = Flow.of(mas)
    try:
        names, flow_checks = pair_flow(ctx)
    except AnalysisError as exc:
        chk.indeterminate("C03.O3", where_of(mas, mas.node), str(exc))
        return
    mc = names["match_call"]
    args = list(mc.args)
    arg_roles = []
    bl = {b.names[i]: b.site.stmt.columns[i][0] for b in bindings(ctx, mas) for i in range(len(b.names)) if b.names[i]}
    ok_args = len(args) == 4
    if ok_args:
        a_rain, a_head, a_rt, a_jt = args
        def col_of(a):
            """SQL column an argument is bound to: name, '' if bound to something else, None if unknown"""
            if not isinstance(a, ast.Name) or a.id not in bl:
                return None
            return bl[a.id][2] if bl[a.id][0] == "col" else ""
        c_rain, c_head = col_of(a_rain), col_of(a_head)
        # ... and it is the whole column: the value that reaches the call is the one bound from the query, not a slice / filter of it
        bstmts = {b.names[i]: b.stmt for b in bindings(ctx, mas) for i in range(len(b.names)) if b.names[i]}
        for a_ in (a_rain, a_head):
            if not (isinstance(a_, ast.Name) and a_.id in bstmts):
                continue
            rd = maflow.reaching_defs(a_) or set()
            bnode = maflow.cfg.node(bstmts[a_.id])
            others = [maflow.cfg.stmt_of.get(d) for d in rd if d != bnode]
            for st_ in others:
                v_ = getattr(st_, "value", None)
                if isinstance(st_, ast.Assign) and len(st_.targets) == 1 and isinstance(st_.targets[0], (ast.Tuple, ast.List)) and isinstance(v_, (ast.Tuple, ast.List)) \
                        and len(v_.elts) == len(st_.targets[0].elts):
                    # (epoch, zeta, rain) = (epoch[w], zeta[w], rain[w]): the element bound to this name
                    for t__, e__ in zip(st_.targets[0].elts, v_.elts):
                        if isinstance(t__, ast.Name) and t__.id == a_.id:
                            v_ = e__
                cut = isinstance(st_, ast.Assign) and isinstance(v_, ast.Subscript) and isinstance(v_.value, ast.Name) and v_.value.id == a_.id
                if cut:
                    chk.ob("C03.O1", False, where_of(mas, st_), "%s is cut down before the runs are computed: %s" % (a_.id, ast.unparse(st_)[:70]),
                           "storms and rises are runs of the whole gap-free stretch read by the series query",
                           key="match_all_storms|series-cut|%s" % a_.id,
                           why="a run that begins before the kept part is recorded from the first kept sample on: it is no longer maximal (a rise that starts one step before the first rain of the stretch)")
                elif isinstance(st_, ast.Assign) and any(
                        isinstance(c_, ast.Call) and (((isinstance(c_.func, ast.Attribute) and c_.func.attr in ("round", "around", "round_", "rint", "floor", "ceil", "trunc", "clip", "fix")))
                                                      or (isinstance(c_.func, ast.Name) and c_.func.id == "round"))
                        and any(isinstance(x_, ast.Name) and x_.id.endswith(a_.id) for x_ in ast.walk(c_))
                        for c_ in ast.walk(maflow.expand(v_, keep={a_.id}) if v_ is not None else ast.Constant(value=0))):
                    chk.ob("C03.O1", False, where_of(mas, st_), "%s is rounded before the runs are computed: %s" % (a_.id, ast.unparse(st_)[:70]),
                           "the thresholds are compared with the stored intensities and level increments themselves",
                           key="match_all_storms|series-rounded|%s" % a_.id, local=True,
                           why="an increment that is above the threshold in the stored record can round to exactly the threshold (or below): the recorded rise is cut or split and is no longer a maximal above-threshold run of the stored series")
                elif st_ is not None:
                    chk.indeterminate("C03.O1", where_of(mas, st_), "%s is rebound between the series query and match_storms (%s): not read" % (a_.id, ast.unparse(st_)[:60]))
        rt_role = roles.get((mas.fq, a_rt.id)) if isinstance(a_rt, ast.Name) and maflow.is_param(a_rt) else None
        if c_rain is None or c_head is None or rt_role is None:
            chk.indeterminate("C03.O1", where_of(mas, mc), "arguments of match_storms(%s) cannot be traced to the series query / the threshold parameters"
                              % ", ".join(ast.unparse(a) for a in args))
        else:
            chk.ob("C03.O1", c_rain == "rainfall_intensity_mm_h" and c_head == "zeta_mm" and rt_role == "storm", where_of(mas, mc),
                   "match_storms(%s) = (%s, %s, %s threshold, ...)" % (", ".join(ast.unparse(a) for a in args), c_rain or "?", c_head or "?", rt_role),
                   "(rainfall intensity, water level, storm threshold, jump threshold x step)", key="match_all_storms|match-args",
                   why="swapped series or thresholds classify the wrong quantity")
        # jump delta
        _jump_delta(ctx, chk, "C03.O1", mas, maflow, mc, a_jt, bl, "the increment threshold is the rate threshold multiplied by the step length in hours")
    else:
        chk.indeterminate("C03.O1", where_of(mas, mc), "match_storms call does not have four positional arguments")

    # ------------------------------------------------------------ O2
    n_cmp = 0
    tree = sorted(ctx.cg.reachable("classify.classify_intervals"))
    for fq in tree:
        f = ctx.cg.func(fq)
        local = {n: r for (q, n), r in roles.items() if q == fq}
        if not local:
            continue
        for n in ast.walk(f.node):
            if isinstance(n, ast.Compare) and len(n.ops) == 1 and enclosing_func(n) is f.node:
                l, r = n.left, n.comparators[0]
                side = None
                if isinstance(r, ast.Name) and r.id in local:
                    side = "right"
                elif isinstance(l, ast.Name) and l.id in local:
                    side = "left"
                if side is None:
                    continue
                if isinstance(n.ops[0], (ast.Is, ast.IsNot)):
                    continue          # `thr is None`: whether it was given, not a comparison of values
                other_ = l if side == "right" else r
                if isinstance(other_, ast.Constant) or (isinstance(other_, ast.UnaryOp) and isinstance(other_.operand, ast.Constant)):
                    continue          # `thr > 0`: a validation of the argument, not a predicate on the series
                n_cmp += 1
                op = type(n.ops[0])
                # normalised with the threshold on the right
                if side == "left":
                    op = {ast.Lt: ast.Gt, ast.Gt: ast.Lt, ast.LtE: ast.GtE, ast.GtE: ast.LtE}.get(op, op)
                ok = op in (ast.Gt, ast.LtE)
                role = local[(r if side == "right" else l).id]
                chk.ob("C03.O2", ok, where_of(f, n), "`%s` (%s threshold)" % (ast.unparse(n), role),
                       "value > threshold, or its exact complement value <= threshold",
                       key="%s|threshold-compare|%s|%s" % (f.qualname, role, ast.unparse(n.ops[0].__class__()) if False else type(n.ops[0]).__name__),
                       why="siblings that disagree at equality make the maximality assertions fail or runs overlap")
    chk.floor("comparisons against a threshold in the classification call tree", n_cmp, 7)
    # ... and a threshold is used as the number it is: zero is a threshold like any other ("any rain is a storm"),
    # so nothing in the call tree may branch on its truth value (`thr or default`, `if not thr`)
    from ..idioms import truthiness_uses, truthiness_control
    if not truthiness_control():
        chk.errors.append("C03.O2 positive control (truth value of a threshold) did not match")
    n_truth = 0
    for fq in tree:
        f = ctx.cg.func(fq)
        local = {n for (q, n), r in roles.items() if q == fq}
        for node, text in truthiness_uses(f.node, local):
            n_truth += 1
            chk.ob("C03.O2", False, where_of(f, node), text, "a threshold is compared as a number; `is None` decides whether it was given",
                   key="%s|threshold-truth|%s" % (f.qualname, ast.unparse(node)[:40]),
                   why="a threshold of exactly 0 is replaced or skipped, so the recorded runs are not the runs above the requested threshold")
    chk.count("truth-value tests of a threshold in the classification call tree (expected 0)", n_truth)

    # ------------------------------------------------------------ O3
    for ok, node, f, desc in flow_checks:
        chk.ob("C03.O3", ok, where_of(f, node), desc, "pairs keep their (rain, jump) positions and their own stops",
               key="%s|pair-flow|%s" % (f.qualname, desc[:40]))
    kinds = names["kinds"]
    for side in ("rain", "jump"):
        a, b = kinds[side]
        wantk = {"rain": (("F", "rain", 0), ("L", "rain", 1)), "jump": (("F", "jump", 0), ("L", "jump", 2))}[side]
        chk.ob("C03.O3", (a.key(), b.key()) == wantk, where_of(kinds["func"], kinds["return"]),
               "%s pair = (%r, %r)" % (side, a, b),
               "(start, stop) slice of the run: (F, L+1) over steps for rain; (F, L+2) over samples for a rise",
               key="get_candidate_match_intervals|%s-pair" % side,
               why="these are the slices every later consumer (assertions, duration metric, epochs) is written against")
    name_kind = {}
    for side in ("rain", "jump"):
        s, e = names[side]
        name_kind[s], name_kind[e] = kinds[side]
    epoch_name = None
    for b in bindings(ctx, mas):
        for i, nm in enumerate(b.names):
            e = b.site.stmt.columns[i][0]
            if nm and e[0] == "col" and e[2].endswith("epoch"):
                epoch_name = nm
    if epoch_name is None:
        chk.indeterminate("C03.O3", where_of(mas, mas.node), "epoch array not found")
        return
    sinks = 0
    for s in ctx.sites_in(mas):
        if s.stmt is None or s.stmt.kind != "insert":
            continue

        class _P(dict):
            # parameter reference (name or position) -> bound Python expression
            def __contains__(self_, k):
                return s.param(k, maflow) is not None

            def __getitem__(self_, k):
                return s.param(k, maflow)

            def get(self_, k, d=None):
                v_ = s.param(k, maflow)
                return v_ if v_ is not None else d
        pd = _P()
        cols = s.stmt.columns
        vals = s.stmt.values if s.stmt.values is not None else [c[0] for c in s.stmt.select.columns] if s.stmt.select is not None else []
        for col, v in zip(cols, vals):
            key = (s.stmt.table, col)
            if key not in WANT_KINDS:
                if col == "interval_type":
                    if v[0] == "param" and isinstance(pd.get(v[1]), ast.Constant):
                        chk.ob("C03.O3", pd[v[1]].value == "storm", where_of(mas, s.call), "%s.interval_type = %r" % (s.stmt.table, pd[v[1]].value), "'storm'",
                               key="match_all_storms|%s|interval_type" % s.stmt.table)
                continue
            if v[0] != "param" or v[1] not in pd:
                chk.indeterminate("C03.O3", where_of(mas, s.call), "value of %s.%s is not a bound parameter" % key)
                continue
            sinks += 1
            try:
                cases = grid_time_of(pd[v[1]], maflow, epoch_name, name_kind, kinds, mod)
            except NotGridTime as exc:
                chk.ob("C03.O3", False, where_of(mas, s.call), "%s.%s: %s" % (key[0], key[1], exc),
                       "a grid time: GridTime(%s(%s)%+d)" % WANT_KINDS[key], key="match_all_storms|sink|%s.%s" % key,
                       why="interval ends must be instants of the time grid (they reference grid_time / water_level rows)")
                continue
            except AnalysisError as exc:
                chk.indeterminate("C03.O3", where_of(mas, s.call), "%s.%s: %s" % (key[0], key[1], exc))
                continue
            want_k = WANT_KINDS[key]
            bad = [(lab, g) for lab, g in cases if g != want_k]
            shown = bad[0] if bad else cases[0]
            chk.ob("C03.O3", not bad, where_of(mas, s.call),
                   "%s.%s = GridTime(%s(%s)%+d)%s" % (key[0], key[1], shown[1][0], shown[1][1], shown[1][2],
                                                       "" if shown[0] == "always" else " when %s" % shown[0]),
                   "GridTime(%s(%s)%+d)" % want_k, key="match_all_storms|sink|%s.%s" % key,
                   why="storms are half-open over steps (thru = start of the first step after the run); rises are closed over samples (thru = last sample of the run)")
    chk.floor("epoch sinks of the storm / rise INSERTs", sinks, 6)

    # ------------------------------------------------------------ O4 readers
    _readers(ctx, chk)
    # ------------------------------------------------------------ O5 view expression
    v = ctx.schema.views.get("storm_total_rain_depth")
    if v is None:
        chk.indeterminate("C03.O5", ("spowtd/schema.sql", "<schema>", 0), "view storm_total_rain_depth missing")
    else:
        sel = v.select
        agg = None
        key_ok = False
        alias = {s.alias: s.table for s in sel.sources}
        for e, al in sel.columns:
            if e[0] == "call" and e[1] in ("SUM", "TOTAL"):
                agg = e
            if e[0] == "col" and e[2] == "start_epoch" and alias.get(e[1]) == "storm" and al == "storm_start_epoch":
                key_ok = True
        ok = False
        desc = "no SUM aggregate"
        if agg is not None:
            try:
                def cn(c):
                    return "%s.%s" % (alias.get(c[1], c[1]), c[2])
                got = sql_poly(agg[2][0], cn)
                R = "rainfall_intensity"
                want = Poly.atom("%s.rainfall_intensity_mm_h" % R) * (Poly.atom("%s.thru_epoch" % R) - Poly.atom("%s.from_epoch" % R)) * _inv3600()
                ok = got == want
                desc = "SUM(%s)" % got.key()
            except NotAlgebraic as exc:
                desc = str(exc)
        gb = [g for g in sel.group_by]
        gb_ok = len(gb) == 1 and gb[0][0] == "col" and gb[0][2] == "start_epoch" and alias.get(gb[0][1]) == "storm"
        chk.ob("C03.O5", ok and key_ok and gb_ok, ("spowtd/schema.sql", "view storm_total_rain_depth", 0),
               "%s grouped by %s" % (desc, [expr_str(g) for g in gb]), "SUM(intensity x (thru - from) / 3600) grouped by storm start",
               key="view|storm_total_rain_depth|expression", why="rain depth is intensity [mm/h] times step length [h], summed over the storm's steps")

    from .. import sqltypes
    sqltypes.check(ctx, chk, "C03.O1", modules=("classify",), views=("storm_total_rain_depth",))
    # ------------------------------------------------------------ O6 gap isolation
    from ..typestate import lazy_cursor_loops
    lazy_cursor_loops(ctx, chk, "C03.O6", ("classify",), why="execute on the iterated cursor ends the loop over the data intervals after the first: storms and rises of later records are never recorded")
    data_interval_loop(ctx, chk, "C03.O6")
    series_feed_queries(ctx, chk, "C03.O6")


def _zero():
    from fractions import Fraction
    return Fraction(0)


def _inv3600():
    from fractions import Fraction
    return Poly.const(Fraction(1, 3600))


def _normalise_diff(ex, head):
    """Rewrite head[1:] - head[:-1] as diffop(head) inside a comparison AST copy."""
    class T(ast.NodeTransformer):
        def visit_BinOp(self, node):
            self.generic_visit(node)
            if isinstance(node.op, ast.Sub):
                def sl(n):
                    if isinstance(n, ast.Subscript) and isinstance(n.value, ast.Name) and n.value.id == head and isinstance(n.slice, ast.Slice):
                        lo = ast.unparse(n.slice.lower) if n.slice.lower is not None else ""
                        up = ast.unparse(n.slice.upper) if n.slice.upper is not None else ""
                        return (lo, up)
                    return None
                if sl(node.left) == ("1", "") and sl(node.right) == ("", "-1"):
                    return ast.Call(func=ast.Name(id="diffop", ctx=ast.Load()), args=[ast.Name(id=head, ctx=ast.Load())], keywords=[])
            return node
    import copy
    return T().visit(_clone(ex))


def _readers(ctx, chk):
    # (1) view storm_total_rain_depth
    v = ctx.schema.views.get("storm_total_rain_depth")
    if v is not None:
        sel = v.select
        alias = {s.alias: s.table for s in sel.sources}
        preds = []
        for s in sel.sources:
            preds += conjuncts(s.on)
        preds += conjuncts(sel.where)
        lower = upper = None
        extra = []
        for pr in preds:
            if pr[0] == "bin" and pr[2][0] == "col" and pr[3][0] == "col":
                l, r, op = pr[2], pr[3], pr[1]
                if alias.get(l[1]) == "storm":
                    l, r = r, l
                    op = {"<": ">", ">": "<", "<=": ">=", ">=": "<=", "=": "="}[op]
                if alias.get(l[1]) == "rainfall_intensity" and alias.get(r[1]) == "storm":
                    if r[2] == "start_epoch" and op in (">=", ">", "="):
                        lower = (l[2], op)
                    elif r[2] == "thru_epoch" and op in ("<", "<=", "="):
                        upper = (l[2], op)
                    else:
                        extra.append(expr_str(pr))
        ok = lower == ("from_epoch", ">=") and upper in (("thru_epoch", "<="), ("from_epoch", "<")) and not extra
        chk.ob("C03.O4", ok, ("spowtd/schema.sql", "view storm_total_rain_depth", 0),
               "rain steps of a storm: %s %s start AND %s %s thru %s" % (lower[0] if lower else "?", lower[1] if lower else "?", upper[0] if upper else "?", upper[1] if upper else "?", extra or ""),
               "from_epoch >= start AND (thru_epoch <= thru | from_epoch < thru): exactly the steps of the half-open storm",
               key="view|storm_total_rain_depth|interval-predicate",
               why="an inclusive upper bound on from_epoch adds the first step after the storm; a strict lower bound drops its first step")
    # (2) rise.py slice
    f = ctx.func("rise.compute_rise_offsets")
    flow = Flow.of(f)
    # positions looked up in the water-level epochs index only arrays with the same rows (a storm's rain is summed
    # over its own steps, not over steps shifted by the instants missing from water_level)
    from .. import indexspace
    indexspace.check(ctx, chk, "C03.O4", f, "compute_rise_offsets")
    row = None
    for b in bindings(ctx, f):
        if b.kind == "rows" and {"storm", "zeta_interval"} <= {s.table for s in b.site.stmt.sources}:
            row = b
    if row is None:
        chk.indeterminate("C03.O4", where_of(f, f.node), "row binding of the storm/rise query in rise.py not found")
    else:
        sel = row.site.stmt
        alias = {s.alias: s.table for s in sel.sources}
        colrole = {}
        for i, nm in enumerate(row.names):
            e = sel.columns[i][0]
            if e[0] == "col":
                colrole[nm] = (alias.get(e[1], e[1]), e[2])
        zs = next((n for n, r in colrole.items() if r == ("zeta_interval", "start_epoch")), None)
        zt = next((n for n, r in colrole.items() if r == ("zeta_interval", "thru_epoch")), None)
        # the level slice
        ok = False
        desc = "level slice not found"
        for n in ast.walk(f.node):
            if isinstance(n, ast.Subscript) and isinstance(n.slice, ast.Slice) and isinstance(n.value, ast.Name) \
                    and n.slice.lower is not None and n.slice.upper is not None and enclosing_func(n) is f.node:
                lo = flow.expand(n.slice.lower)
                up = flow.expand(n.slice.upper)
                lt, ut = ast.unparse(lo), ast.unparse(up)
                if zs and zt and zs in lt and zt in ut:
                    def idx_of(e, name):
                        # np.argwhere(epoch == NAME)[0, 0] (+ c), either orientation
                        from ..idioms import lookup_key_is
                        return lookup_key_is(e, name)
                    a, b_ = idx_of(lo, zs), idx_of(up, zt)
                    from ..idioms import lookup_defect
                    bad_ = lookup_defect(lo) or lookup_defect(up)
                    if (a is None or b_ is None) and bad_:
                        ok = False
                        desc = "levels[%s : %s]: %s" % (lt[:40], ut[:40], bad_)
                    elif a is None or b_ is None:
                        ok = None
                        desc = "levels[%s : %s]: the bounds are not exact look-ups of the interval's start / thru instants" % (lt[:50], ut[:50])
                    else:
                        desc = "levels[index(start)%+d : index(thru)%+d]" % (a, b_)
                        ok = a == 0 and b_ == 1
        if ok is None:
            chk.indeterminate("C03.O4", where_of(f, f.node), "rise samples: %s" % desc)
        else:
            chk.ob("C03.O4", ok, where_of(f, f.node), "rise samples: %s" % desc, "levels[index(start) : index(thru) + 1]: closed over the rise's samples",
                   key="rise.compute_rise_offsets|interval-slice", why="the final level of a rise is the level at its thru_epoch")
    # (3) recession.py mask
    g = ctx.func("recession.compute_offsets")
    rowb = None
    for b in bindings(ctx, g):
        if b.kind == "rows" and {s.table for s in b.site.stmt.sources} == {"zeta_interval"}:
            rowb = b
    if rowb is None:
        chk.indeterminate("C03.O4", where_of(g, g.node), "row binding of the interstorm query in recession.py not found")
    else:
        sel = rowb.site.stmt
        names = {}
        for i, nm in enumerate(rowb.names):
            e = sel.columns[i][0]
            if e[0] == "col":
                names[e[2]] = nm
        s_, t_ = names.get("start_epoch"), names.get("thru_epoch")
        lower = upper = None
        for n in ast.walk(g.node):
            if isinstance(n, ast.Compare) and len(n.ops) == 1:
                l, r = n.left, n.comparators[0]
                op = type(n.ops[0])
                if isinstance(l, ast.Name) and l.id in (s_, t_):
                    l, r = r, l
                    op = {ast.Lt: ast.Gt, ast.Gt: ast.Lt, ast.LtE: ast.GtE, ast.GtE: ast.LtE}.get(op, op)
                if isinstance(r, ast.Name) and isinstance(l, ast.Name) and r.id == s_ and op in (ast.GtE, ast.Gt):
                    lower = op.__name__
                if isinstance(r, ast.Name) and isinstance(l, ast.Name) and r.id == t_ and op in (ast.LtE, ast.Lt):
                    upper = op.__name__
        chk.ob("C03.O4", lower == "GtE" and upper == "LtE", where_of(g, g.node), "recession samples: epoch %s start and epoch %s thru" % (lower, upper),
               "start <= epoch <= thru: closed over the interval's samples", key="recession.compute_offsets|interval-mask",
               why="the first and last samples of an interstorm interval belong to it")
