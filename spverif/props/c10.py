"""C10 -- loaded series reproduce the source data on one uniform time grid.

 O1 grid bounds: rainfall epochs with min <= epoch <= max of the
    water-level staging epochs, ordered; closing instant = last + step;
    the stored step is the grid's step
 O2 the rainfall and ET copies are isomorphic: (epoch, epoch + step,
    value) for on-grid staging rows with epoch <= second-to-last grid time
 O3 row order: every SELECT feeding positional array code is ordered by
    its key, or is a bare scan of a rowid-alias table
 O4 interpolation roles and index spaces
 O5 gaps: validity intervals closed at both ends, labels i // 2 + 1,
    (label, epoch) bound to (SET, WHERE) in that order
"""

import ast

from ..flow import Flow
from ..norm import NotAlgebraic, Poly, py_poly, sql_poly
from ..report import where_of
from ..source import dotted_name, enclosing_func, enclosing_stmt
from ..sqlbind import binding_of, bindings
from ..sqlmodel import conjuncts, expr_str, walk_expr
from .c12 import full_call_name

ARRAY_MODULES = ["load", "classify", "rise", "recession", "zeta_grid", "simulate_rise", "simulate_recession", "pestfiles"]



def _end_index(sub, grid):
    """Index of `grid[...]` counted from the front (>= 0) or from the back
    (< 0): constants, and len(grid) - k."""
    if not (isinstance(sub, ast.Subscript) and ast.unparse(sub.value).replace(" ", "") == grid):
        return None
    try:
        p = py_poly(sub.slice, callname=lambda c: "LEN" if isinstance(c.func, ast.Name) and c.func.id == "len"
                    and len(c.args) == 1 and ast.unparse(c.args[0]).replace(" ", "") == grid else None)
    except Exception:
        return None
    c = p.const_or_none()
    if c is not None:
        return int(c) if c == int(c) else None
    ats = sorted(p.atoms())
    if len(ats) == 1 and ats[0].startswith("LEN(") and p.coeff_of_atom(ats[0]).const_value() == 1:
        k = p.without_atom(ats[0]).const_or_none()
        if k is not None and k == int(k) and k < 0:
            return int(k)
    return None


def _list_ends(expr, grid):
    """(first index, last index) of `[grid[i]] + ... + [grid[j]]`, else None."""
    first = expr
    while isinstance(first, ast.BinOp) and isinstance(first.op, ast.Add):
        first = first.left
    last = expr.right if isinstance(expr, ast.BinOp) else None
    if not (isinstance(first, ast.List) and len(first.elts) == 1 and isinstance(last, ast.List) and len(last.elts) == 1):
        return None
    i, j = _end_index(first.elts[0], grid), _end_index(last.elts[0], grid)
    if i is None or j is None:
        return None
    return (i, j)

def run(ctx, chk, tier="quick"):
    chk.explanation = (
        "SQL ASTs of the grid query and of the two INSERT ... SELECT copies with their parameter "
        "bindings; the closing instant; a row-order rule over every SELECT bound to positional Python "
        "code (ORDER BY key, or the rowid-alias lemma checked on the schema's declared type text); "
        "argument lineage of np.interp and agreement of the index spaces of the stored epochs and "
        "values; closedness of the validity intervals and their labels."
    )
    chk.assumptions = ["numpy.interp is the bracketing linear interpolation for increasing xp",
                       "SQLite scans a table whose key is an INTEGER PRIMARY KEY (rowid alias) in key order when the query is a bare single-table SELECT"]
    from .. import sqltypes
    sqltypes.check(ctx, chk, "C10.O2", modules=("load",))
    load = ctx.func("load.load_data")
    # ------------------------------------------------------------ O1
    gt = ctx.func("load.populate_grid_time")
    gflow = Flow.of(gt)
    sel_sites = [s for s in ctx.sites_in(gt) if s.stmt is not None and s.stmt.kind == "select"]
    if len(sel_sites) != 1:
        chk.indeterminate("C10.O1", where_of(gt, gt.node), "expected one SELECT in populate_grid_time")
        return
    gs = sel_sites[0]
    sel = gs.stmt
    cte = {n: c for n, c in sel.ctes}
    alias_expr = {}
    for n, c in cte.items():
        for e, al in c.columns:
            if al and e[0] == "call" and e[1] in ("MIN", "MAX") and e[2] and e[2][0][0] == "col":
                alias_expr[al] = (e[1], e[2][0][2], [s.table for s in c.sources])
    preds = []
    for s in sel.sources:
        preds += conjuncts(s.on)
    preds += conjuncts(sel.where)
    lower = upper = None
    src_tab = [s.table for s in sel.sources if s.table not in cte]
    def extreme(e):
        """(MIN|MAX, column, [tables]) if e is a CTE alias of, or a scalar sub-query for, an extreme of one column"""
        if e[0] == "col" and e[2] in alias_expr:
            return alias_expr[e[2]]
        if e[0] == "subq":
            q_ = e[1]
            if len(q_.columns) == 1 and not q_.where and not q_.group_by and all(s_.subq is None and s_.on is None for s_ in q_.sources):
                c_ = q_.columns[0][0]
                if c_[0] == "call" and c_[1] in ("MIN", "MAX") and c_[2] and c_[2][0][0] == "col":
                    return (c_[1], c_[2][0][2], [s_.table for s_ in q_.sources])
        return None

    bounds = []
    for pr in preds:
        if pr[0] == "bin" and pr[1] in (">=", ">", "<=", "<"):
            l, r, op = pr[2], pr[3], pr[1]
            if extreme(l) is not None:
                l, r = r, l
                op = {"<": ">", ">": "<", "<=": ">=", ">=": "<="}[op]
            if extreme(r) is not None and l[0] == "col" and l[2] == "epoch":
                fn, col, tabs = extreme(r)
                bounds.append((op, fn, col, tabs))
                if fn == "MIN":
                    lower = (op, col, tabs)
                else:
                    upper = (op, col, tabs)
    if len(bounds) == 2 and (lower is None or upper is None):
        # two bounds against extremes of a column, but not one smallest and one largest: readable, and wrong
        chk.ob("C10.O1", False, where_of(gt, gs.call), "grid bounds: %s" % ["epoch %s %s(%s)" % (b_[0], b_[1], b_[2]) for b_ in bounds],
               "rainfall epochs with min(water-level epoch) <= epoch <= max(water-level epoch), both inclusive",
               key="populate_grid_time|bounds", why="an exclusive bound drops the first or last instant that has a water level")
        return
    if lower is None or upper is None:
        chk.indeterminate("C10.O1", where_of(gt, gs.call), "bounds of the grid query (epoch against the smallest / largest water-level epoch) not recognised")
        return
    ok = lower == (">=", "epoch", ["water_level_staging"]) and upper == ("<=", "epoch", ["water_level_staging"]) \
        and src_tab == ["rainfall_intensity_staging"]
    chk.ob("C10.O1", ok, where_of(gt, gs.call), "grid = epochs of %s with epoch %s min(%s) and epoch %s max(%s)" % (
        src_tab, lower[0] if lower else "?", lower[2] if lower else "?", upper[0] if upper else "?", upper[2] if upper else "?"),
        "rainfall epochs with min(water-level epoch) <= epoch <= max(water-level epoch), both inclusive",
        key="populate_grid_time|bounds", why="an exclusive bound drops the first or last instant that has a water level")
    ordered = bool(sel.order_by) and sel.order_by[0][0][0] == "col" and sel.order_by[0][0][2] == "epoch" and sel.order_by[0][1] == "ASC"
    chk.ob("C10.O1", ordered, where_of(gt, gs.call), "grid query ORDER BY %s" % [(expr_str(e), d) for e, d in sel.order_by],
           "ORDER BY epoch ascending", key="populate_grid_time|order", why="np.diff and the closing instant assume increasing times")
    b = binding_of(ctx, gt, gs)
    grid_name = b.names[0] if b is not None and b.names else None
    # closing instant
    app = [c for c in ast.walk(gt.node) if isinstance(c, ast.Call) and isinstance(c.func, ast.Attribute) and c.func.attr == "append"
           and isinstance(c.func.value, ast.Name) and c.func.value.id == grid_name]
    step_name = None
    ok = False
    desc = "no closing instant appended"
    if len(app) == 1 and app[0].args:
        try:
            p = py_poly(app[0].args[0])
            atoms = sorted(p.atoms())
            last = "(%s)[(-1)]" % grid_name
            others = [a for a in atoms if a != last]
            if last in atoms and len(others) == 1 and p == Poly.atom(last) + Poly.atom(others[0]):
                step_name = others[0]
                ok = True
            desc = "appended %s" % p.key()
        except NotAlgebraic as exc:
            desc = str(exc)
    chk.ob("C10.O1", ok, where_of(gt, app[0] if app else gt.node), desc, "last grid time + step", key="populate_grid_time|closing-instant",
           why="the last rainfall step ends one step after the last rainfall timestamp")
    # step definition: the unique difference
    if step_name:
        probe = [n for n in ast.walk(app[0]) if isinstance(n, ast.Name) and n.id == step_name][0]
        sv = gflow.expand(probe, keep={grid_name})
        txt = ast.unparse(sv)
        ok = "diff(%s)" % grid_name in txt.replace("np.", "").replace("numpy.", "") and ("set(" in txt or "unique(" in txt or "min(" in txt)
        chk.ob("C10.O1", ok, where_of(gt, enclosing_stmt(probe)), "step = %s" % txt[:90], "the (unique) difference between consecutive grid times",
               key="populate_grid_time|step", why="the step defines the end of every rainfall and ET interval")
        # stored in time_grid
        for s in ctx.sites_in(gt):
            if s.stmt is not None and s.stmt.kind == "insert" and s.stmt.table == "time_grid":
                cols = s.stmt.columns
                pn = s.params_node
                okc = False
                if isinstance(pn, ast.Tuple) and len(pn.elts) == len(cols) and "time_step_s" in cols:
                    v = pn.elts[cols.index("time_step_s")]
                    okc = isinstance(v, ast.Name) and v.id == step_name
                chk.ob("C10.O1", okc, where_of(gt, s.call), "time_grid columns %s <- %s" % (cols, ast.unparse(pn) if pn is not None else "?"),
                       "time_step_s receives the grid step", key="populate_grid_time|stored-step")
        # the grid INSERT happens after the append and writes every element
        gi = [s for s in ctx.sites_in(gt) if s.stmt is not None and s.stmt.kind == "insert" and s.stmt.table == "grid_time"]
        if gi and app:
            n_app = gflow.cfg.node_containing(app[0])
            n_ins = gflow.cfg.node_containing(gi[0].call)
            src = ast.unparse(gi[0].params_node) if gi[0].params_node is not None else ""
            okg = n_app is not None and n_ins is not None and gflow.cfg.dominates(n_app, n_ins) and grid_name in src and " if " not in src
            chk.ob("C10.O1", okg, where_of(gt, gi[0].call), "grid_time rows from %s, after the closing instant was appended: %s" % (src[:60], okg),
                   "every grid instant including the closing one is stored", key="populate_grid_time|grid-insert")
    # return order and unpacking in load_data
    rets = [n for n in ast.walk(gt.node) if isinstance(n, ast.Return) and n.value is not None]
    rnames = [e.id if isinstance(e, ast.Name) else None for e in rets[0].value.elts] if rets and isinstance(rets[0].value, ast.Tuple) else []
    lflow = Flow.of(load)
    unpack = None
    for n in ast.walk(load.node):
        if isinstance(n, ast.Assign) and isinstance(n.value, ast.Call) and ctx.cg.resolve_callee(load, n.value.func) == [gt.fq] \
                and isinstance(n.targets[0], ast.Tuple):
            unpack = [e.id if isinstance(e, ast.Name) else None for e in n.targets[0].elts]
    role = {}
    if unpack and len(unpack) == len(rnames) == 2:
        for u, r in zip(unpack, rnames):
            role[u] = "grid" if r == grid_name else ("step" if r == step_name else None)
    if not unpack or not rnames or None in unpack or None in rnames or grid_name is None or step_name is None or not {grid_name, step_name} <= set(rnames):
        chk.indeterminate("C10.O1", where_of(load, load.node), "how load_data receives (grid, step) from populate_grid_time is not recognised: %s <- %s" % (unpack, rnames))
    else:
        chk.ob("C10.O1", sorted(v for v in role.values() if v) == ["grid", "step"], where_of(load, load.node),
               "load_data receives %s from populate_grid_time returning %s" % (unpack, rnames), "(grid, step) unpacked in the order returned",
               key="load_data|grid-step-unpack")

    # ------------------------------------------------------------ O2
    shapes = {}
    for fq, tab, staging, valcol in (("load.populate_rainfall_intensity", "rainfall_intensity", "rainfall_intensity_staging", "rainfall_intensity_mm_h"),
                                      ("load.populate_evapotranspiration", "evapotranspiration", "evapotranspiration_staging", "evapotranspiration_mm_h")):
        f = ctx.func(fq)
        ins = [s for s in ctx.sites_in(f) if s.stmt is not None and s.stmt.kind == "insert" and s.stmt.table == tab]
        if len(ins) != 1 or ins[0].stmt.select is None:
            chk.indeterminate("C10.O2", where_of(f, f.node), "INSERT INTO %s ... SELECT not found" % tab)
            continue
        s = ins[0]
        q = s.stmt.select
        alias = {x.alias: x.table for x in q.sources}
        cols = s.stmt.columns
        want_cols = ["from_epoch", "thru_epoch", valcol]
        sel_ok = cols == want_cols and len(q.columns) == 3
        c0, c1, c2 = [c[0] for c in q.columns] if len(q.columns) == 3 else (None, None, None)
        shape = {}
        if sel_ok:
            shape["from"] = c0[0] == "col" and c0[2] == "epoch" and alias.get(c0[1], staging) == staging
            shape["thru"] = c1[0] == "bin" and c1[1] == "+" and c1[2][0] == "col" and c1[2][2] == "epoch" and c1[3][0] == "param"
            shape["value"] = c2[0] == "col" and c2[2] == valcol
            thru_param = c1[3][1] if shape["thru"] else None
        # on-grid restriction: JOIN grid_time on the epoch, or epoch IN (SELECT epoch FROM grid_time)
        unknown = []
        restr = any(x.table == "grid_time" and (x.using == ["epoch"] or (x.on is not None and "epoch" in expr_str(x.on))) for x in q.sources)
        ub = None
        for pr in conjuncts(q.where):
            if pr[0] == "bin" and pr[1] in ("<=", "<", ">=", ">") and pr[2][0] == "col" and pr[2][2] == "epoch" and pr[3][0] == "param" and pr[1] in ("<=", "<"):
                ub = (pr[1], pr[3][1])
            elif pr[0] == "bin" and pr[1] in (">=", ">") and pr[3][0] == "col" and pr[3][2] == "epoch" and pr[2][0] == "param":
                ub = ({">=": "<=", ">": "<"}[pr[1]], pr[2][1])
            elif pr[0] in ("in", "inlist") and pr[1][0] == "col" and pr[1][2] == "epoch" and len(pr[2]) == 1 and pr[2][0][0] == "subq":
                q2 = pr[2][0][1]
                if len(q2.sources) == 1 and q2.sources[0].table == "grid_time" and len(q2.columns) == 1 and q2.columns[0][0][0] == "col" \
                        and q2.columns[0][0][2] == "epoch" and not q2.where:
                    restr = True
                else:
                    unknown.append(expr_str(pr))
            else:
                unknown.append(expr_str(pr))
        shape["join"] = restr and any(x.table == staging for x in q.sources)
        shape["bound"] = ub is not None and ub[0] == "<="
        # parameters
        par_ok = None
        pdesc = ast.unparse(s.params_node) if s.params_node is not None else "?"
        if sel_ok and shape.get("thru") and ub is not None:
            pt, pb = s.param(thru_param), s.param(ub[1])
            if pt is not None and pb is not None:
                # thru param is the step parameter of the function; bound is grid[-2]
                step_ok = isinstance(pt, ast.Name) and pt.id in f.params
                bnd_ok = isinstance(pb, ast.Subscript) and isinstance(pb.value, ast.Name) and pb.value.id in f.params \
                    and ast.unparse(pb.slice) == "-2"
                calls = [c for c in ast.walk(load.node) if isinstance(c, ast.Call) and ctx.cg.resolve_callee(load, c.func) == [f.fq]]
                role_ok = None
                if calls and step_ok and bnd_ok:
                    c = calls[0]
                    bind = {}
                    for i_, a in enumerate(c.args):
                        if i_ < len(f.params):
                            bind[f.params[i_]] = a
                    for k in c.keywords:
                        bind[k.arg] = k.value
                    a_step, a_grid = bind.get(pt.id), bind.get(pb.value.id)
                    if isinstance(a_step, ast.Name) and isinstance(a_grid, ast.Name) and sorted(v_ for v_ in role.values() if v_) == ["grid", "step"]:
                        # plain names, and which names hold the grid / the step is known: anything else is a wrong binding
                        role_ok = role.get(a_step.id) == "step" and role.get(a_grid.id) == "grid"
                def readable(e):
                    # a parameter of the function, or a constant-indexed element of one
                    if isinstance(e, ast.Name):
                        return e.id in f.params
                    return isinstance(e, ast.Subscript) and isinstance(e.value, ast.Name) and e.value.id in f.params and not isinstance(e.slice, ast.Slice) \
                        and isinstance(e.slice, (ast.Constant, ast.UnaryOp))
                if role_ok is not None:
                    par_ok = step_ok and bnd_ok and role_ok
                elif readable(pt) and readable(pb) and not (step_ok and bnd_ok):
                    par_ok = False
        def plain(e):
            # built from columns, parameters, + and - only
            return e is not None and (e[0] in ("col", "param", "num") or (e[0] == "bin" and e[1] in ("+", "-") and plain(e[2]) and plain(e[3])))
        if sel_ok and plain(c0) and plain(c1) and not (shape.get("from") and shape.get("thru")):
            chk.ob("C10.O2", False, where_of(f, s.call), "%s <- (%s, %s, ...)" % (tab, expr_str(c0), expr_str(c1)),
                   "each on-grid staging row up to the second-to-last grid time becomes the step [epoch, epoch + step)",
                   key="%s|copy" % f.qualname, why="values attached to another interval, or a row at the closing instant, misplace the series by one step")
            shapes[tab] = (tuple(sorted(shape.items())), False)
            continue
        if not sel_ok or par_ok is None or (unknown and not all(shape.values())):
            chk.indeterminate("C10.O2", where_of(f, s.call), "%s copy: select list / predicates %s / parameters %s not of a recognised form" % (tab, unknown, pdesc[:60]))
            continue
        allok = sel_ok and all(shape.values()) and par_ok
        chk.ob("C10.O2", allok, where_of(f, s.call),
               "%s <- (epoch, epoch + ?, value): %s; on-grid restriction: %s; epoch <= ?: %s; parameters %s bound to (step, grid[-2]): %s"
               % (tab, [shape.get("from"), shape.get("thru"), shape.get("value")], shape.get("join"), shape.get("bound"), pdesc, par_ok),
               "each on-grid staging row up to the second-to-last grid time becomes the step [epoch, epoch + step)",
               key="%s|copy" % f.qualname, why="values attached to another interval, or a row at the closing instant, misplace the series by one step")
        shapes[tab] = (tuple(sorted(shape.items())), par_ok)
    if len(shapes) == 2:
        a, b_ = list(shapes.values())
        chk.ob("C10.O2", a == b_, ("spowtd/load.py", "populate_rainfall_intensity", 0), "rainfall copy and ET copy have the same shape: %s" % (a == b_),
               "the two copies are isomorphic up to table and column names", key="load|copies-isomorphic",
               why="ET and rainfall must land on identical steps")

    # ------------------------------------------------------------ O3 row order
    n_pos = 0
    for name in ARRAY_MODULES:
        if name not in ctx.repo.modules:
            continue
        for q, f in sorted(ctx.repo.modules[name].functions.items()):
            for bd in bindings(ctx, f):
                if bd.kind not in ("columns", "rows"):
                    continue
                q_ = bd.site.stmt
                aggs_only = all(_is_agg(e) for e, _ in q_.columns)
                if aggs_only and not q_.group_by:
                    continue
                n_pos += 1
                ok = False
                how = "unordered"
                if q_.order_by:
                    e0 = q_.order_by[0][0]
                    ok = e0[0] == "col" or e0[0] == "bin"
                    how = "ORDER BY %s" % ", ".join("%s %s" % (expr_str(e), d) for e, d in q_.order_by)
                elif len(q_.sources) == 1 and q_.sources[0].subq is None and q_.where is None and not q_.group_by and not q_.distinct \
                        and ctx.schema.rowid_alias(q_.sources[0].table):
                    t = ctx.schema.tables[q_.sources[0].table]
                    ok = True
                    how = "bare scan of %s whose key `%s %s PRIMARY KEY` is a rowid alias" % (t.name, t.pk[0], t.col(t.pk[0]).type_text)
                elif len(q_.sources) == 1 and q_.sources[0].table == "sqlite_master":
                    continue
                chk.ob("C10.O3", ok, where_of(f, bd.site.call), "rows bound positionally to %s: %s" % ([n for n in bd.names if n], how),
                       "ordered by the key, or a bare scan of a rowid-alias table", key="%s|row-order|%s" % (f.qualname, ",".join(n or "_" for n in bd.names)),
                       why="with any other query shape insertion order leaks into positional array code (np.interp needs increasing xp)")
    chk.floor("SELECTs feeding positional code", n_pos, 12)

    # ------------------------------------------------------------ O4 interpolation
    wl = ctx.func("load.populate_water_level")
    wflow = Flow.of(wl)
    mod = wl.module
    gridp = wl.params[1]
    st_b = None
    for bd in bindings(ctx, wl):
        if {s.table for s in bd.site.stmt.sources} == {"water_level_staging"}:
            st_b = bd
    interp = [c for c in ast.walk(wl.node) if isinstance(c, ast.Call) and (full_call_name(mod, c) or "").endswith("numpy.interp")]
    if st_b is None or len(interp) != 1 or len(interp[0].args) < 3:
        chk.indeterminate("C10.O4", where_of(wl, wl.node), "staging query binding or np.interp call not found")
    else:
        colname = {}
        for i, nm in enumerate(st_b.names):
            e = st_b.site.stmt.columns[i][0]
            if nm and e[0] == "col":
                colname[nm] = e[2]
        ic = interp[0]
        x, xp, fp = ic.args[:3]

        def base_name(n):
            seen = 0
            while seen < 5:
                seen += 1
                if isinstance(n, ast.Name):
                    if n.id in colname or n.id == gridp:
                        return n.id
                    v = wflow.def_value(n)
                    if isinstance(v, ast.Call) and (full_call_name(mod, v) or "").split(".")[-1] in ("array", "asarray") and v.args:
                        n = v.args[0]
                        continue
                    return n.id
                if isinstance(n, ast.Call) and (full_call_name(mod, n) or "").split(".")[-1] in ("array", "asarray") and n.args:
                    n = n.args[0]
                    continue
                return None
            return None

        xs = None
        xcore = x
        if isinstance(x, ast.Subscript) and isinstance(x.slice, ast.Slice):
            xs = (ast.unparse(x.slice.lower) if x.slice.lower is not None else "", ast.unparse(x.slice.upper) if x.slice.upper is not None else "")
            xcore = x.value
        roles_ok = base_name(xcore) == gridp and colname.get(base_name(xp)) == "epoch" and colname.get(base_name(fp)) == "zeta_mm"
        chk.ob("C10.O4", roles_ok, where_of(wl, ic), "np.interp(x=%s, xp=%s, fp=%s)" % (ast.unparse(x), ast.unparse(xp), ast.unparse(fp)),
               "x = grid instants, xp = source epochs, fp = source levels", key="populate_water_level|interp-roles",
               why="swapped roles interpolate time as a function of level")
        # stored rows
        ins = [s for s in ctx.sites_in(wl) if s.stmt is not None and s.stmt.kind == "insert" and s.stmt.table == "water_level"]
        if len(ins) == 1 and isinstance(ins[0].params_node, ast.Call) and isinstance(ins[0].params_node.func, ast.Name) \
                and ins[0].params_node.func.id == "zip" and len(ins[0].params_node.args) == 2:
            cols = ins[0].stmt.columns
            a0, a1 = ins[0].params_node.args
            pe = a0 if cols == ["epoch", "zeta_mm"] else a1
            pv = a1 if cols == ["epoch", "zeta_mm"] else a0

            def strip(n):
                while isinstance(n, ast.Call) and isinstance(n.func, ast.Attribute) and n.func.attr == "tolist":
                    n = n.func.value
                return n
            pe, pv = strip(pe), strip(pv)
            ok = False
            desc = "epochs %s, values %s" % (ast.unparse(pe), ast.unparse(pv))
            if isinstance(pe, ast.Subscript) and isinstance(pv, ast.Subscript) and isinstance(pe.value, ast.Name) and isinstance(pv.value, ast.Name):
                vdef = wflow.def_value(pv.value)
                val_from_interp = vdef is ic
                e_grid = base_name(pe.value) == gridp
                m_e = pe.slice
                m_v = pv.slice
                mname = m_e.id if isinstance(m_e, ast.Name) else None
                if xs is None:
                    same_space = isinstance(m_v, ast.Name) and m_v.id == mname
                else:
                    same_space = isinstance(m_v, ast.Subscript) and isinstance(m_v.value, ast.Name) and m_v.value.id == mname \
                        and isinstance(m_v.slice, ast.Slice) and (
                            (ast.unparse(m_v.slice.lower) if m_v.slice.lower is not None else "", ast.unparse(m_v.slice.upper) if m_v.slice.upper is not None else "") == xs)
                ok = val_from_interp and e_grid and mname is not None and same_space and xs in (None, ("", "-1"))
            chk.ob("C10.O4", ok, where_of(wl, ins[0].call), desc + "; interpolated on grid%s" % ("[%s:%s]" % xs if xs else ""),
                   "stored epochs grid[mask] and stored values interp[mask restricted to the interpolated instants]: the same mask in the same index space",
                   key="populate_water_level|index-spaces", why="a mask shifted by one attaches every level to the neighbouring instant")
        else:
            chk.indeterminate("C10.O4", where_of(wl, wl.node), "INSERT INTO water_level with zip(epochs, values) not found")

        # ------------------------------------------------------------ O5
        closed = None
        for n in ast.walk(wl.node):
            if isinstance(n, ast.BinOp) and isinstance(n.op, ast.BitAnd):
                cmps = [x for x in (n.left, n.right) if isinstance(x, ast.Compare) and len(x.ops) == 1]
                if len(cmps) == 2:
                    ops = []
                    for c in cmps:
                        l, r, op = c.left, c.comparators[0], type(c.ops[0])
                        if base_name(r) == gridp and base_name(l) != gridp:
                            l, r = r, l
                            op = {ast.Lt: ast.Gt, ast.Gt: ast.Lt, ast.LtE: ast.GtE, ast.GtE: ast.LtE}.get(op, op)
                        if base_name(l) == gridp:
                            ops.append(op.__name__)
                    if len(ops) == 2:
                        closed = (sorted(ops), n)
        if closed is None:
            chk.indeterminate("C10.O5", where_of(wl, wl.node), "validity test of grid instants against (start, through) not found: the gap labelling has another shape")
        else:
          chk.ob("C10.O5", closed[0] == ["GtE", "LtE"], where_of(wl, closed[1]),
               "validity test: %s" % ast.unparse(closed[1]),
               "start <= t <= through: the samples bounding a gap are valid, instants strictly inside it are not",
               key="populate_water_level|validity-closed",
               why="a half-open test drops the last sample before a gap (or the first after it)")
        # labels
        lab_ok = False
        ldesc = "valid_intervals construction not found"
        for n in ast.walk(wl.node):
            if isinstance(n, ast.ListComp) and isinstance(n.elt, ast.Tuple) and len(n.elt.elts) == 3 and len(n.generators) == 1:
                g = n.generators[0]
                iv = g.target.id if isinstance(g.target, ast.Name) else None
                rng = g.iter
                e0, e1, e2 = n.elt.elts
                try:
                    step2 = isinstance(rng, ast.Call) and isinstance(rng.func, ast.Name) and rng.func.id == "range" and len(rng.args) == 3 \
                        and py_poly(rng.args[0]).const_or_none() == 0 and py_poly(rng.args[2]).const_or_none() == 2
                    pair = isinstance(e0, ast.Subscript) and isinstance(e1, ast.Subscript) and py_poly(e0.slice) == Poly.atom(iv) \
                        and py_poly(e1.slice) == Poly.atom(iv) + Poly.const(1) and ast.unparse(e0.value) == ast.unparse(e1.value)
                    label = ast.unparse(e2).replace(" ", "") in ("%s//2+1" % iv, "1+%s//2" % iv)
                    lab_ok = step2 and pair and label
                    ldesc = ast.unparse(n)[:110]
                except NotAlgebraic:
                    pass
        if ldesc == "valid_intervals construction not found":
            chk.indeterminate("C10.O5", where_of(wl, wl.node), "construction of the labelled validity intervals not found")
        else:
          chk.ob("C10.O5", lab_ok, where_of(wl, wl.node), "intervals = %s" % ldesc,
               "consecutive boundary pairs (b[i], b[i+1]) for i = 0, 2, 4, ... labelled i // 2 + 1",
               key="populate_water_level|labels", why="stretches separated by gaps must carry distinct labels starting from 1")
        # boundaries: [grid[0]] + pairs(zeta_t[gap], zeta_t[gap + 1]) + [grid[-1]]
        bnd_ok = False
        ends_wrong = False
        bdesc = "boundary list not found"
        for n in ast.walk(wl.node):
            if isinstance(n, ast.Assign) and isinstance(n.value, ast.BinOp) and isinstance(n.value.op, ast.Add):
                txt = ast.unparse(n.value).replace(" ", "")
                ends = _list_ends(n.value, gridp)
                if ends is not None and ends != (0, -1):
                    bdesc = ast.unparse(n.value)[:120]
                    bnd_ok = False
                    ends_wrong = True
                if ends == (0, -1):
                    bdesc = ast.unparse(n.value)[:120]
                    mid = n.value.left.right if isinstance(n.value.left, ast.BinOp) else None
                    mt = ast.unparse(mid).replace(" ", "") if mid is not None else ""
                    # zip(t[gap], t[gap+1])
                    import re
                    m = re.search(r"zip\((\w+)\[(\w+)\],(\w+)\[(\w+)\+1\]\)", mt)
                    bnd_ok = bool(m) and m.group(1) == m.group(3) and m.group(2) == m.group(4) and colname.get(base_name(ast.Name(id=m.group(1), ctx=ast.Load())), colname.get(m.group(1))) in ("epoch", None)
                    if m:
                        # gap index definition: nonzero(steps != steps.min())
                        gname = m.group(2)
                        for x in ast.walk(wl.node):
                            if isinstance(x, ast.Assign) and isinstance(x.targets[0], ast.Name) and x.targets[0].id == gname:
                                gt_ = ast.unparse(x.value).replace(" ", "")
                                gp_ok = False
                                for cmp_ in ast.walk(x.value):
                                    if isinstance(cmp_, ast.Compare) and len(cmp_.ops) == 1:
                                        try:
                                            from ..norm import py_compare
                                            opn, pn = py_compare(cmp_, callname=lambda c: "MIN" if isinstance(c.func, ast.Attribute) and c.func.attr == "min" else None)
                                            atoms_ = sorted(pn.atoms())
                                            # steps - MIN(steps) compared with 0 by != or >
                                            gp_ok = len(atoms_) == 2 and any(a_.startswith("MIN(") for a_ in atoms_) and \
                                                all(abs(pn.coeff_of_atom(a_).const_value()) == 1 for a_ in atoms_) and pn.without_atom(atoms_[0]).without_atom(atoms_[1]).is_zero() \
                                                and opn in ("!=", ">", "<")
                                        except Exception:
                                            gp_ok = False
                                bnd_ok = bnd_ok and "nonzero(" in gt_ and gp_ok
        if bdesc == "boundary list not found":
            chk.indeterminate("C10.O5", where_of(wl, wl.node), "boundary list of the validity intervals not found")
        else:
          chk.ob("C10.O5", bnd_ok, where_of(wl, wl.node), "boundaries = %s" % bdesc,
               "[first grid time] + (sample before each gap, sample after it)... + [last grid time], gaps = source steps larger than the smallest",
               key="populate_water_level|boundaries")
        # unlabelled instants: the sentinel written is the sentinel tested, and it is not a label (labels start at 1)
        sent_set = sent_test = None
        for n in ast.walk(wl.node):
            if isinstance(n, ast.Assign) and isinstance(n.targets[0], ast.Subscript) and isinstance(n.targets[0].slice, ast.Slice) \
                    and n.targets[0].slice.lower is None and n.targets[0].slice.upper is None:
                try:
                    sent_set = (n.targets[0].value.id if isinstance(n.targets[0].value, ast.Name) else None, py_poly(n.value).const_or_none(), n)
                except Exception:
                    pass
            if isinstance(n, ast.Assign) and isinstance(n.value, ast.Compare) and len(n.value.ops) == 1 and isinstance(n.value.ops[0], (ast.NotEq, ast.Gt, ast.GtE)):
                try:
                    sent_test = (n.value.left.id if isinstance(n.value.left, ast.Name) else None, type(n.value.ops[0]).__name__,
                                 py_poly(n.value.comparators[0]).const_or_none(), n)
                except Exception:
                    pass
        if sent_set is not None and sent_test is not None and sent_set[0] == sent_test[0] and (sent_set[1] is None or sent_test[2] is None):
            chk.indeterminate("C10.O5", where_of(wl, sent_test[3]), "sentinel of unlabelled instants is not a literal")
        elif sent_set is not None and sent_test is not None and sent_set[0] == sent_test[0]:
            sv_, tv_ = sent_set[1], sent_test[2]
            opn = sent_test[1]
            oks = (opn == "NotEq" and sv_ == tv_ and sv_ < 1) or (opn == "Gt" and sv_ <= tv_ < 1) or (opn == "GtE" and sv_ < tv_ <= 1)
            chk.ob("C10.O5", oks, where_of(wl, sent_test[3]), "unlabelled instants carry %s; kept when label %s %s" % (sv_, {"NotEq": "!=", "Gt": ">", "GtE": ">="}[opn], tv_),
                   "the sentinel written is the one tested, and it is not a label", key="populate_water_level|sentinel",
                   why="with another sentinel every instant inside a gap passes the test and gets an interpolated water level")
        # UPDATE binding order
        up = [s for s in ctx.sites_in(wl) if s.stmt is not None and s.stmt.kind == "update" and s.stmt.table == "grid_time"]
        if len(up) == 1 and isinstance(up[0].params_node, ast.Call) and len(up[0].params_node.args) == 2:
            st = up[0].stmt
            set_param = st.sets[0][1][1] if st.sets and st.sets[0][1][0] == "param" else None
            where_param = None
            for pr in conjuncts(st.where):
                if pr[0] == "bin" and pr[1] == "=" and pr[2][0] == "col" and pr[2][2] == "epoch" and pr[3][0] == "param":
                    where_param = pr[3][1]
            a = [strip(x) for x in up[0].params_node.args]
            ok = set_param is not None and where_param is not None
            if ok:
                lab_arg, ep_arg = a[set_param], a[where_param]
                ok = isinstance(ep_arg, ast.Subscript) and base_name(ep_arg.value) == gridp and isinstance(lab_arg, ast.Subscript) \
                    and base_name(lab_arg.value) != gridp and ast.unparse(ep_arg.slice) == ast.unparse(lab_arg.slice)
            chk.ob("C10.O5", ok, where_of(wl, up[0].call), "UPDATE grid_time SET data_interval=?%s WHERE epoch=?%s <- %s" % (set_param, where_param, ast.unparse(up[0].params_node)[:90]),
                   "(label, epoch) of the same masked instants bound to (SET, WHERE)", key="populate_water_level|label-update")


def _is_agg(e):
    return e[0] == "call" and e[1] in ("MIN", "MAX", "COUNT", "AVG", "SUM", "TOTAL") or \
        (e[0] == "bin" and any(x[0] == "call" and x[1] in ("MIN", "MAX", "COUNT", "AVG", "SUM", "TOTAL") for x in walk_expr(e))) or \
        e[0] == "exists" or (e[0] == "cast" and _is_agg(e[1]))
