"""C10 -- loaded series reproduce the source data on one uniform time grid.

 O1 grid bounds: rainfall epochs with min <= epoch <= max of the
    water-level staging epochs, ordered; closing instant = last + step;
    the stored step is the grid's step
 O2 the rainfall and ET copies are isomorphic: (epoch, epoch + step,
    value) for on-grid staging rows with epoch <= second-to-last grid time
 O3 row order: every SELECT feeding positional array code is ordered by
    its key, or is a bare scan of a rowid-alias table
 O4 interpolation roles and index spaces
 O5 gaps: validity intervals closed at both ends, labels i // 2 + 1,
    (label, epoch) bound to (SET, WHERE) in that order
"""

import ast

from ..flow import Flow
from ..norm import NotAlgebraic, Poly, py_poly, sql_poly
from ..report import where_of
from ..source import dotted_name, enclosing_func, enclosing_stmt
from ..sqlbind import binding_of, bindings
from ..sqlmodel import conjuncts, expr_str, walk_expr
from .c12 import full_call_name

ARRAY_MODULES = ["load", "classify", "rise", "recession", "zeta_grid", "simulate_rise", "simulate_recession", "pestfiles"]



def _end_index(sub, grid):
    """Index of `grid[...]` counted from the front (>= 0) or from the back
    (< 0): constants, and len(grid) - k."""
    if not (isinstance(sub, ast.Subscript) and ast.unparse(sub.value).replace(" ", "") == grid):
        return None
    try:
        p = py_poly(sub.slice, callname=lambda c: "LEN" if isinstance(c.func, ast.Name) and c.func.id == "len"
                    and len(c.args) == 1 and ast.unparse(c.args[0]).replace(" ", "") == grid else None)
    except Exception:
        return None
    c = p.const_or_none()
    if c is not None:
        return int(c) if c == int(c) else None
    ats = sorted(p.atoms())
    if len(ats) == 1 and ats[0].startswith("LEN(") and p.coeff_of_atom(ats[0]).const_value() == 1:
        k = p.without_atom(ats[0]).const_or_none()
        if k is not None and k == int(k) and k < 0:
            return int(k)
    return None


def _list_ends(expr, grid):
    """(first index, last index) of `[grid[i]] + ... + [grid[j]]`, else None."""
    first = expr
    while isinstance(first, ast.BinOp) and isinstance(first.op, ast.Add):
        first = first.left
    last = expr.right if isinstance(expr, ast.BinOp) else None
    if not (isinstance(first, ast.List) and len(first.elts) == 1 and isinstance(last, ast.List) and len(last.elts) == 1):
        return None
    i, j = _end_index(first.elts[0], grid), _end_index(last.elts[0], grid)
    if i is None or j is None:
        return None
    return (i, j)


def _step_is_consecutive_difference(e, grid):
    """True: an element / the minimum / the only distinct value of np.diff(grid), or grid[k+1] - grid[k];
    False: grid[a] - grid[b] of non-neighbours; None: not read."""
    for _h in range(4):
        if isinstance(e, ast.Call) and isinstance(e.func, (ast.Name, ast.Attribute)) and \
                (e.func.id if isinstance(e.func, ast.Name) else e.func.attr) in ("int", "float", "int64", "float64", "asarray", "array", "item") and (e.args or isinstance(e.func, ast.Attribute)):
            e = e.args[0] if e.args else e.func.value
        else:
            break

    def is_diff_seq(x, depth=0):
        """np.diff(grid), possibly under sorted / set / list / tuple / np.unique / np.array"""
        if depth > 5:
            return False
        if isinstance(x, ast.Call):
            fn = x.func.id if isinstance(x.func, ast.Name) else (x.func.attr if isinstance(x.func, ast.Attribute) else "")
            if fn == "diff" and x.args and isinstance(x.args[0], ast.Name) and x.args[0].id == grid:
                return True
            if fn in ("sorted", "set", "list", "tuple", "unique", "array", "asarray", "frozenset") and x.args:
                return is_diff_seq(x.args[0], depth + 1)
        return False

    if isinstance(e, ast.Subscript) and not isinstance(e.slice, ast.Slice) and is_diff_seq(e.value):
        return True
    if isinstance(e, ast.Call):
        fn = e.func.id if isinstance(e.func, ast.Name) else (e.func.attr if isinstance(e.func, ast.Attribute) else "")
        if fn in ("min", "max", "amin", "amax"):
            if e.args and is_diff_seq(e.args[0]):
                return True
            if not e.args and isinstance(e.func, ast.Attribute) and is_diff_seq(e.func.value):
                return True
        if fn == "pop" and isinstance(e.func, ast.Attribute) and is_diff_seq(e.func.value):
            return True
    if isinstance(e, ast.BinOp) and isinstance(e.op, ast.Sub):
        def idx(x):
            if isinstance(x, ast.Subscript) and isinstance(x.value, ast.Name) and x.value.id == grid:
                try:
                    c = py_poly(x.slice).const_or_none()
                except NotAlgebraic:
                    return None
                return int(c) if c is not None and c == int(c) else None
            return None
        a, b = idx(e.left), idx(e.right)
        if a is not None and b is not None and (a >= 0) == (b >= 0):
            return a - b == 1
    return None


def _validity_intervals(ctx, chk, wl, wflow, mod, gridp, closed, base_name, colname):
    """starts = [first grid instant] ++ [sample after each gap]; ends = [sample before each gap] ++ [last grid
    instant]; the k-th pair is labelled k (from 1); a gap is a source step larger than the smallest."""
    from ..loops import binding
    from ..seqsym import SeqEnv, seq_of, show
    where = where_of(wl, closed[1] if closed else wl.node)
    if closed is None:
        return
    gap_arrays = {}

    def gap_is(name):
        if name in gap_arrays:
            return gap_arrays[name] is not None
        gap_arrays[name] = None
        for x in ast.walk(wl.node):
            if isinstance(x, ast.Assign) and len(x.targets) == 1 and isinstance(x.targets[0], ast.Name) and x.targets[0].id == name:
                txt = ast.unparse(wflow.expand(x.value))
                if any(k in txt for k in ("nonzero(", "flatnonzero(", "argwhere(", "where(")) and any(isinstance(c, ast.Compare) for c in ast.walk(wflow.expand(x.value))):
                    gap_arrays[name] = x
        return gap_arrays[name] is not None

    def tarr_is(name):
        probe = next((x for x in ast.walk(wl.node) if isinstance(x, ast.Name) and x.id == name and isinstance(x.ctx, ast.Load)), None)
        return colname.get(base_name(probe if probe is not None else ast.Name(id=name, ctx=ast.Load()))) == "epoch"

    env = SeqEnv(wflow, gridp, tarr_is, gap_is)
    # start / through variables of the closed test, and the label stored under the mask
    names = {}
    for c in (closed[1].left, closed[1].right):
        l, r, op = c.left, c.comparators[0], type(c.ops[0])
        if base_name(r) == gridp and base_name(l) != gridp:
            l, r = r, l
            op = {ast.Lt: ast.Gt, ast.Gt: ast.Lt, ast.LtE: ast.GtE, ast.GtE: ast.LtE}.get(op, op)
        if isinstance(r, ast.Name):
            names["start" if op in (ast.GtE, ast.Gt) else "thru"] = r
    st = enclosing_stmt(closed[1])
    label = None
    if isinstance(st, ast.Assign) and isinstance(st.targets[0], ast.Subscript):
        label = st.value
    else:
        # mask = (...) ; labels[mask] = k
        if isinstance(st, ast.Assign) and isinstance(st.targets[0], ast.Name):
            mname = st.targets[0].id
            for x in ast.walk(wl.node):
                if isinstance(x, ast.Assign) and isinstance(x.targets[0], ast.Subscript) and isinstance(x.targets[0].slice, ast.Name) and x.targets[0].slice.id == mname:
                    label = x.value
    if set(names) != {"start", "thru"} or label is None:
        chk.indeterminate("C10.O5", where, "start / through / label of the validity test not identified")
        return

    def seq_for(name_node):
        b = binding(name_node)
        if b is None or b.kind != "elem":
            return None
        if b.path == ():
            return seq_of(env, b.container)
        cont = b.container
        dv = wflow.def_value(cont) if isinstance(cont, ast.Name) else cont
        while isinstance(dv, ast.Call) and isinstance(dv.func, ast.Name) and dv.func.id in ("list", "tuple") and len(dv.args) == 1:
            dv = dv.args[0]
        if len(b.path) == 1 and isinstance(dv, ast.Call) and isinstance(dv.func, ast.Name) and dv.func.id == "zip" and b.path[0] < len(dv.args):
            return seq_of(env, dv.args[b.path[0]])
        if len(b.path) == 1 and isinstance(dv, ast.ListComp) and isinstance(dv.elt, ast.Tuple) and b.path[0] < len(dv.elt.elts) and len(dv.generators) == 1:
            g = dv.generators[0]
            e = dv.elt.elts[b.path[0]]
            rng = g.iter
            try:
                if isinstance(g.target, ast.Name) and isinstance(rng, ast.Call) and isinstance(rng.func, ast.Name) and rng.func.id == "range" and len(rng.args) == 3 \
                        and isinstance(e, ast.Subscript) and isinstance(e.value, ast.Name):
                    r0, r2 = py_poly(rng.args[0]).const_or_none(), py_poly(rng.args[2]).const_or_none()
                    off = (py_poly(e.slice) - Poly.atom(g.target.id)).const_or_none()
                    if r0 is not None and r2 is not None and off is not None and ast.unparse(rng.args[1]).replace(" ", "") == "len(%s)" % e.value.id:
                        if r0 == 0 and r2 == 2 and off in (0, 1):
                            from ..seqsym import stride2
                            base = seq_of(env, e.value)
                            return stride2(base, int(off)) if base is not None else None
                        # readable, and not "every second element from 0 / from 1"
                        return [("one", "%s[%s] for %s in range(%s, len, %s)" % (e.value.id, ast.unparse(e.slice), g.target.id, r0, r2))]
            except NotAlgebraic:
                return None
        return None

    starts, ends = seq_for(names["start"]), seq_for(names["thru"])
    # labels: first label and step
    first_label = None
    if isinstance(label, ast.Name):
        lb = binding(label)
        if lb is not None and lb.kind == "counter" and lb.loop is (binding(names["start"]).loop if binding(names["start"]) else None):
            first_label = lb.start
        elif lb is not None and lb.kind == "elem" and len(lb.path) == 1:
            cont = lb.container
            dv = wflow.def_value(cont) if isinstance(cont, ast.Name) else cont
            if isinstance(dv, ast.ListComp) and isinstance(dv.elt, ast.Tuple) and lb.path[0] < len(dv.elt.elts) and len(dv.generators) == 1 \
                    and isinstance(dv.generators[0].target, ast.Name):
                iv = dv.generators[0].target.id
                txt = ast.unparse(dv.elt.elts[lb.path[0]]).replace(" ", "")
                try:
                    lp_ = py_poly(dv.elt.elts[lb.path[0]], callname=lambda c: None)
                except NotAlgebraic:
                    lp_ = None
                if txt in ("%s//2+1" % iv, "1+%s//2" % iv):
                    first_label = 1
                elif isinstance(dv.elt.elts[lb.path[0]], ast.BinOp) and "//" in txt and iv in txt and any(ch.isdigit() for ch in txt):
                    # some other arithmetic on the pair index: readable, and not k
                    first_label = "%s for pair index %s = 0, 2, 4, ..." % (txt, iv)
                elif txt == "%s//2" % iv:
                    first_label = 0
                elif isinstance(dv.elt.elts[lb.path[0]], ast.Constant):
                    first_label = "the constant %r for every interval" % dv.elt.elts[lb.path[0]].value
    if starts is None or ends is None:
        # a construct that is readable and wrong: the boundaries passed through a value-changing function
        VALUE_CHANGING = ("clip", "maximum", "minimum", "fmax", "fmin", "round", "around", "rint", "floor", "ceil", "trunc")
        def _vc(c):
            return isinstance(c, ast.Call) and ((isinstance(c.func, ast.Attribute) and c.func.attr in VALUE_CHANGING)
                                                or (isinstance(c.func, ast.Name) and c.func.id in ("min", "max", "round")))
        for nm in ("start", "thru"):
            b_ = binding(names[nm])
            cont = b_.container if b_ is not None and getattr(b_, "container", None) is not None else None
            frontier = [cont] if cont is not None else []
            seen_n = set()
            hit = None
            for _depth in range(3):
                nxt = []
                for e in frontier:
                    dv = wflow.def_value(e) if isinstance(e, ast.Name) else e
                    if dv is None:
                        continue
                    for c in ast.walk(dv):
                        if _vc(c) and hit is None:
                            hit = c
                    for x in ast.walk(dv):
                        if isinstance(x, ast.Name) and isinstance(x.ctx, ast.Load) and x.id not in seen_n:
                            seen_n.add(x.id)
                            nxt.append(x)
                frontier = nxt
            cur = hit
            if cur is not None:
                chk.ob("C10.O5", False, where_of(wl, cur), "the boundaries of the validity intervals are passed through %s" % ast.unparse(cur)[:80],
                       "each validity interval runs from the first to the last measurement of a gap-free stretch (the source instants themselves), the first from the first grid time and the last to the last grid time",
                       key="populate_water_level|boundaries-changed", local=True,
                       why="a gap edge that lies outside the grid is moved onto the first / last grid time: the closed interval test then labels that grid instant, which lies strictly inside a gap of the source record, and a value is interpolated there")
                return
        chk.indeterminate("C10.O5", where, "the start / end sequences of the validity intervals are not built in a way this rule reads (starts = %s, ends = %s)" % (show(starts), show(ends)))
        return
    want_s = [("one", "G[0]"), ("per", ["T[g+1]"])]
    want_e = [("per", ["T[g]"]), ("one", "G[-1]")]
    chk.ob("C10.O5", starts == want_s and ends == want_e, where,
           "interval starts = %s ; ends = %s" % (show(starts), show(ends)),
           "starts = [G[0]] ++ [T[g+1] for each gap] ; ends = [T[g] for each gap] ++ [G[-1]]  (G = grid, T = source times, g = last sample before a gap)",
           key="populate_water_level|boundaries", why="a stretch runs from the first sample after one gap to the last sample before the next")
    if first_label is None:
        chk.indeterminate("C10.O5", where, "how the validity intervals are numbered (%s) is not recognised" % ast.unparse(label)[:40])
    else:
        chk.ob("C10.O5", first_label == 1, where, "the k-th interval is labelled %s" % (
            "k" if first_label == 1 else ("k%+d" % (first_label - 1) if isinstance(first_label, int) else first_label)),
               "labels 1, 2, 3, ... in order", key="populate_water_level|labels", why="stretches separated by gaps must carry distinct labels starting from 1")
    # the gap index array: source steps that differ from (exceed) the smallest step
    used = [n for n, d in gap_arrays.items() if d is not None]
    for gname in used:
        x = gap_arrays[gname]
        gp_ok = None
        for cmp_ in ast.walk(wflow.expand(x.value)):
            if isinstance(cmp_, ast.Compare) and len(cmp_.ops) == 1:
                try:
                    from ..norm import py_compare
                    opn, pn = py_compare(cmp_, callname=lambda c: "MIN" if (isinstance(c.func, ast.Attribute) and c.func.attr in ("min", "amin")) else None)
                    atoms_ = sorted(pn.atoms())
                    gp_ok = len(atoms_) == 2 and any(a_.startswith("MIN(") for a_ in atoms_) and \
                        all(abs(pn.coeff_of_atom(a_).const_value()) == 1 for a_ in atoms_) and pn.without_atom(atoms_[0]).without_atom(atoms_[1]).is_zero() \
                        and opn in ("!=", ">", "<")
                except Exception:
                    gp_ok = None
        if gp_ok is None:
            chk.indeterminate("C10.O5", where_of(wl, x), "gap predicate %s not of the form steps {!=, >} min(steps)" % ast.unparse(x.value)[:80])
        else:
            chk.ob("C10.O5", gp_ok, where_of(wl, x), "gaps = %s" % ast.unparse(x.value)[:100], "source steps larger than the smallest step",
                   key="populate_water_level|gap-predicate", why="a single missing reading is a gap; a predicate that tolerates it interpolates across it")

def _positional_pairing(ctx, chk, f, site, tab, staging, valcol):
    """INSERT INTO <tab> VALUES (?, ?, ?) fed by zip(grid[:-1], grid[1:], VALUES) with VALUES read from the staging table:
    the k-th value lands on the k-th grid step.  That is the value *of* that step only if the query returns exactly one row
    per grid instant -- a join with grid_time / epoch IN (SELECT epoch FROM grid_time).  A range (BETWEEN first AND last)
    also returns the rows that lie between grid instants.  Returns True when a verdict (either way) was given."""
    flow = Flow.of(f)
    z = site.params_node
    if not (isinstance(z, ast.Call) and isinstance(z.func, ast.Name) and z.func.id == "zip" and len(z.args) == 3):
        return False
    vals = z.args[2]
    # the query the value list comes from: a SELECT site of this function on the staging table
    sels = [s for s in ctx.sites_in(f) if s.stmt is not None and s.stmt.kind == "select" and any(x.table == staging for x in s.stmt.sources)
            and any(c[0][0] == "col" and c[0][2] == valcol for c in s.stmt.columns)]
    vex = flow.expand(vals, keep=set(f.params)) if not isinstance(vals, ast.Name) else (flow.def_value(vals) or vals)
    from_cursor = any(isinstance(c, ast.Call) and isinstance(c.func, ast.Attribute) and c.func.attr in ("fetchall", "execute", "fetchmany") for c in ast.walk(vex)) \
        or any(isinstance(n, ast.Name) and n.id == "cursor" for n in ast.walk(vex))
    if len(sels) != 1 or not from_cursor:
        return False
    q = sels[0].stmt
    restricted = any(x.table == "grid_time" for x in q.sources) or "grid_time" in (expr_str(q.where) if q.where is not None else "")
    if restricted:
        chk.indeterminate("C10.O2", where_of(f, site.call), "%s rows are built in Python from a query restricted to the grid instants and paired with the grid by position; the pairing is not read" % tab)
        return True
    chk.ob("C10.O2", False, where_of(f, sels[0].call), "%s values are paired with the grid steps by position (zip), but the query that supplies them returns every %s row %s"
           % (tab, staging, ("with " + expr_str(q.where)[:60]) if q.where is not None else "(no WHERE)"),
           "the value stored for a step is the source value stamped with that step's start: joined on the epoch, or selected for the grid instants only",
           key="%s|positional-pairing" % f.qualname,
           why="a source with rows between grid instants (ET every 10 min, rain every 30 min) passes the coverage check; by position the step k then receives the k-th row of the range, not the row of its own instant, and zip drops the surplus silently")
    return True


def run(ctx, chk, tier="quick"):
    chk.explanation = (
        "SQL ASTs of the grid query and of the two INSERT ... SELECT copies with their parameter "
        "bindings; the closing instant; a row-order rule over every SELECT bound to positional Python "
        "code (ORDER BY key, or the rowid-alias lemma checked on the schema's declared type text); "
        "argument lineage of np.interp and agreement of the index spaces of the stored epochs and "
        "values; closedness of the validity intervals and their labels."
    )
    chk.assumptions = ["numpy.interp is the bracketing linear interpolation for increasing xp",
                       "SQLite scans a table whose key is an INTEGER PRIMARY KEY (rowid alias) in key order when the query is a bare single-table SELECT"]
    from ..sqlrules import conflict_clauses, lossy_functions
    conflict_clauses(ctx, chk, "C10.O2", ("load",), "load", "rows of the source files with the same timestamp overwrite each other: the loaded series no longer reproduce the source data")
    lossy_functions(ctx, chk, "C10.O3", ("load",), "load", "a rounded or otherwise altered value is not the source value")
    # every grid step gets an ET value: the refusal of a grid instant without ET runs on every path (shared with C11.O4)
    from .c11 import _missing_et
    _missing_et(ctx, chk, ctx.func("load.load_data"), rule="C10.O2")
    # the grid instants and the rainfall / ET steps are the converted timestamps of the files: the per-row conversion obligation
    # of C11.O1 is a necessary condition here too (shared: only the obligation that says every row is localized on its own)
    try:
        from ..report import Check as _Check, VIOLATION as _V
        from . import c11 as _c11
        _sub = _Check("C11", "quick")
        _sub.ctx = getattr(chk, "ctx", None)
        _c11.run(ctx, _sub, "quick")
        for _o in _sub.obs:
            if (_o.key or "").endswith("|localize-per-row") and _o.verdict == _V:
                chk.ob("C10.O1", False, (_o.file, _o.function, _o.line), _o.found, _o.required, key=_o.key, local=True,
                       why="rows converted with the offset of another instant land on other grid instants than the water level's: grid timestamps and the rainfall / ET value of a step no longer reproduce the source files")
    except Exception:       # the shared obligation is C11's; if its analysis cannot run here, C10 decides nothing about it
        pass
    from .. import sqltypes
    sqltypes.check(ctx, chk, "C10.O2", modules=("load",))
    load = ctx.func("load.load_data")
    # ------------------------------------------------------------ O1
    gt = ctx.func("load.populate_grid_time")
    gflow = Flow.of(gt)
    sel_sites = [s for s in ctx.sites_in(gt) if s.stmt is not None and s.stmt.kind == "select"]
    if len(sel_sites) != 1:
        chk.indeterminate("C10.O1", where_of(gt, gt.node), "expected one SELECT in populate_grid_time")
        return
    gs = sel_sites[0]
    sel = gs.stmt
    cte = {n: c for n, c in sel.ctes}
    alias_expr = {}
    for n, c in cte.items():
        for e, al in c.columns:
            if al and e[0] == "call" and e[1] in ("MIN", "MAX") and e[2] and e[2][0][0] == "col":
                alias_expr[al] = (e[1], e[2][0][2], [s.table for s in c.sources])
    preds = []
    for s in sel.sources:
        preds += conjuncts(s.on)
    preds += conjuncts(sel.where)
    lower = upper = None
    src_tab = [s.table for s in sel.sources if s.table not in cte]
    def extreme(e):
        """(MIN|MAX, column, [tables]) if e is a CTE alias of, or a scalar sub-query for, an extreme of one column"""
        if e[0] == "col" and e[2] in alias_expr:
            return alias_expr[e[2]]
        if e[0] == "subq":
            q_ = e[1]
            if len(q_.columns) == 1 and not q_.where and not q_.group_by and all(s_.subq is None and s_.on is None for s_ in q_.sources):
                c_ = q_.columns[0][0]
                if c_[0] == "call" and c_[1] in ("MIN", "MAX") and c_[2] and c_[2][0][0] == "col":
                    return (c_[1], c_[2][0][2], [s_.table for s_ in q_.sources])
        return None

    bounds = []
    for pr in preds:
        if pr[0] == "bin" and pr[1] in (">=", ">", "<=", "<"):
            l, r, op = pr[2], pr[3], pr[1]
            if extreme(l) is not None:
                l, r = r, l
                op = {"<": ">", ">": "<", "<=": ">=", ">=": "<="}[op]
            if extreme(r) is not None and l[0] == "col" and l[2] == "epoch":
                fn, col, tabs = extreme(r)
                bounds.append((op, fn, col, tabs))
                if fn == "MIN":
                    lower = (op, col, tabs)
                else:
                    upper = (op, col, tabs)
    if len(bounds) == 2 and (lower is None or upper is None):
        # two bounds against extremes of a column, but not one smallest and one largest: readable, and wrong
        chk.ob("C10.O1", False, where_of(gt, gs.call), "grid bounds: %s" % ["epoch %s %s(%s)" % (b_[0], b_[1], b_[2]) for b_ in bounds],
               "rainfall epochs with min(water-level epoch) <= epoch <= max(water-level epoch), both inclusive",
               key="populate_grid_time|bounds", why="an exclusive bound drops the first or last instant that has a water level")
        return
    if lower is None or upper is None:
        chk.indeterminate("C10.O1", where_of(gt, gs.call), "bounds of the grid query (epoch against the smallest / largest water-level epoch) not recognised")
        return
    ok = lower == (">=", "epoch", ["water_level_staging"]) and upper == ("<=", "epoch", ["water_level_staging"]) \
        and src_tab == ["rainfall_intensity_staging"]
    chk.ob("C10.O1", ok, where_of(gt, gs.call), "grid = epochs of %s with epoch %s min(%s) and epoch %s max(%s)" % (
        src_tab, lower[0] if lower else "?", lower[2] if lower else "?", upper[0] if upper else "?", upper[2] if upper else "?"),
        "rainfall epochs with min(water-level epoch) <= epoch <= max(water-level epoch), both inclusive",
        key="populate_grid_time|bounds", why="an exclusive bound drops the first or last instant that has a water level")
    ordered = bool(sel.order_by) and sel.order_by[0][0][0] == "col" and sel.order_by[0][0][2] == "epoch" and sel.order_by[0][1] == "ASC"
    chk.ob("C10.O1", ordered, where_of(gt, gs.call), "grid query ORDER BY %s" % [(expr_str(e), d) for e, d in sel.order_by],
           "ORDER BY epoch ascending", key="populate_grid_time|order", why="np.diff and the closing instant assume increasing times")
    b = binding_of(ctx, gt, gs)
    grid_name = b.names[0] if b is not None and b.names else None
    # closing instant
    app = [c for c in ast.walk(gt.node) if isinstance(c, ast.Call) and isinstance(c.func, ast.Attribute) and c.func.attr == "append"
           and isinstance(c.func.value, ast.Name) and c.func.value.id == grid_name]
    step_name = None
    ok = False
    desc = "no closing instant appended"
    if len(app) == 1 and app[0].args:
        try:
            p = py_poly(app[0].args[0])
            atoms = sorted(p.atoms())
            last = "(%s)[(-1)]" % grid_name
            others = [a for a in atoms if a != last]
            if last in atoms and len(others) == 1 and p == Poly.atom(last) + Poly.atom(others[0]):
                step_name = others[0]
                ok = True
            desc = "appended %s" % p.key()
        except NotAlgebraic as exc:
            desc = str(exc)
    chk.ob("C10.O1", ok, where_of(gt, app[0] if app else gt.node), desc, "last grid time + step", key="populate_grid_time|closing-instant",
           why="the last rainfall step ends one step after the last rainfall timestamp")
    # step definition: the unique difference
    if step_name:
        probe = [n for n in ast.walk(app[0]) if isinstance(n, ast.Name) and n.id == step_name][0]
        sv = gflow.expand(probe, keep={grid_name})
        txt = ast.unparse(sv)
        verdict = _step_is_consecutive_difference(sv, grid_name)
        if verdict is None:
            chk.indeterminate("C10.O1", where_of(gt, enclosing_stmt(probe)), "how the step (%s) is taken from the grid times is not read" % txt[:80])
        else:
            chk.ob("C10.O1", verdict, where_of(gt, enclosing_stmt(probe)), "step = %s" % txt[:90],
                   "a difference between consecutive grid times (that all of them are equal is the uniformity guard's obligation, C11.O4)",
                   key="populate_grid_time|step", why="the step defines the end of every rainfall and ET interval")
        # stored in time_grid
        for s in ctx.sites_in(gt):
            if s.stmt is not None and s.stmt.kind == "insert" and s.stmt.table == "time_grid":
                cols = s.stmt.columns
                pn = s.params_node
                v = s.column_values(gflow).get("time_step_s")
                if v is None:
                    chk.indeterminate("C10.O1", where_of(gt, s.call), "the value stored in time_grid.time_step_s is not a bound parameter")
                else:
                    vx = gflow.expand(v, keep={step_name} if step_name else set())
                    okc = isinstance(vx, ast.Name) and vx.id == step_name
                    chk.ob("C10.O1", okc, where_of(gt, s.call), "time_grid columns %s <- %s" % (cols, ast.unparse(pn) if pn is not None else "?"),
                           "time_step_s receives the grid step", key="populate_grid_time|stored-step")
        # the grid INSERT happens after the append and writes every element
        gi = [s for s in ctx.sites_in(gt) if s.stmt is not None and s.stmt.kind == "insert" and s.stmt.table == "grid_time"]
        if gi and app:
            n_app = gflow.cfg.node_containing(app[0])
            n_ins = gflow.cfg.node_containing(gi[0].call)
            src = ast.unparse(gi[0].params_node) if gi[0].params_node is not None else ""
            okg = n_app is not None and n_ins is not None and gflow.cfg.dominates(n_app, n_ins) and grid_name in src and " if " not in src
            chk.ob("C10.O1", okg, where_of(gt, gi[0].call), "grid_time rows from %s, after the closing instant was appended: %s" % (src[:60], okg),
                   "every grid instant including the closing one is stored", key="populate_grid_time|grid-insert")
    # return order and unpacking in load_data
    rets = [n for n in ast.walk(gt.node) if isinstance(n, ast.Return) and n.value is not None]
    rnames = [e.id if isinstance(e, ast.Name) else None for e in rets[0].value.elts] if rets and isinstance(rets[0].value, ast.Tuple) else []
    lflow = Flow.of(load)
    unpack = None
    for n in ast.walk(load.node):
        if isinstance(n, ast.Assign) and isinstance(n.value, ast.Call) and ctx.cg.resolve_callee(load, n.value.func) == [gt.fq] \
                and isinstance(n.targets[0], ast.Tuple):
            unpack = [e.id if isinstance(e, ast.Name) else None for e in n.targets[0].elts]
    role = {}
    if unpack and len(unpack) == len(rnames) == 2:
        for u, r in zip(unpack, rnames):
            role[u] = "grid" if r == grid_name else ("step" if r == step_name else None)
    if not unpack or not rnames or None in unpack or None in rnames or grid_name is None or step_name is None or not {grid_name, step_name} <= set(rnames):
        chk.indeterminate("C10.O1", where_of(load, load.node), "how load_data receives (grid, step) from populate_grid_time is not recognised: %s <- %s" % (unpack, rnames))
    else:
        chk.ob("C10.O1", sorted(v for v in role.values() if v) == ["grid", "step"], where_of(load, load.node),
               "load_data receives %s from populate_grid_time returning %s" % (unpack, rnames), "(grid, step) unpacked in the order returned",
               key="load_data|grid-step-unpack")

    # ------------------------------------------------------------ O2
    shapes = {}
    for fq, tab, staging, valcol in (("load.populate_rainfall_intensity", "rainfall_intensity", "rainfall_intensity_staging", "rainfall_intensity_mm_h"),
                                      ("load.populate_evapotranspiration", "evapotranspiration", "evapotranspiration_staging", "evapotranspiration_mm_h")):
        f = ctx.func(fq)
        ins = [s for s in ctx.sites_in(f) if s.stmt is not None and s.stmt.kind == "insert" and s.stmt.table == tab]
        if len(ins) == 1 and ins[0].stmt.select is None and _positional_pairing(ctx, chk, f, ins[0], tab, staging, valcol):
            continue
        if len(ins) != 1 or ins[0].stmt.select is None:
            chk.indeterminate("C10.O2", where_of(f, f.node), "INSERT INTO %s ... SELECT not found" % tab)
            continue
        s = ins[0]
        q = s.stmt.select
        alias = {x.alias: x.table for x in q.sources}
        cols = s.stmt.columns
        want_cols = ["from_epoch", "thru_epoch", valcol]
        sel_ok = cols == want_cols and len(q.columns) == 3
        c0, c1, c2 = [c[0] for c in q.columns] if len(q.columns) == 3 else (None, None, None)
        shape = {}
        if sel_ok:
            shape["from"] = c0[0] == "col" and c0[2] == "epoch" and alias.get(c0[1], staging) == staging
            shape["thru"] = c1[0] == "bin" and c1[1] == "+" and c1[2][0] == "col" and c1[2][2] == "epoch" and c1[3][0] == "param"
            shape["value"] = c2[0] == "col" and c2[2] == valcol
            thru_param = c1[3][1] if shape["thru"] else None
        # on-grid restriction: JOIN grid_time on the epoch, or epoch IN (SELECT epoch FROM grid_time)
        unknown = []
        restr = any(x.table == "grid_time" and (x.using == ["epoch"] or (x.on is not None and "epoch" in expr_str(x.on))) for x in q.sources)
        ub = None
        for pr in conjuncts(q.where):
            if pr[0] == "bin" and pr[1] in ("<=", "<", ">=", ">") and pr[2][0] == "col" and pr[2][2] == "epoch" and pr[3][0] == "param" and pr[1] in ("<=", "<"):
                ub = (pr[1], pr[3][1])
            elif pr[0] == "bin" and pr[1] in (">=", ">") and pr[3][0] == "col" and pr[3][2] == "epoch" and pr[2][0] == "param":
                ub = ({">=": "<=", ">": "<"}[pr[1]], pr[2][1])
            elif pr[0] in ("in", "inlist") and pr[1][0] == "col" and pr[1][2] == "epoch" and len(pr[2]) == 1 and pr[2][0][0] == "subq":
                q2 = pr[2][0][1]
                if len(q2.sources) == 1 and q2.sources[0].table == "grid_time" and len(q2.columns) == 1 and q2.columns[0][0][0] == "col" \
                        and q2.columns[0][0][2] == "epoch" and not q2.where:
                    restr = True
                else:
                    unknown.append(expr_str(pr))
            else:
                unknown.append(expr_str(pr))
        shape["join"] = restr and any(x.table == staging for x in q.sources)
        shape["bound"] = ub is not None and ub[0] == "<="
        # parameters
        par_ok = None
        pdesc = ast.unparse(s.params_node) if s.params_node is not None else "?"
        if sel_ok and shape.get("thru") and ub is not None:
            pt, pb = s.param(thru_param), s.param(ub[1])
            if pt is not None and pb is not None:
                # thru param is the step parameter of the function; bound is grid[-2]
                step_ok = isinstance(pt, ast.Name) and pt.id in f.params
                bnd_ok = isinstance(pb, ast.Subscript) and isinstance(pb.value, ast.Name) and pb.value.id in f.params \
                    and ast.unparse(pb.slice) == "-2"
                calls = [c for c in ast.walk(load.node) if isinstance(c, ast.Call) and ctx.cg.resolve_callee(load, c.func) == [f.fq]]
                role_ok = None
                if calls and step_ok and bnd_ok:
                    c = calls[0]
                    bind = {}
                    for i_, a in enumerate(c.args):
                        if i_ < len(f.params):
                            bind[f.params[i_]] = a
                    for k in c.keywords:
                        bind[k.arg] = k.value
                    a_step, a_grid = bind.get(pt.id), bind.get(pb.value.id)
                    if isinstance(a_step, ast.Name) and isinstance(a_grid, ast.Name) and sorted(v_ for v_ in role.values() if v_) == ["grid", "step"]:
                        # plain names, and which names hold the grid / the step is known: anything else is a wrong binding
                        role_ok = role.get(a_step.id) == "step" and role.get(a_grid.id) == "grid"
                def readable(e):
                    # a parameter of the function, or a constant-indexed element of one
                    if isinstance(e, ast.Name):
                        return e.id in f.params
                    return isinstance(e, ast.Subscript) and isinstance(e.value, ast.Name) and e.value.id in f.params and not isinstance(e.slice, ast.Slice) \
                        and isinstance(e.slice, (ast.Constant, ast.UnaryOp))
                if role_ok is not None:
                    par_ok = step_ok and bnd_ok and role_ok
                elif readable(pt) and readable(pb) and not (step_ok and bnd_ok):
                    par_ok = False
        def plain(e):
            # built from columns, parameters, + and - only
            return e is not None and (e[0] in ("col", "param", "num") or (e[0] == "bin" and e[1] in ("+", "-") and plain(e[2]) and plain(e[3])))
        if sel_ok and plain(c0) and plain(c1) and not (shape.get("from") and shape.get("thru")):
            chk.ob("C10.O2", False, where_of(f, s.call), "%s <- (%s, %s, ...)" % (tab, expr_str(c0), expr_str(c1)),
                   "each on-grid staging row up to the second-to-last grid time becomes the step [epoch, epoch + step)",
                   key="%s|copy" % f.qualname, why="values attached to another interval, or a row at the closing instant, misplace the series by one step")
            shapes[tab] = (tuple(sorted(shape.items())), False)
            continue
        if not sel_ok or par_ok is None or (unknown and not all(shape.values())):
            chk.indeterminate("C10.O2", where_of(f, s.call), "%s copy: select list / predicates %s / parameters %s not of a recognised form" % (tab, unknown, pdesc[:60]))
            continue
        allok = sel_ok and all(shape.values()) and par_ok
        chk.ob("C10.O2", allok, where_of(f, s.call),
               "%s <- (epoch, epoch + ?, value): %s; on-grid restriction: %s; epoch <= ?: %s; parameters %s bound to (step, grid[-2]): %s"
               % (tab, [shape.get("from"), shape.get("thru"), shape.get("value")], shape.get("join"), shape.get("bound"), pdesc, par_ok),
               "each on-grid staging row up to the second-to-last grid time becomes the step [epoch, epoch + step)",
               key="%s|copy" % f.qualname, why="values attached to another interval, or a row at the closing instant, misplace the series by one step")
        shapes[tab] = (tuple(sorted(shape.items())), par_ok)
    if len(shapes) == 2:
        a, b_ = list(shapes.values())
        chk.ob("C10.O2", a == b_, ("spowtd/load.py", "populate_rainfall_intensity", 0), "rainfall copy and ET copy have the same shape: %s" % (a == b_),
               "the two copies are isomorphic up to table and column names", key="load|copies-isomorphic",
               why="ET and rainfall must land on identical steps")

    # ------------------------------------------------------------ O3 row order
    n_pos = 0
    for name in ARRAY_MODULES:
        if name not in ctx.repo.modules:
            continue
        for q, f in sorted(ctx.repo.modules[name].functions.items()):
            for bd in bindings(ctx, f):
                if bd.kind not in ("columns", "rows"):
                    continue
                q_ = bd.site.stmt
                aggs_only = all(_is_agg(e) for e, _ in q_.columns)
                if aggs_only and not q_.group_by:
                    continue
                n_pos += 1
                ok = False
                how = "unordered"
                if q_.order_by:
                    e0 = q_.order_by[0][0]
                    ok = e0[0] == "col" or e0[0] == "bin"
                    how = "ORDER BY %s" % ", ".join("%s %s" % (expr_str(e), d) for e, d in q_.order_by)
                elif len(q_.sources) == 1 and q_.sources[0].subq is None and q_.where is None and not q_.group_by and not q_.distinct \
                        and ctx.schema.rowid_alias(q_.sources[0].table):
                    t = ctx.schema.tables[q_.sources[0].table]
                    ok = True
                    how = "bare scan of %s whose key `%s %s PRIMARY KEY` is a rowid alias" % (t.name, t.pk[0], t.col(t.pk[0]).type_text)
                elif len(q_.sources) == 1 and q_.sources[0].table == "sqlite_master":
                    continue
                chk.ob("C10.O3", ok, where_of(f, bd.site.call), "rows bound positionally to %s: %s" % ([n for n in bd.names if n], how),
                       "ordered by the key, or a bare scan of a rowid-alias table", key="%s|row-order|%s" % (f.qualname, ",".join(n or "_" for n in bd.names)),
                       why="with any other query shape insertion order leaks into positional array code (np.interp needs increasing xp)")
    chk.floor("SELECTs feeding positional code", n_pos, 12)

    # ------------------------------------------------------------ O4 interpolation
    wl = ctx.func("load.populate_water_level")
    wflow = Flow.of(wl)
    mod = wl.module
    gridp = wl.params[1]
    st_b = None
    for bd in bindings(ctx, wl):
        if {s.table for s in bd.site.stmt.sources} == {"water_level_staging"}:
            st_b = bd
    interp = [c for c in ast.walk(wl.node) if isinstance(c, ast.Call) and (full_call_name(mod, c) or "").endswith("numpy.interp")]
    if st_b is None or len(interp) != 1 or len(interp[0].args) < 3:
        chk.indeterminate("C10.O4", where_of(wl, wl.node), "staging query binding or np.interp call not found")
    else:
        colname = {}
        for i, nm in enumerate(st_b.names):
            e = st_b.site.stmt.columns[i][0]
            if nm and e[0] == "col":
                colname[nm] = e[2]
        ic = interp[0]
        x, xp, fp = ic.args[:3]

        def base_name(n):
            seen = 0
            while seen < 5:
                seen += 1
                if isinstance(n, ast.Name):
                    if n.id in colname or n.id == gridp:
                        return n.id
                    v = wflow.def_value(n)
                    if isinstance(v, ast.Call) and (full_call_name(mod, v) or "").split(".")[-1] in ("array", "asarray") and v.args:
                        n = v.args[0]
                        continue
                    if isinstance(v, ast.Name):
                        n = v            # a plain alias
                        continue
                    return n.id
                if isinstance(n, ast.Call) and (full_call_name(mod, n) or "").split(".")[-1] in ("array", "asarray") and n.args:
                    n = n.args[0]
                    continue
                return None
            return None

        xs = None
        xcore = x
        if isinstance(x, ast.Subscript) and isinstance(x.slice, ast.Slice):
            xs = (ast.unparse(x.slice.lower) if x.slice.lower is not None else "", ast.unparse(x.slice.upper) if x.slice.upper is not None else "")
            xcore = x.value
        roles_ok = base_name(xcore) == gridp and colname.get(base_name(xp)) == "epoch" and colname.get(base_name(fp)) == "zeta_mm"
        chk.ob("C10.O4", roles_ok, where_of(wl, ic), "np.interp(x=%s, xp=%s, fp=%s)" % (ast.unparse(x), ast.unparse(xp), ast.unparse(fp)),
               "x = grid instants, xp = source epochs, fp = source levels", key="populate_water_level|interp-roles",
               why="swapped roles interpolate time as a function of level")
        # stored rows
        ins = [s for s in ctx.sites_in(wl) if s.stmt is not None and s.stmt.kind == "insert" and s.stmt.table == "water_level"]
        if len(ins) == 1 and isinstance(ins[0].params_node, ast.Call) and isinstance(ins[0].params_node.func, ast.Name) \
                and ins[0].params_node.func.id == "zip" and len(ins[0].params_node.args) == 2:
            cols = ins[0].stmt.columns
            a0, a1 = ins[0].params_node.args
            pe = a0 if cols == ["epoch", "zeta_mm"] else a1
            pv = a1 if cols == ["epoch", "zeta_mm"] else a0

            def strip(n):
                while isinstance(n, ast.Call) and isinstance(n.func, ast.Attribute) and n.func.attr == "tolist":
                    n = n.func.value
                return n
            pe, pv = strip(pe), strip(pv)
            # through temporaries:  valid_epochs = time_grid[valid_mask].tolist()
            for _h in range(3):
                if isinstance(pe, ast.Name) and wflow.def_value(pe) is not None and not isinstance(wflow.def_value(pe), ast.Name):
                    pe = strip(wflow.def_value(pe))
                if isinstance(pv, ast.Name) and wflow.def_value(pv) is not None and not isinstance(wflow.def_value(pv), ast.Name):
                    pv = strip(wflow.def_value(pv))
            ok = False
            desc = "epochs %s, values %s" % (ast.unparse(pe), ast.unparse(pv))
            readable = True
            if isinstance(pv, ast.Subscript) and pv.value is ic:
                # the interpolation call itself, masked in place
                pv = ast.Subscript(value=ast.Name(id="__interp__", ctx=ast.Load()), slice=pv.slice, ctx=ast.Load())
                interp_inline = True
            else:
                interp_inline = False
            if not (isinstance(pe, ast.Subscript) and isinstance(pv, ast.Subscript) and isinstance(pe.value, ast.Name) and isinstance(pv.value, ast.Name)):
                chk.indeterminate("C10.O4", where_of(wl, ins[0].call), "stored rows (%s) are not two masked arrays" % desc[:100])
                readable = False
            if isinstance(pe, ast.Subscript) and isinstance(pv, ast.Subscript) and isinstance(pe.value, ast.Name) and isinstance(pv.value, ast.Name):
                vdef = wflow.def_value(pv.value) if not interp_inline else ic
                val_from_interp = vdef is ic
                e_grid = base_name(pe.value) == gridp
                m_e = pe.slice
                m_v = pv.slice
                mname = m_e.id if isinstance(m_e, ast.Name) else None
                if xs is None:
                    same_space = isinstance(m_v, ast.Name) and m_v.id == mname
                else:
                    same_space = isinstance(m_v, ast.Subscript) and isinstance(m_v.value, ast.Name) and m_v.value.id == mname \
                        and isinstance(m_v.slice, ast.Slice) and (
                            (ast.unparse(m_v.slice.lower) if m_v.slice.lower is not None else "", ast.unparse(m_v.slice.upper) if m_v.slice.upper is not None else "") == xs)
                ok = val_from_interp and e_grid and mname is not None and same_space and xs in (None, ("", "-1"))
            if readable:
                chk.ob(
                    "C10.O4", ok, where_of(wl, ins[0].call), desc + "; interpolated on grid%s" % ("[%s:%s]" % xs if xs else ""),
                   "stored epochs grid[mask] and stored values interp[mask restricted to the interpolated instants]: the same mask in the same index space",
                   key="populate_water_level|index-spaces", why="a mask shifted by one attaches every level to the neighbouring instant",
                )
        else:
            chk.indeterminate("C10.O4", where_of(wl, wl.node), "INSERT INTO water_level with zip(epochs, values) not found")

        # ------------------------------------------------------------ O5
        closed = None
        for n in ast.walk(wl.node):
            if isinstance(n, ast.BinOp) and isinstance(n.op, ast.BitAnd):
                cmps = [x for x in (n.left, n.right) if isinstance(x, ast.Compare) and len(x.ops) == 1]
                if len(cmps) == 2:
                    ops = []
                    for c in cmps:
                        l, r, op = c.left, c.comparators[0], type(c.ops[0])
                        if base_name(r) == gridp and base_name(l) != gridp:
                            l, r = r, l
                            op = {ast.Lt: ast.Gt, ast.Gt: ast.Lt, ast.LtE: ast.GtE, ast.GtE: ast.LtE}.get(op, op)
                        if base_name(l) == gridp:
                            ops.append(op.__name__)
                    if len(ops) == 2:
                        closed = (sorted(ops), n)
        if closed is None:
            chk.indeterminate("C10.O5", where_of(wl, wl.node), "validity test of grid instants against (start, through) not found: the gap labelling has another shape")
        else:
          chk.ob("C10.O5", closed[0] == ["GtE", "LtE"], where_of(wl, closed[1]),
               "validity test: %s" % ast.unparse(closed[1]),
               "start <= t <= through: the samples bounding a gap are valid, instants strictly inside it are not",
               key="populate_water_level|validity-closed",
               why="a half-open test drops the last sample before a gap (or the first after it)")
        # ---- what the validity intervals are: starts, ends and labels as symbolic sequences (seqsym)
        _validity_intervals(ctx, chk, wl, wflow, mod, gridp, closed, base_name, colname)
        # unlabelled instants: the sentinel written is the sentinel tested, and it is not a label (labels start at 1)
        sent_set = sent_test = None
        for n in ast.walk(wl.node):
            if isinstance(n, ast.Assign) and isinstance(n.targets[0], ast.Subscript) and isinstance(n.targets[0].slice, ast.Slice) \
                    and n.targets[0].slice.lower is None and n.targets[0].slice.upper is None:
                try:
                    sent_set = (n.targets[0].value.id if isinstance(n.targets[0].value, ast.Name) else None, py_poly(n.value).const_or_none(), n)
                except Exception:
                    pass
            # labels = np.full(shape, c, ...)
            if isinstance(n, ast.Assign) and len(n.targets) == 1 and isinstance(n.targets[0], ast.Name) and isinstance(n.value, ast.Call) \
                    and (full_call_name(mod, n.value) or "").endswith("numpy.full") and len(n.value.args) >= 2:
                try:
                    c_ = py_poly(n.value.args[1]).const_or_none()
                    if c_ is not None and c_ == int(c_) and any(isinstance(k.value, ast.Constant) and "int" in str(k.value.value) for k in n.value.keywords if k.arg == "dtype"):
                        sent_set = (n.targets[0].id, c_, n)
                except Exception:
                    pass
            if isinstance(n, ast.Assign) and isinstance(n.value, ast.Compare) and len(n.value.ops) == 1 \
                    and isinstance(n.value.ops[0], (ast.NotEq, ast.Gt, ast.GtE, ast.Eq, ast.Lt, ast.LtE)) and sent_set is not None \
                    and isinstance(n.value.left, ast.Name) and n.value.left.id == sent_set[0]:
                try:
                    sent_test = (n.value.left.id if isinstance(n.value.left, ast.Name) else None, type(n.value.ops[0]).__name__,
                                 py_poly(n.value.comparators[0]).const_or_none(), n)
                except Exception:
                    pass
        if sent_set is None or sent_test is None:
            chk.indeterminate("C10.O5", where_of(wl, wl.node), "how unlabelled instants are marked (sentinel written / sentinel tested) is not recognised")
        if sent_set is not None and sent_test is not None and sent_set[0] == sent_test[0] and (sent_set[1] is None or sent_test[2] is None):
            chk.indeterminate("C10.O5", where_of(wl, sent_test[3]), "sentinel of unlabelled instants is not a literal")
        elif sent_set is not None and sent_test is not None and sent_set[0] == sent_test[0]:
            sv_, tv_ = sent_set[1], sent_test[2]
            opn = sent_test[1]
            oks = (opn == "NotEq" and sv_ == tv_ and sv_ < 1) or (opn == "Gt" and sv_ <= tv_ < 1) or (opn == "GtE" and sv_ < tv_ <= 1)
            chk.ob("C10.O5", oks, where_of(wl, sent_test[3]), "unlabelled instants carry %s; kept when label %s %s" % (
                sv_, {"NotEq": "!=", "Gt": ">", "GtE": ">=", "Eq": "==", "Lt": "<", "LtE": "<="}[opn], tv_),
                   "the sentinel written is the one tested, and it is not a label", key="populate_water_level|sentinel",
                   why="with another sentinel every instant inside a gap passes the test and gets an interpolated water level")
        # UPDATE binding order
        up = [s for s in ctx.sites_in(wl) if s.stmt is not None and s.stmt.kind == "update" and s.stmt.table == "grid_time"]
        if len(up) == 1 and isinstance(up[0].params_node, ast.Call) and len(up[0].params_node.args) == 2:
            st = up[0].stmt
            set_param = st.sets[0][1][1] if st.sets and st.sets[0][1][0] == "param" else None
            where_param = None
            for pr in conjuncts(st.where):
                if pr[0] == "bin" and pr[1] == "=" and pr[2][0] == "col" and pr[2][2] == "epoch" and pr[3][0] == "param":
                    where_param = pr[3][1]
            a = [strip(x) for x in up[0].params_node.args]
            # through temporaries:  valid_epochs = time_grid[valid_mask].tolist()
            for k_ in range(len(a)):
                for _h in range(3):
                    if isinstance(a[k_], ast.Name) and wflow.def_value(a[k_]) is not None and not isinstance(wflow.def_value(a[k_]), ast.Name):
                        a[k_] = strip(wflow.def_value(a[k_]))
            ok = set_param is not None and where_param is not None
            readable_up = ok and all(isinstance(x, ast.Subscript) for x in (a[set_param], a[where_param]))
            if ok:
                lab_arg, ep_arg = a[set_param], a[where_param]
                ok = isinstance(ep_arg, ast.Subscript) and base_name(ep_arg.value) == gridp and isinstance(lab_arg, ast.Subscript) \
                    and base_name(lab_arg.value) != gridp and ast.unparse(ep_arg.slice) == ast.unparse(lab_arg.slice)
            if not ok and not readable_up:
                chk.indeterminate("C10.O5", where_of(wl, up[0].call), "values bound to the UPDATE of grid_time (%s) are not two masked arrays" % ast.unparse(up[0].params_node)[:80])
            else:
                chk.ob("C10.O5", ok, where_of(wl, up[0].call), "UPDATE grid_time SET data_interval=?%s WHERE epoch=?%s <- %s" % (set_param, where_param, ast.unparse(up[0].params_node)[:90]),
                       "(label, epoch) of the same masked instants bound to (SET, WHERE)", key="populate_water_level|label-update")


def _is_agg(e):
    return e[0] == "call" and e[1] in ("MIN", "MAX", "COUNT", "AVG", "SUM", "TOTAL") or \
        (e[0] == "bin" and any(x[0] == "call" and x[1] in ("MIN", "MAX", "COUNT", "AVG", "SUM", "TOTAL") for x in walk_expr(e))) or \
        e[0] == "exists" or (e[0] == "cast" and _is_agg(e[1]))
