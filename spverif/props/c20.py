"""C20 -- each workflow step is all-or-nothing; independent steps commute.

Decided statically (structural necessary conditions):
 O1 transaction scope of each step in the CLI dispatch
 O2 no transaction boundary (commit / rollback / executescript / SQL
    COMMIT|END|ROLLBACK) from which a write of the same step is reachable
 O3 no handler that can complete normally around writes; no boundary in a
    handler / finally of a try whose body writes
 O4 single connection, default journalling
 O5 Bernstein conditions on read/write sets of the independent pairs
"""

import ast

from ..flow import Flow, always_raises
from ..report import where_of
from ..source import AnalysisError, dotted_name, enclosing_stmt, is_ancestor
from ..sqlmodel import is_write, stmt_reads, stmt_writes

STEPS = ["classify", "set-zeta-grid", "set-curvature", "rise", "recession"]
INDEPENDENT = [
    ("classify", "set-zeta-grid"),
    ("classify", "set-curvature"),
    ("set-zeta-grid", "set-curvature"),
    ("rise", "recession"),
]
BOUNDARY_METHODS = ("commit", "rollback", "executescript")
LEGACY_LEVELS = ("", "DEFERRED", "IMMEDIATE", "EXCLUSIVE")


DML_FIRST = ("INSERT", "UPDATE", "DELETE", "REPLACE")


def dispatch_branches(ctx, keyattr="task", func="user_interface.main"):
    """{task literal: (If node, body)} from `if args.<keyattr> == 'x'` chains."""
    f = ctx.func(func)
    out = {}
    for node in ast.walk(f.node):
        if isinstance(node, ast.If):
            t = node.test
            if (
                isinstance(t, ast.Compare)
                and len(t.ops) == 1
                and isinstance(t.ops[0], ast.Eq)
            ):
                l, r = t.left, t.comparators[0]
                if isinstance(r, ast.Attribute):
                    l, r = r, l
                if (
                    isinstance(l, ast.Attribute)
                    and l.attr == keyattr
                    and isinstance(r, ast.Constant)
                    and isinstance(r.value, str)
                ):
                    out[r.value] = node
    return f, out


class StepModel:
    """Call tree, SQL sites, boundaries and writes of one step."""

    def __init__(self, ctx, name, dispatch_func, if_node):
        self.ctx = ctx
        self.name = name
        self.dispatch = dispatch_func
        self.if_node = if_node
        self.withs = [
            n for st in if_node.body for n in ast.walk(st) if isinstance(n, ast.With)
        ]
        self.entry_calls = []
        self.tree = set()
        self.helpers = {}  # helper fq (same module as the dispatch) -> {param: set(fq passed)}
        for st in if_node.body:
            for n in ast.walk(st):
                if isinstance(n, ast.Call):
                    for fq in ctx.cg.resolve_callee(dispatch_func, n.func):
                        self.entry_calls.append((n, fq))
                        self.tree |= ctx.cg.reachable(fq)
                        callee = ctx.cg.func(fq)
                        if callee.module is dispatch_func.module:
                            binds = self.helpers.setdefault(fq, {})
                            params = callee.params
                            pairs = [(params[i], a) for i, a in enumerate(n.args) if i < len(params)]
                            pairs += [(k.arg, k.value) for k in n.keywords if k.arg in params]
                            for pname, a in pairs:
                                if isinstance(a, (ast.Name, ast.Attribute)):
                                    for t in ctx.cg.resolve_callee(dispatch_func, a):
                                        binds.setdefault(pname, set()).add(t)
                                        self.entry_calls.append((n, t))
                                        self.tree |= ctx.cg.reachable(t)
        # extra call edges of this step: helper -> functions passed to it as arguments
        self.extra_edges = {h: set().union(*b.values()) if b else set() for h, b in self.helpers.items()}


def _is_connect_call(f, call):
    d = dotted_name(call.func)
    if not d:
        return False
    head, _, rest = d.partition(".")
    tgt = f.module.aliases.get(head, head)
    full = tgt + ("." + rest if rest else "")
    return full in ("sqlite3.connect", "sqlite3.dbapi2.connect", "sqlite3.Connection")


def _boundary_kind(ctx, f, call):
    """Is this call a transaction boundary by itself?"""
    if isinstance(call.func, ast.Attribute) and call.func.attr in BOUNDARY_METHODS:
        # not every `.commit` is sqlite's, but in this code base the only
        # receivers are connections / cursors
        return call.func.attr + "()"
    s = ctx.site_of_call(call)
    if s is not None:
        for st in s.statements:
            if st.kind == "txn":
                w = st.text.split()[0].upper()
                if w in ("COMMIT", "END", "ROLLBACK"):
                    return "SQL " + w
    return None


def _write_kind(ctx, call):
    s = ctx.site_of_call(call)
    if s is None:
        return None
    if s.method == "executescript":
        return None  # counted as boundary; its own writes follow the implicit commit
    for st in s.statements:
        if is_write(st):
            return "%s %s" % (st.kind.upper(), ",".join(sorted(stmt_writes(st))) or "")
    if s.sql_text is None and s.method in ("execute", "executemany"):
        return "dynamic SQL"
    return None


def summaries(ctx, funcs, extra_edges=None):
    """fq -> (writes?, boundary?) transitively."""
    extra_edges = extra_edges or {}
    direct = {}
    for fq in funcs:
        f = ctx.cg.func(fq)
        w = b = False
        for call, _ in ctx.cg.calls.get(fq, []):
            if _write_kind(ctx, call):
                w = True
            if _boundary_kind(ctx, f, call):
                b = True
        direct[fq] = [w, b]
    changed = True
    while changed:
        changed = False
        for fq in funcs:
            for c in set(ctx.cg.edges.get(fq, ())) | set(extra_edges.get(fq, ())):
                if c in direct:
                    for i in (0, 1):
                        if direct[c][i] and not direct[fq][i]:
                            direct[fq][i] = True
                            changed = True
    return {k: tuple(v) for k, v in direct.items()}


def classify_nodes(ctx, f, summ, param_targets=None):
    """For function f: CFG node -> {'w': [...], 'b': [...]} descriptions.
    param_targets: {param name: set(fq)} for calls of a parameter of f."""
    flow = Flow.of(f)
    cfg = flow.cfg
    marks = {}
    for call, targets in ctx.cg.calls.get(f.fq, []):
        n = cfg.node_containing(call)
        if n is None:
            continue
        if param_targets and isinstance(call.func, ast.Name) and call.func.id in param_targets:
            targets = list(targets) + sorted(param_targets[call.func.id])
        w = _write_kind(ctx, call)
        b = _boundary_kind(ctx, f, call)
        for t in targets:
            if t in summ and t != f.fq:
                if summ[t][0]:
                    w = w or "call %s (writes)" % t
                if summ[t][1]:
                    b = b or "call %s (commits)" % t
        if w:
            marks.setdefault(n, {"w": [], "b": []})["w"].append((call, w))
        if b:
            marks.setdefault(n, {"w": [], "b": []})["b"].append((call, b))
    return flow, marks


def run(ctx, chk, tier="quick"):
    chk.explanation = (
        "Static transaction-effect analysis of the five workflow steps: the CLI "
        "dispatch is parsed to find each step's connection scope and entry "
        "function; over the step's resolved call tree with per-function CFGs no "
        "write may be reachable from a transaction boundary, no failure may be "
        "swallowed around writes, no second connection or journalling pragma may "
        "appear; read/write table sets (views expanded) of the independent pairs "
        "must satisfy Bernstein's conditions. Decides the structure that SQLite's "
        "atomic commit needs; trusts SQLite and CPython's sqlite3 module."
    )
    chk.assumptions = [
        "SQLite atomic commit and rollback-journal recovery",
        "CPython sqlite3 legacy transaction control: implicit BEGIN before DML, none before DDL/SELECT",
        "O5 is a sufficient condition (labelled): a new read of another step's table is reported as a hazard",
    ]
    from ..sqlrules import conflict_clauses
    conflict_clauses(ctx, chk, "C20.O2", ("classify", "zeta_grid", "set_curvature", "rise", "recession"), "steps",
                     "a step re-run on a file that already holds its rows must fail and leave the file as it was; with OR IGNORE / OR REPLACE it commits a mixture of old and new rows")
    dispatch, branches = dispatch_branches(ctx)
    steps = {}
    for name in STEPS:
        if name not in branches:
            chk.indeterminate("C20.O1", where_of(dispatch, dispatch.node),
                              "dispatch branch for task %r not found" % name)
            continue
        steps[name] = StepModel(ctx, name, dispatch, branches[name])
    chk.floor("workflow steps resolved from CLI dispatch", len(steps), 5)

    all_connects = 0
    for name, sm in steps.items():
        # ---- O1: connection scope
        conn_calls = [
            n for st in sm.if_node.body for n in ast.walk(st)
            if isinstance(n, ast.Call) and _is_connect_call(dispatch, n)
        ]
        conn_owner = {id(c): dispatch for c in conn_calls}
        for h in sorted(sm.helpers):
            hf = ctx.cg.func(h)
            for n in ast.walk(hf.node):
                if isinstance(n, ast.Call) and _is_connect_call(hf, n):
                    conn_calls.append(n)
                    conn_owner[id(n)] = hf
        all_connects += len(conn_calls)
        if not conn_calls:
            chk.indeterminate("C20.O1", where_of(dispatch, sm.if_node),
                              "no sqlite3.connect in dispatch of %r" % name)
            continue
        chk.ob("C20.O4", len(conn_calls) == 1, where_of(conn_owner[id(conn_calls[0])], conn_calls[0]),
               "%d sqlite3.connect call(s) in dispatch of %s" % (len(conn_calls), name),
               "exactly one connection per step", key="dispatch|%s|connect-count" % name,
               why="two connections split the step into two transactions")
        for c in conn_calls:
            bad = []
            for kw in c.keywords:
                if kw.arg == "isolation_level":
                    v = kw.value
                    if not (isinstance(v, ast.Constant) and isinstance(v.value, str)
                            and v.value.upper() in LEGACY_LEVELS):
                        bad.append("isolation_level=%s" % ast.unparse(v))
                elif kw.arg == "autocommit":
                    v = kw.value
                    txt = ast.unparse(v)
                    if not (txt.endswith("LEGACY_TRANSACTION_CONTROL") or txt == "False"):
                        bad.append("autocommit=%s" % txt)
                elif kw.arg is None:
                    bad.append("**%s" % ast.unparse(kw.value))
            if len(c.args) > 3:
                bad.append("positional isolation_level")
            chk.ob("C20.O1", not bad, where_of(conn_owner[id(c)], c),
                   "sqlite3.connect(%s)" % ", ".join(bad) if bad else "sqlite3.connect with default transaction control",
                   "connection keeps implicit transactions (no isolation_level=None / autocommit=True)",
                   key="dispatch|%s|connect-mode" % name,
                   why="in autocommit mode every statement of the step commits on its own")
        if not sm.entry_calls:
            chk.indeterminate("C20.O1", where_of(dispatch, sm.if_node),
                              "no resolvable entry call for step %r" % name)
            continue

        funcs = sorted(sm.tree)
        summ = summaries(ctx, funcs, sm.extra_edges)
        # ---- O2 inside the dispatch function and inside every function of the tree
        n_writes = 0
        n_bounds = 0
        scope_funcs = [dispatch] + [ctx.cg.func(fq) for fq in funcs]
        for f in scope_funcs:
            flow, marks = classify_nodes(ctx, f, summ, sm.helpers.get(f.fq))
            cfg = flow.cfg
            if f is dispatch:
                # restrict to nodes of this step's branch
                branch_nodes = {
                    n for n, st in cfg.stmt_of.items() if is_ancestor(sm.if_node, st) and st is not sm.if_node
                }
                marks = {n: m for n, m in marks.items() if n in branch_nodes}
            bnodes = [n for n, m in marks.items() if m["b"]]
            wnodes = [n for n, m in marks.items() if m["w"]]
            if f is not dispatch:
                n_writes += sum(1 for n in wnodes for c, d in marks[n]["w"] if not d.startswith("call "))
                n_bounds += sum(1 for n in bnodes for c, d in marks[n]["b"] if not d.startswith("call "))
            for b in bnodes:
                reach = cfg.reachable_from(b)
                for w in wnodes:
                    if w in reach:
                        bcall, bdesc = marks[b]["b"][0]
                        wcall, wdesc = marks[w]["w"][0]
                        # within one statement, a call that both writes and commits
                        # (a callee) is only a problem through a loop
                        chk.ob(
                            "C20.O2", False, where_of(f, wcall),
                            "write [%s] at line %d is reachable from transaction boundary [%s] at line %d%s"
                            % (wdesc, wcall.lineno, bdesc, bcall.lineno,
                               " (loop)" if (w == b or cfg.in_loop(b)) else ""),
                            "no write of a step after a commit point of the same step",
                            key="%s|%s|boundary:%s->write:%s" % (f.module.relpath, f.qualname, bdesc, wdesc),
                            why="a kill between that commit and the later write leaves a mixture in the file",
                            local=True,      # the write / commit summaries of every callee, new ones included, were computed from their bodies
                        )
            # passing obligations: one per boundary that has no later write
            for b in bnodes:
                reach = cfg.reachable_from(b)
                if not any(w in reach for w in wnodes):
                    bcall, bdesc = marks[b]["b"][0]
                    chk.ob("C20.O2", True, where_of(f, bcall),
                           "boundary [%s]: no write reachable afterwards" % bdesc,
                           "no write of a step after a commit point of the same step",
                           key="%s|%s|boundary:%s|step:%s" % (f.module.relpath, f.qualname, bdesc, name))
            # ---- O3: try blocks
            for n in ast.walk(f.node):
                if not isinstance(n, ast.Try):
                    continue
                if f is dispatch and not is_ancestor(sm.if_node, n):
                    continue
                body_nodes = set()
                for st in n.body + n.orelse:
                    for sub in ast.walk(st):
                        if isinstance(sub, ast.stmt):
                            cn = cfg.node(sub)
                            if cn is not None:
                                body_nodes.add(cn)
                body_writes = [w for w in wnodes if w in body_nodes]
                # a try that encloses the whole `with sqlite3.connect(...)` block is outside the transaction:
                # the exception leaves the with-block (rollback) before the handler runs
                encloses_with = any(isinstance(x, ast.With) and any(isinstance(c, ast.Call) and _is_connect_call(f, c)
                                    for it in x.items for c in ast.walk(it.context_expr))
                                    for st in n.body for x in ast.walk(st))
                if encloses_with:
                    chk.ob("C20.O3", True, where_of(f, n), "try block encloses the whole connection block (handler runs after the rollback)",
                           "no handler that completes normally around writes inside the transaction",
                           key="%s|%s|try-outside-transaction|%s" % (f.module.relpath, f.qualname, name))
                    continue
                if not body_writes:
                    chk.ob("C20.O3", True, where_of(f, n), "try block without writes in its body",
                           "no handler that completes normally around writes",
                           key="%s|%s|try-nowrite|%s" % (f.module.relpath, f.qualname, name))
                    continue
                for h in n.handlers:
                    ok = always_raises(h.body)
                    chk.ob("C20.O3", ok, where_of(f, h),
                           "except %s around writes %s" % (
                               ast.unparse(h.type) if h.type else "<bare>",
                               "re-raises on every path" if ok else "can complete normally"),
                           "a failure inside the step must propagate so that the transaction is rolled back",
                           key="%s|%s|handler:%s" % (f.module.relpath, f.qualname, ast.unparse(h.type) if h.type else "bare"),
                           why="a swallowed error lets the enclosing `with` commit the partial writes")
                for part, label in ((n.finalbody, "finally"),) + tuple((h.body, "except") for h in n.handlers):
                    for st in part:
                        for sub in ast.walk(st):
                            if isinstance(sub, ast.Call) and _boundary_kind(ctx, f, sub) in ("commit()", "SQL COMMIT", "SQL END"):
                                chk.ob("C20.O1", False, where_of(f, sub),
                                       "commit in %s clause of a try whose body writes" % label,
                                       "commit only on the normal path after the last write",
                                       key="%s|%s|commit-in-%s" % (f.module.relpath, f.qualname, label),
                                       why="commits the partial writes of a failed step")
        chk.count("write_sites", n_writes)
        chk.count("boundary_sites", n_bounds)

        # ---- O4: second connection / pragmas / mode switches in the tree
        for fq in funcs:
            f = ctx.cg.func(fq)
            for n in ast.walk(f.node):
                if isinstance(n, ast.Call) and _is_connect_call(f, n) and id(n) not in conn_owner:
                    chk.ob("C20.O4", False, where_of(f, n), "sqlite3.connect inside step %s" % name,
                           "a step uses only the connection handed in by the dispatch",
                           key="%s|%s|connect" % (f.module.relpath, f.qualname),
                           why="work on a second connection is committed separately")
                if isinstance(n, (ast.Assign, ast.AugAssign)):
                    tgts = n.targets if isinstance(n, ast.Assign) else [n.target]
                    for t in tgts:
                        if isinstance(t, ast.Attribute) and t.attr in ("isolation_level", "autocommit"):
                            chk.ob("C20.O1", False, where_of(f, n), "assignment to .%s" % t.attr,
                                   "transaction control of the connection is left alone",
                                   key="%s|%s|set-%s" % (f.module.relpath, f.qualname, t.attr),
                                   why="switching to autocommit makes every statement its own transaction")
            for s in ctx.sites_in(f):
                for st in s.statements:
                    if st.kind == "pragma" and st.name in ("journal_mode", "locking_mode"):
                        val = (st.value or "").upper()
                        bad = st.name == "journal_mode" and val in ("OFF", "MEMORY")
                        chk.ob("C20.O4", not bad, where_of(f, s.call), "PRAGMA %s=%s" % (st.name, st.value),
                               "rollback journal stays on disk", key="%s|%s|pragma-%s" % (f.module.relpath, f.qualname, st.name),
                               why="without a persistent journal a killed step cannot be rolled back")
        # dispatch-level assignments
        for st in sm.if_node.body:
            for n in ast.walk(st):
                if isinstance(n, ast.Assign):
                    for t in n.targets:
                        if isinstance(t, ast.Attribute) and t.attr in ("isolation_level", "autocommit"):
                            chk.ob("C20.O1", False, where_of(dispatch, n), "assignment to .%s" % t.attr,
                                   "transaction control of the connection is left alone",
                                   key="dispatch|%s|set-%s" % (name, t.attr),
                                   why="switching to autocommit makes every statement its own transaction")

        # ---- O1: there is a commit on the normal path (with-exit or commit())
        has_with = any(
            any(isinstance(n, ast.Call) and _is_connect_call(dispatch, n) for n in ast.walk(it.context_expr))
            for w in sm.withs for it in w.items
        )
        chk.info("C20.O1", where_of(dispatch, sm.if_node),
                 "step %s: connection used as context manager: %s; call tree: %s"
                 % (name, has_with, ", ".join(funcs)))

    # ---- O5: commutation
    rw = {}
    for name, sm in steps.items():
        R, W = set(), set()
        for fq in sorted(sm.tree):
            for s in ctx.sites_in(ctx.cg.func(fq)):
                for st in s.statements:
                    for t in stmt_reads(st):
                        R |= ctx.schema.base_tables(t)
                    for t in stmt_writes(st):
                        W |= ctx.schema.base_tables(t)
                if s.sql_text is None and s.method != "executescript":
                    chk.indeterminate("C20.O5", where_of(s.func, s.call), "dynamic SQL text in step %s" % name)
        rw[name] = (R, W)
        chk.info("C20.O5", where_of(dispatch, sm.if_node),
                 "step %s: W=%s R=%s" % (name, sorted(W), sorted(R)))
    chk.extra["read_write_sets"] = {k: {"R": sorted(v[0]), "W": sorted(v[1])} for k, v in rw.items()}
    for a, b in INDEPENDENT:
        if a not in rw or b not in rw:
            continue
        (Ra, Wa), (Rb, Wb) = rw[a], rw[b]
        conflicts = sorted((Wa & (Rb | Wb)) | (Wb & (Ra | Wa)))
        chk.ob("C20.O5", not conflicts, where_of(dispatch, steps[a].if_node),
               "steps %s / %s: conflicting tables %s" % (a, b, conflicts) if conflicts
               else "steps %s / %s: write sets disjoint from the other's read and write sets" % (a, b),
               "W(a) ∩ (R(b) ∪ W(b)) = ∅ and W(b) ∩ (R(a) ∪ W(a)) = ∅",
               key="commute|%s|%s|%s" % (a, b, ",".join(conflicts)),
               why="a step that reads or writes what the other writes can see a different state depending on the order")
    written = set()
    for _, (R, W) in rw.items():
        written |= W
    chk.floor("distinct base tables written by the five steps", len(written), 12)

    # ---- O6: the driver opens the implicit transaction before the step's writes
    # CPython's sqlite3 (legacy transaction control) issues BEGIN only before a statement whose FIRST
    # keyword is INSERT / UPDATE / DELETE / REPLACE.  A write spelled `WITH ... INSERT` is not recognised:
    # with no transaction open it runs in autocommit, every execution is its own commit.
    seen_sites = set()
    n_dml = 0
    for name, sm in steps.items():
        for fq in sorted(sm.tree):
            f = ctx.cg.func(fq)
            fl = None
            for site in ctx.sites_in(f):
                if site.method == "executescript" or id(site.call) in seen_sites:
                    continue
                for st in site.statements:
                    if st.kind not in ("insert", "update", "delete"):
                        continue
                    seen_sites.add(id(site.call))
                    n_dml += 1
                    chk.info("C20.O6", where_of(f, site.call), "%s %s first keyword %s" % (st.kind, st.table, getattr(st, "first_keyword", None)))
                    fk = getattr(st, "first_keyword", None)
                    if fk in DML_FIRST:
                        continue
                    # safe only if a recognised write of the same function dominates it (the transaction is already open)
                    if fl is None:
                        fl = Flow.of(f)
                    me = fl.cfg.node_containing(site.call)
                    opened = False
                    for other in ctx.sites_in(f):
                        if other is site or other.method == "executescript":
                            continue
                        if any(o.kind in ("insert", "update", "delete") and getattr(o, "first_keyword", None) in DML_FIRST for o in other.statements):
                            on = fl.cfg.node_containing(other.call)
                            if on is not None and me is not None and on != me and fl.cfg.dominates(on, me):
                                opened = True
                    chk.ob("C20.O6", opened, where_of(f, site.call),
                           "%s into %s is spelled `%s ...`: the driver does not open a transaction before it%s" % (
                               st.kind.upper(), st.table, fk, "" if not opened else " (one is already open: an earlier INSERT / UPDATE / DELETE of this function dominates it)"),
                           "every write of a step starts with INSERT / UPDATE / DELETE / REPLACE, or follows one on every path",
                           key="%s|%s|first-keyword:%s:%s" % (f.module.relpath, f.qualname, fk, st.table),
                           why="with no transaction open the statement runs in autocommit: rows written before a later failure or kill stay in the file, and the `with connection:` rollback cannot undo them")
    # DDL inside a step (CREATE / DROP / ALTER through execute): the driver opens no transaction before it either, so with no
    # transaction open it is durable at once and the `with connection:` rollback cannot undo it
    for name, sm in steps.items():
        for fq in sorted(sm.tree):
            f = ctx.cg.func(fq)
            fl = None
            for site in ctx.sites_in(f):
                if site.method == "executescript":
                    continue
                for st in site.statements:
                    is_ddl = st.kind in ("create_table", "create_view") or (st.kind == "ddl")
                    if not is_ddl:
                        continue
                    if fl is None:
                        fl = Flow.of(f)
                    me = fl.cfg.node_containing(site.call)
                    opened = False
                    for other in ctx.sites_in(f):
                        if other is site or other.method == "executescript":
                            continue
                        if any(o.kind in ("insert", "update", "delete") and getattr(o, "first_keyword", None) in DML_FIRST for o in other.statements):
                            on = fl.cfg.node_containing(other.call)
                            if on is not None and me is not None and on != me and fl.cfg.dominates(on, me):
                                opened = True
                    what = "%s %s" % (st.kind.replace("_", " ").upper(), getattr(st, "name", "") or getattr(st, "text", "")[:30])
                    chk.ob("C20.O6", opened, where_of(f, site.call),
                           "step %s executes %s%s" % (name, what, "" if not opened else " after a write that opened the transaction"),
                           "a step changes the schema only inside the transaction its writes opened (or not at all)",
                           key="%s|%s|ddl:%s" % (f.module.relpath, f.qualname, what),
                           why="CREATE / DROP executed with no transaction open is committed at once: a step that fails afterwards leaves the object behind, and the next run stops at `table already exists`")
    chk.ob("C20.O6", True, where_of(dispatch, dispatch.node), "%d INSERT / UPDATE / DELETE sites in the five steps read for their first keyword" % n_dml,
           "every write of a step starts with INSERT / UPDATE / DELETE / REPLACE, or follows one on every path", key="dispatch|first-keywords")
    chk.floor("INSERT / UPDATE / DELETE sites in the five steps", n_dml, 13)

    # positive control for the zero-expected rule O2
    _positive_control(chk)


_CONTROL = '''
def step(connection, rows):
    cursor = connection.cursor()
    for r in rows:
        cursor.execute("INSERT INTO storm (start_epoch, thru_epoch) VALUES (?, ?)", r)
        connection.commit()
'''


def _positive_control(chk):
    """The O2 rule must fire on a commit inside a writing loop."""
    from ..cfg import CFG

    tree = ast.parse(_CONTROL)
    for n in ast.walk(tree):
        for c in ast.iter_child_nodes(n):
            c.parent = n
    fn = tree.body[0]
    cfg = CFG(fn)
    commit = write = None
    for n, st in cfg.stmt_of.items():
        txt = ast.unparse(st)
        if "commit()" in txt:
            commit = n
        if "INSERT" in txt:
            write = n
    fired = commit is not None and write is not None and write in cfg.reachable_from(commit)
    if not fired:
        chk.errors.append("C20.O2 positive control did not fire")
    chk.count("positive_controls", 1)
