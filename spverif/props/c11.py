"""C11 -- timestamps are converted exactly and bad input is refused.

 O1 time-zone API discipline by provenance (pytz objects only through
    localize/normalize/astimezone/fromtimestamp; never as tzinfo=);
    the stored epoch is the bare .timestamp() of a localized datetime
 O2 the three staging loads receive the same zone object, and it is
    built from the name the CLI passes
 O3 whole-second refusal (only needed if the format can parse fractions)
 O4 refusals dominate writes and raise: (i) already populated (or the
    schema script's CREATE TABLE collision, a second static guarantee),
    (ii) non-uniform rainfall step (or the FK on thru_epoch with
    foreign_keys=1, a second static guarantee), (iii) missing ET
"""

import ast

from ..cfg import ENTRY
from ..flow import Flow, always_raises
from ..guards import back_slice, enclosing_swallowing_try, guards_of, nonempty_nf, slice_calls, strip_not
from ..report import where_of
from ..source import AnalysisError, const_str, dotted_name, enclosing_func, enclosing_stmt
from ..sqlmodel import conjuncts, is_write, stmt_reads, stmt_writes, walk_expr
from .c20 import dispatch_branches

PYTZ_CTORS = ("pytz.timezone", "pytz.FixedOffset", "pytz.utc", "pytz.UTC")
ZONEINFO_CTORS = ("zoneinfo.ZoneInfo", "datetime.timezone", "dateutil.tz.gettz")


def _full_name(mod, node):
    d = dotted_name(node)
    if not d:
        return None
    head, _, rest = d.partition(".")
    tgt = mod.aliases.get(head)
    if tgt:
        return tgt + ("." + rest if rest else "")
    return d


HELPER_CTORS = {}


def _zone_name_rewrites(ctx, hf, ctor_calls):
    """The name a helper hands to the zone constructor: for every reaching definition that is not the helper's own parameter
    (possibly stripped of white space), the guard under which the name is rewritten.  A guard that is a match of a constant
    regular expression is evaluated over the names pytz knows: a rewrite that fires on a valid IANA name changes which zone
    that name means.  -> ('ok', None) | ('viol', text, node) | ('indet', text, node)"""
    import re as _re
    hflow = Flow.of(hf)
    params = set(hf.params)

    def is_param_like(v):
        for _h in range(4):
            if isinstance(v, ast.Call) and isinstance(v.func, ast.Attribute) and v.func.attr in ("strip", "lstrip", "rstrip") and not v.args:
                v = v.func.value
            elif isinstance(v, ast.Call) and isinstance(v.func, ast.Name) and v.func.id == "str" and len(v.args) == 1:
                v = v.args[0]
            else:
                break
        if isinstance(v, ast.Name) and v.id in params:
            return True
        if isinstance(v, ast.Name):
            dv = hflow.def_value(v)
            return dv is not None and is_param_like(dv)
        return False

    for call in ctor_calls:
        if not call.args:
            continue
        a = call.args[0]
        if not isinstance(a, ast.Name):
            if is_param_like(a):
                continue
            return ("indet", "zone name %s is not a name" % ast.unparse(a)[:40], call)
        for d in sorted(hflow.reaching_defs(a) or set(), key=str):
            st = hflow.cfg.stmt_of.get(d)
            if st is None:
                if a.id in params:
                    continue
                return ("indet", "definition of %s not found" % a.id, call)
            if not (isinstance(st, ast.Assign) and len(st.targets) == 1 and isinstance(st.targets[0], ast.Name)):
                return ("indet", "zone name bound by %s" % type(st).__name__, st)
            if is_param_like(st.value):
                continue
            # a rewrite: find the guard
            g = getattr(st, "parent", None)
            child = st
            m = t = None
            while isinstance(g, ast.If):
                if child in g.body:
                    t = g.test
                    mm = hflow.def_value(t) if isinstance(t, ast.Name) else t
                    if isinstance(mm, ast.Compare) and len(mm.ops) == 1 and isinstance(mm.ops[0], ast.IsNot) and isinstance(mm.comparators[0], ast.Constant) \
                            and mm.comparators[0].value is None:
                        mm = hflow.def_value(mm.left) if isinstance(mm.left, ast.Name) else mm.left
                    if isinstance(mm, ast.Call) and isinstance(mm.func, ast.Attribute) and mm.func.attr in ("search", "match", "fullmatch"):
                        m = mm
                        break
                child, g = g, getattr(g, "parent", None)
            if t is None:
                return ("indet", "zone name rewritten as %s outside a guard" % ast.unparse(st.value)[:50], st)
            if m is None:
                return ("indet", "zone name rewritten under `%s`: not a regular-expression test" % ast.unparse(t)[:50], st)
            method = m.func.attr
            recv = m.func.value
            pat_node, flag_nodes = None, []
            if isinstance(recv, ast.Name) and recv.id == "re" and len(m.args) >= 2:
                pat_node, flag_nodes = m.args[0], list(m.args[2:]) + [k.value for k in m.keywords if k.arg == "flags"]
            else:
                cdef = hf.module.constants.get(recv.id) if isinstance(recv, ast.Name) else None
                if isinstance(cdef, ast.Call) and isinstance(cdef.func, ast.Attribute) and cdef.func.attr == "compile" and cdef.args:
                    pat_node, flag_nodes = cdef.args[0], list(cdef.args[1:]) + [k.value for k in cdef.keywords if k.arg == "flags"]
            pat = const_str(pat_node, hf.module) if pat_node is not None else None
            if pat is None:
                return ("indet", "pattern of the zone-name test is not a constant", st)
            flags = 0
            for fnode in flag_nodes:
                for x in ast.walk(fnode):
                    if isinstance(x, ast.Attribute) and hasattr(_re, x.attr) and x.attr.isupper():
                        flags |= int(getattr(_re, x.attr))
            try:
                rx = _re.compile(pat, flags)
                import pytz as _pytz
                hits = [z for z in _pytz.all_timezones if getattr(rx, method)(z)]
            except Exception as exc:
                return ("indet", "pattern not evaluable: %s" % exc, st)
            partial = [z for z in hits if (lambda mo: mo is not None and (mo.start() > 0 or mo.end() < len(z)))(getattr(rx, method)(z))]
            if hits and not partial:
                return ("indet", "the zone name is rewritten for names pytz already knows (%s), matched as a whole; whether the rewritten name means the same zone is not decided" % ", ".join(hits[:4]), st)
            if partial:
                hits = partial
                return ("viol", "the zone name is rewritten (%s) whenever `%s.%s` finds %r in it: that fires inside %d longer names pytz already knows, e.g. %s"
                        % (ast.unparse(st.value)[:50], ast.unparse(recv)[:30], method, pat[:50], len(hits), ", ".join(hits[:4])), st)
    return ("ok", None, None)


def tz_provenance(ctx):
    """{(func fq, name): 'pytz'|'zoneinfo'} by interprocedural propagation."""
    prov = {}
    # seeds
    for f in ctx.repo.all_funcs():
        if f.module.name.startswith("plot_"):
            continue
        for n in ast.walk(f.node):
            if isinstance(n, ast.Assign) and len(n.targets) == 1 and isinstance(n.targets[0], ast.Name):
                v = n.value
                fn = None
                if isinstance(v, ast.Call):
                    fn = _full_name(f.module, v.func)
                elif isinstance(v, ast.Attribute):
                    fn = _full_name(f.module, v)
                if fn in PYTZ_CTORS:
                    prov[(f.fq, n.targets[0].id)] = "pytz"
                elif fn in ZONEINFO_CTORS:
                    prov[(f.fq, n.targets[0].id)] = "zoneinfo"
    # a helper of the package whose every return is a pytz / zoneinfo constructor call is a constructor itself
    for hf in ctx.repo.all_funcs():
        if hf.module.name.startswith("plot_"):
            continue
        rets = [r for r in ast.walk(hf.node) if isinstance(r, ast.Return) and r.value is not None and enclosing_func(r) is hf.node]
        kinds = set()
        for r in rets:
            fn = _full_name(hf.module, r.value.func) if isinstance(r.value, ast.Call) else None
            kinds.add("pytz" if fn in PYTZ_CTORS else ("zoneinfo" if fn in ZONEINFO_CTORS else None))
        if rets and len(kinds) == 1 and None not in kinds:
            HELPER_CTORS[hf.fq] = (hf, [r.value for r in rets], next(iter(kinds)))
    for f in ctx.repo.all_funcs():
        for n in ast.walk(f.node):
            if isinstance(n, ast.Assign) and len(n.targets) == 1 and isinstance(n.targets[0], ast.Name) and isinstance(n.value, ast.Call):
                try:
                    tg = ctx.cg.resolve_callee(f, n.value.func)
                except Exception:
                    tg = []
                if len(tg) == 1 and tg[0] in HELPER_CTORS:
                    prov[(f.fq, n.targets[0].id)] = HELPER_CTORS[tg[0]][2]
    changed = True
    while changed:
        changed = False
        for fq, calls in ctx.cg.calls.items():
            f = ctx.cg.func(fq)
            for call, targets in calls:
                for t in targets:
                    callee = ctx.cg.func(t)
                    params = callee.params
                    if callee.cls is not None and params and params[0] in ("self", "cls"):
                        params = params[1:]
                    binds = []
                    for i, a in enumerate(call.args):
                        if i < len(params):
                            binds.append((params[i], a))
                    for kw in call.keywords:
                        if kw.arg in params:
                            binds.append((kw.arg, kw.value))
                    for p, a in binds:
                        if isinstance(a, ast.Name) and (fq, a.id) in prov:
                            if prov.get((t, p)) != prov[(fq, a.id)]:
                                prov[(t, p)] = prov[(fq, a.id)]
                                changed = True
    return prov


def run(ctx, chk, tier="quick"):
    chk.explanation = (
        "Provenance analysis of time-zone objects (pytz vs zoneinfo) through the load call "
        "tree with the API discipline each library needs; def-use expansion of the epoch that "
        "reaches the staging INSERTs; CFG dominance of the three refusals over the writes they "
        "protect, with redundant static guarantees (CREATE TABLE collision, FK on thru_epoch) "
        "accepted as alternatives. Decides structure only; pytz's tables are trusted."
    )
    chk.assumptions = ["pytz/zoneinfo tables are correct", "SQLite enforces FKs when PRAGMA foreign_keys=1",
                       "DST-ambiguous local times render to the same text in both readings"]
    repo = ctx.repo
    load = ctx.func("load.load_data")
    lflow = Flow.of(load)
    prov = tz_provenance(ctx)
    tree = ctx.cg.reachable(load.fq)

    # ---------------- O1: API discipline on every tz-tainted name in the load tree
    uses = 0
    for fq in sorted(tree):
        f = ctx.cg.func(fq)
        tainted = {n: k for (q, n), k in prov.items() if q == fq}
        if not tainted:
            continue
        for node in ast.walk(f.node):
            if not isinstance(node, ast.Call):
                continue
            # tzinfo= keyword or positional tzinfo of datetime(...)
            fn = _full_name(f.module, node.func) or ""
            for kw in node.keywords:
                if kw.arg == "tzinfo" and isinstance(kw.value, ast.Name) and kw.value.id in tainted:
                    uses += 1
                    kind = tainted[kw.value.id]
                    chk.ob("C11.O1", kind != "pytz", where_of(f, node),
                           "%s object `%s` passed as tzinfo= in %s" % (kind, kw.value.id, ast.unparse(node.func)),
                           "pytz zones are attached with tz.localize(naive), never via tzinfo=",
                           key="%s|%s|tzinfo-kw" % (f.module.relpath, f.qualname),
                           why="replace(tzinfo=pytz_zone) uses the zone's first (LMT) offset: +0:14 for Africa/Lagos")
            if fn.endswith("datetime.datetime") or fn.endswith("datetime.combine") or fn == "datetime.datetime":
                for a in node.args[2:] if fn.endswith("combine") else node.args[7:8]:
                    if isinstance(a, ast.Name) and a.id in tainted and tainted[a.id] == "pytz":
                        uses += 1
                        chk.ob("C11.O1", False, where_of(f, node),
                               "pytz object `%s` passed positionally as tzinfo of %s" % (a.id, fn),
                               "pytz zones are attached with tz.localize(naive)",
                               key="%s|%s|tzinfo-pos" % (f.module.relpath, f.qualname),
                               why="datetime(..., tzinfo=pytz_zone) uses the LMT offset")
            if isinstance(node.func, ast.Attribute) and isinstance(node.func.value, ast.Name) \
                    and node.func.value.id in tainted:
                uses += 1
                meth = node.func.attr
                kind = tainted[node.func.value.id]
                ok = meth in ("localize", "normalize", "utcoffset", "dst", "tzname", "fromutc") if kind == "pytz" else True
                chk.ob("C11.O1", ok, where_of(f, node),
                       "%s zone used as receiver of .%s()" % (kind, meth),
                       "receiver of localize/normalize only", key="%s|%s|recv-%s" % (f.module.relpath, f.qualname, meth))
            for a in node.args:
                if isinstance(a, ast.Name) and a.id in tainted and isinstance(node.func, ast.Attribute):
                    if node.func.attr in ("astimezone", "fromtimestamp", "now"):
                        uses += 1
                        chk.ob("C11.O1", True, where_of(f, node),
                               "zone passed to .%s()" % node.func.attr, "conversion API that calls tz.fromutc",
                               key="%s|%s|arg-%s" % (f.module.relpath, f.qualname, node.func.attr))

    # ---------------- staging loads: generator, epoch expression, same zone
    staging = [s for s in ctx.sites_in(load) if s.stmt is not None and s.stmt.kind == "insert"
               and s.stmt.table.endswith("_staging")]
    chk.floor("staging INSERT sites in load_data", len(staging), 3)
    gens = []
    for s in staging:
        p = s.params_node
        if isinstance(p, ast.Name):
            v = lflow.def_value(p)
            p = v if v is not None else p
        if not isinstance(p, ast.Call):
            chk.indeterminate("C11.O1", where_of(load, s.call), "rows of %s are not produced by a call" % s.stmt.table)
            continue
        tg = ctx.cg.resolve_callee(load, p.func)
        if len(tg) != 1:
            chk.indeterminate("C11.O1", where_of(load, s.call), "row generator of %s not resolvable" % s.stmt.table)
            continue
        gens.append((s, p, ctx.cg.func(tg[0])))
    # same zone object (O2)
    zone_defs = []
    for s, call, g in gens:
        tzarg = None
        params = g.params
        for i, a in enumerate(call.args):
            if i < len(params) and (g.fq, params[i]) in prov:
                tzarg = a
        for kw in call.keywords:
            if (g.fq, kw.arg) in prov:
                tzarg = kw.value
        if tzarg is None or not isinstance(tzarg, ast.Name):
            chk.ob("C11.O2", False, where_of(load, call),
                   "no time-zone object reaches the row generator for %s" % s.stmt.table,
                   "each staging load converts with the declared zone",
                   key="load|zone-missing|%s" % s.stmt.table,
                   why="a naive .timestamp() uses the machine's local zone")
            continue
        d = lflow.reaching_defs(tzarg)
        zone_defs.append((s, tzarg, frozenset(d or ())))
    if zone_defs:
        same = len({d for _, _, d in zone_defs}) == 1 and all(len(d) == 1 for _, _, d in zone_defs)
        chk.ob("C11.O2", same, where_of(load, zone_defs[0][0].call),
               "zone arguments of the %d staging loads reach from definitions %s"
               % (len(zone_defs), sorted({tuple(sorted(d)) for _, _, d in zone_defs})),
               "one zone object for rainfall, evapotranspiration and water level",
               key="load|same-zone", why="series converted with different zones are shifted against each other")
        # the zone is built from the CLI's name
        s0, tzarg, d = zone_defs[0]
        v = lflow.def_value(tzarg)
        okname = False
        desc = ast.unparse(v) if v is not None else "?"
        via_helper = None
        if isinstance(v, ast.Call):
            try:
                tg_ = ctx.cg.resolve_callee(load, v.func)
            except Exception:
                tg_ = []
            if len(tg_) == 1 and tg_[0] in HELPER_CTORS:
                via_helper = HELPER_CTORS[tg_[0]]
        if via_helper is not None:
            hf_, ctor_calls_, _k = via_helper
            verdict = _zone_name_rewrites(ctx, hf_, ctor_calls_)
            if verdict[0] == "viol":
                chk.ob("C11.O2", False, where_of(hf_, verdict[2]), verdict[1],
                       "every IANA zone name is looked up as it is: a rewrite of the declared name may fire only on spellings pytz does not know",
                       key="load|zone-name-rewritten", local=True,
                       why="timestamps are read as local time in the declared zone: for the names the rewrite fires on (Etc/GMT+5 becomes Etc/GMT-5) every epoch is stored hours off, and source_time_zone records the other zone")
            elif verdict[0] == "indet":
                chk.indeterminate("C11.O2", where_of(hf_, verdict[2]), "zone constructed through %s: %s" % (hf_.qualname, verdict[1]))
        if isinstance(v, ast.Call) and v.args:
            a = v.args[0]
            if isinstance(a, ast.Name) and lflow.is_param(a):
                # CLI binds it
                disp, branches = dispatch_branches(ctx)
                br = branches.get("load")
                if br is not None:
                    from ..cli import entry_binding
                    bind, _c = entry_binding(ctx, disp, br, load)
                    bv = (bind or {}).get(a.id)
                    okname = isinstance(bv, ast.Attribute) and bv.attr == "timezone"
                else:
                    okname = True
        chk.ob("C11.O2", okname, where_of(load, enclosing_stmt(tzarg)),
               "zone built as %s" % desc, "zone constructed from the --timezone argument",
               key="load|zone-from-cli", why="a hard-coded zone ignores the declared one")

    # epoch expression in each generator (O1 continued)
    seen_gen = set()
    for s, call, g in gens:
        if g.fq in seen_gen:
            continue
        seen_gen.add(g.fq)
        gflow = Flow.of(g)
        yields = [n for n in ast.walk(g.node) if isinstance(n, ast.Yield) and enclosing_func(n) is g.node]
        if not yields:
            chk.indeterminate("C11.O1", where_of(g, g.node), "row generator has no yield")
            continue
        for y in yields:
            first = _first_element(y.value)
            if first is None:
                chk.indeterminate("C11.O1", where_of(g, y), "cannot identify the epoch element of the yielded row")
                continue
            ex = gflow.expand(first)
            core = ex
            while isinstance(core, ast.Call) and isinstance(core.func, ast.Name) and core.func.id in ("int", "round") and len(core.args) == 1:
                core = core.args[0]
            where = where_of(g, y)
            if isinstance(core, ast.Call) and isinstance(core.func, ast.Attribute) and core.func.attr == "timestamp" and not core.args:
                recv = core.func.value
                rtxt = ast.unparse(recv)
                # receiver must be tz.localize(strptime(...)) for pytz, or carry tzinfo for zoneinfo
                ok = False
                why = ""
                if isinstance(recv, ast.Call) and isinstance(recv.func, ast.Attribute) and recv.func.attr == "localize" \
                        and isinstance(recv.func.value, ast.Name) and prov.get((g.fq, recv.func.value.id)) is None:
                    chk.indeterminate("C11.O1", where, "the zone object `%s` that localizes the timestamp cannot be traced to pytz.timezone / zoneinfo.ZoneInfo" % recv.func.value.id)
                    continue
                if isinstance(recv, ast.Call) and isinstance(recv.func, ast.Attribute) and recv.func.attr == "localize" \
                        and isinstance(recv.func.value, ast.Name) and prov.get((g.fq, recv.func.value.id)) == "pytz":
                    inner = recv.args[0] if recv.args else None
                    ok = inner is not None and "strptime" in ast.unparse(inner)
                    if not ok:
                        why = "argument of localize is not the parsed timestamp"
                elif isinstance(recv, ast.Call) and isinstance(recv.func, ast.Attribute) and recv.func.attr == "replace":
                    kws = {k.arg: k.value for k in recv.keywords}
                    tzv = kws.get("tzinfo")
                    if isinstance(tzv, ast.Name) and prov.get((g.fq, tzv.id)) == "zoneinfo":
                        ok = True
                    else:
                        why = "replace(tzinfo=...) with a non-zoneinfo object"
                else:
                    why = "receiver is not a localized datetime"
                chk.ob("C11.O1", ok, where, "stored epoch = int((%s).timestamp())" % rtxt,
                       "epoch is .timestamp() of tz.localize(strptime(text, format))",
                       key="%s|%s|epoch-expr" % (g.module.relpath, g.qualname),
                       why="a naive or LMT-offset datetime converts to a different UTC instant " + why)
            elif _is_offset_form(g, gflow, core, prov):
                chk.ob("C11.O1", True, where, "stored epoch = %s" % ast.unparse(core)[:110],
                       "(naive - utcoffset of the localized datetime - 1970-01-01).total_seconds()",
                       key="%s|%s|epoch-expr" % (g.module.relpath, g.qualname))
            elif isinstance(core, ast.BinOp):
                chk.ob("C11.O1", False, where, "stored epoch = %s" % ast.unparse(ex),
                       "epoch is the bare .timestamp() of the localized datetime",
                       key="%s|%s|epoch-expr" % (g.module.relpath, g.qualname),
                       why="arithmetic on the timestamp moves every instant")
            else:
                chk.indeterminate("C11.O1", where, "unrecognised epoch expression %s" % ast.unparse(ex)[:120])
        # the zone's offset must be looked up for every row: inside one iteration of the row loop no path
        # from the loop header to the yield avoids the statement that localizes the row's own datetime
        for y in yields:
            loop = None
            a = getattr(y, "parent", None)
            while a is not None and a is not g.node:
                if isinstance(a, (ast.For, ast.While)):
                    loop = a
                    break
                a = getattr(a, "parent", None)
            locs = [c for c in ast.walk(g.node) if isinstance(c, ast.Call) and isinstance(c.func, ast.Attribute)
                    and ((c.func.attr == "localize" and isinstance(c.func.value, ast.Name) and (g.fq, c.func.value.id) in prov)
                         or (c.func.attr == "replace" and any(k.arg == "tzinfo" for k in c.keywords)))]
            if loop is None or not locs:
                continue
            cfg = gflow.cfg
            h = cfg.node(loop)
            yn = cfg.node_containing(y)
            members = cfg.loop_members.get(h, set())
            outside = set(cfg.nodes()) - members
            lnodes = {cfg.node_containing(c) for c in locs}
            per_row = yn is not None and yn not in cfg.reachable_from(h, avoiding=outside | lnodes)
            chk.ob("C11.O1", per_row, where_of(g, locs[0]),
                   "the row's datetime is localized %s" % ("on every iteration before the row is produced" if per_row else "only on some iterations (a path from the loop header to the yield avoids it)"),
                   "each timestamp is converted with the offset of its own instant",
                   key="%s|%s|localize-per-row" % (g.module.relpath, g.qualname),
                   why="an offset cached from an earlier row is stale across a DST transition: later rows of that day are stored one hour off")
        # O3: only needed if the format can parse fractional seconds
        fmt = None
        for n in ast.walk(g.node):
            if isinstance(n, ast.Call) and isinstance(n.func, ast.Attribute) and n.func.attr == "strptime" and len(n.args) >= 2:
                fmt = const_str(n.args[1], g.module)
        if fmt is None:
            chk.indeterminate("C11.O3", where_of(g, g.node), "strptime format not a resolvable constant")
        else:
            chk.ob("C11.O1", all(tok in fmt for tok in ("%Y", "%m", "%d", "%H", "%M", "%S")), where_of(g, g.node),
                   "strptime format %r" % fmt, "format carries year, month, day, 24-hour, minute, second fields",
                   key="%s|%s|format" % (g.module.relpath, g.qualname),
                   why="a dropped or 12-hour field maps distinct texts to one instant")
            if "%f" in fmt:
                gs = [x for x in guards_of(g) if "is_integer" in ast.unparse(x.expr) or "% 1" in ast.unparse(x.expr)]
                okg = bool(gs) and all(gflow.cfg.dominates(gs[0].node, gflow.cfg.node_containing(y)) for y in yields)
                chk.ob("C11.O3", okg, where_of(g, g.node), "format parses fractions; whole-second guard %s" % ("dominates the yield" if okg else "missing"),
                       "non-integer seconds are refused before a row is produced", key="%s|%s|whole-seconds" % (g.module.relpath, g.qualname))
            else:
                chk.info("C11.O3", where_of(g, g.node), "format %r cannot parse fractional seconds" % fmt,
                         "whole-second refusal is unreachable; not required")

    shifted_truncations(ctx, chk, "C11.O1", ("load",), "load")
    # ---------------- O4 (i): already populated
    _already_populated(ctx, chk, load, lflow)
    # ---------------- O4 (ii): non-uniform step
    _nonuniform(ctx, chk, load, lflow)
    _load_target(ctx, chk, load)
    from ..sqlrules import conflict_clauses
    conflict_clauses(ctx, chk, "C11.O4", ("load",), "load",
                     "a rainfall, ET or water-level file in which a timestamp occurs twice (a zero-length step) is merged silently instead of refused: the staging tables' primary key is what refuses it")
    # ---------------- O4 (iii): missing ET
    _missing_et(ctx, chk, load)
    # ---------------- no swallowing try around the load step or inside it
    for fq in sorted(tree):
        f = ctx.cg.func(fq)
        for n in ast.walk(f.node):
            if isinstance(n, ast.Try) and enclosing_func(n) is f.node:
                for h in n.handlers:
                    # only a try body that can raise a refusal or write: a `raise`, a call of a function of the package, an
                    # SQL call.  (A body of library calls only -- a second strptime format tried on ValueError -- has no refusal to swallow.)
                    def _refusing(x):
                        if isinstance(x, ast.Raise):
                            return True
                        if not isinstance(x, ast.Call):
                            return False
                        if isinstance(x.func, ast.Attribute) and x.func.attr in ("execute", "executemany", "executescript", "commit"):
                            return True
                        try:
                            return bool(ctx.cg.resolve_callee(f, x.func))
                        except Exception:
                            return True
                    body_has_raise_or_write = any(_refusing(x) for st in n.body for x in ast.walk(st))
                    if body_has_raise_or_write and not always_raises(h.body):
                        chk.ob("C11.O4", False, where_of(f, h),
                               "except %s in the load call tree can complete normally" % (ast.unparse(h.type) if h.type else "<bare>"),
                               "refusals propagate to the caller", key="%s|%s|swallow" % (f.module.relpath, f.qualname),
                               why="a swallowed refusal lets the load continue and commit")
    chk.floor("time-zone API uses classified", uses, 2)


def shifted_truncations(ctx, chk, rule, modules, key_prefix):
    """`int(E + 0.5)` on an epoch: int() truncates toward zero, so this is rounding only for E >= 0.  Every instant before
    1970 has a negative epoch and is stored one second late.  Zero instances on the pinned tree; positive control."""
    def find(fnode, flow=None):
        out = []
        for n in ast.walk(fnode):
            if isinstance(n, ast.Call) and isinstance(n.func, ast.Name) and n.func.id == "int" and len(n.args) == 1 and isinstance(n.args[0], ast.BinOp) \
                    and isinstance(n.args[0].op, (ast.Add, ast.Sub)):
                b = n.args[0]
                c, e = (b.right, b.left) if isinstance(b.right, ast.Constant) else ((b.left, b.right) if isinstance(b.left, ast.Constant) and isinstance(b.op, ast.Add) else (None, None))
                if c is None or not isinstance(c.value, float) or c.value == int(c.value):
                    continue
                ex = flow.expand(e) if flow is not None else e
                txt = ast.unparse(ex)
                if "timestamp(" in txt or "total_seconds(" in txt or "epoch" in txt.lower():
                    out.append((n, txt))
        return out
    k = 0
    for modname in modules:
        m = ctx.repo.modules.get(modname)
        if m is None:
            continue
        for q, fi in sorted(m.functions.items()):
            k += 1
            for n, txt in find(fi.node, Flow.of(fi)):
                chk.ob(rule, False, where_of(fi, n), "%s: int() truncates toward zero, so adding a half rounds only non-negative epochs" % ast.unparse(n)[:70],
                       "the stored epoch is the whole-second instant itself (int of a whole number), or rounding that is symmetric about zero (math.floor(x + 0.5), round)",
                       key="%s|shifted-truncation|%s" % (key_prefix, q), local=True,
                       why="every instant before 1970-01-01T00:00:00Z has a negative epoch: int(-5 + 0.5) is -4, so those instants are stored one second late and a record that straddles 1970 gets a step of step-1 s")
    ctl = ast.parse("def g(t):\n    return int(t.timestamp() + 0.5)\ndef h(t):\n    return int(t.timestamp())\n")
    if len(find(ctl.body[0])) != 1 or find(ctl.body[1]):
        chk.errors.append("%s positive control (shifted truncation) did not behave" % rule)
    chk.count("%s functions scanned for int(epoch + fraction)" % key_prefix, k)


def _is_offset_form(g, gflow, core, prov):
    """(naive - offset - EPOCH0).total_seconds() with offset from tz.localize(naive).utcoffset()."""
    if not (isinstance(core, ast.Call) and isinstance(core.func, ast.Attribute) and core.func.attr == "total_seconds" and not core.args):
        return False
    recv = core.func.value
    terms = []

    def flat(n, sign):
        if isinstance(n, ast.BinOp) and isinstance(n.op, ast.Sub):
            flat(n.left, sign)
            flat(n.right, -sign)
        elif isinstance(n, ast.BinOp) and isinstance(n.op, ast.Add):
            flat(n.left, sign)
            flat(n.right, sign)
        else:
            terms.append((sign, n))

    flat(recv, 1)
    if len(terms) != 3:
        return False
    pos = [n for sg, n in terms if sg > 0]
    neg = [n for sg, n in terms if sg < 0]
    if len(pos) != 1 or len(neg) != 2:
        return False
    naive_ok = "strptime" in ast.unparse(gflow.expand(pos[0]))
    off_ok = epoch0_ok = False
    for n in neg:
        txt = ast.unparse(n)
        # module constant datetime(1970, 1, 1)
        v = g.module.constants.get(n.id) if isinstance(n, ast.Name) else n
        if v is not None and "1970, 1, 1" in ast.unparse(v) and "tzinfo" not in ast.unparse(v):
            epoch0_ok = True
            continue
        # offset: some reaching definition is <tz>.localize(<naive>).utcoffset()
        if isinstance(n, ast.Name):
            for d in gflow.reaching_defs(n) or ():
                st = gflow.cfg.stmt_of.get(d)
                if isinstance(st, ast.Assign):
                    t = ast.unparse(st.value)
                    if ".localize(" in t and t.endswith(".utcoffset()"):
                        c = st.value.func.value if isinstance(st.value, ast.Call) else None
                        if isinstance(c, ast.Call) and isinstance(c.func.value, ast.Name) and prov.get((g.fq, c.func.value.id)) == "pytz":
                            off_ok = True
        elif ".localize(" in txt and txt.endswith(".utcoffset()"):
            off_ok = True
    return naive_ok and off_ok and epoch0_ok


def _first_element(v):
    """First element of a yielded row expression like [a] + rest / (a, ...)"""
    if v is None:
        return None
    if isinstance(v, (ast.List, ast.Tuple)) and v.elts:
        return v.elts[0]
    if isinstance(v, ast.BinOp) and isinstance(v.op, ast.Add):
        return _first_element(v.left)
    return None


def _write_nodes(ctx, f, flow):
    """CFG nodes of f that write (directly or through callees)."""
    from .c20 import _write_kind, summaries

    tree = sorted(ctx.cg.reachable(f.fq))
    summ = summaries(ctx, tree)
    out = {}
    for call, targets in ctx.cg.calls.get(f.fq, []):
        n = flow.cfg.node_containing(call)
        if n is None:
            continue
        w = _write_kind(ctx, call)
        s = ctx.site_of_call(call)
        if s is not None and s.method == "executescript":
            w = "executescript(schema)"
        for t in targets:
            if t != f.fq and summ.get(t, (False, False))[0]:
                w = w or "call %s" % t
        if w:
            out[n] = (call, w)
    return out


def _already_populated(ctx, chk, load, lflow):
    writes = _write_nodes(ctx, load, lflow)
    gs = []
    for g in guards_of(load):
        calls = slice_calls(lflow, g.expr, 4)
        reads_master = False
        for c in calls:
            s = ctx.site_of_call(c)
            if s is not None and s.stmt is not None and s.stmt.kind == "select" and \
                    stmt_reads(s.stmt) & {"sqlite_master", "sqlite_schema", "sqlite_temp_master"}:
                reads_master = True
        if reads_master:
            gs.append(g)
    script = [n for n, (c, w) in writes.items() if w.startswith("executescript")]
    inserts = [n for n, (c, w) in writes.items() if not w.startswith("executescript")]
    # second static guarantee: CREATE TABLE without IF NOT EXISTS executed before any insert
    collision = bool(script) and all(lflow.cfg.dominates(script[0], n) for n in inserts) and \
        all(not getattr(t, "if_not_exists", False) for t in ctx.schema.tables.values())
    if gs:
        g = gs[0]
        nf = nonempty_nf(g.expr, g.negated)
        pol_ok = nf is not None and nf[1] is True
        dom_ok = all(lflow.cfg.dominates(g.node, n) for n in writes)
        chk.ob("C11.O4", (pol_ok and dom_ok) or collision, where_of(load, g.stmt),
               "guard `%s` (raises when %s%s): polarity %s, dominates %d/%d writes%s"
               % (g.kind, "not " if g.negated else "", ast.unparse(g.expr), "ok" if pol_ok else "WRONG",
                  sum(1 for n in writes if lflow.cfg.dominates(g.node, n)), len(writes),
                  "; CREATE TABLE collision also refuses" if collision else ""),
               "a populated dataset is refused before the schema script or any INSERT runs",
               key="load|already-populated",
               why="loading twice would merge two datasets in the staging tables")
    else:
        chk.ob("C11.O4", collision, where_of(load, load.node),
               "no guard on sqlite_master; CREATE TABLE collision %s" % ("refuses a populated file" if collision else "not guaranteed either"),
               "a populated dataset is refused before any INSERT runs", key="load|already-populated",
               why="loading twice would merge two datasets in the staging tables")
    chk.count("load_write_nodes", len(writes))


def _load_target(ctx, chk, load):
    """C11.O4 (i), premise: both refusals of an already populated dataset (the sqlite_master guard and the CREATE TABLE
    collision) look at the connection load_data is given.  In the CLI that connection must be the data file itself
    (sqlite3.connect(args.<db>)), and nothing may copy another database over the file (Connection.backup replaces its
    destination wholesale)."""
    disp, branches = dispatch_branches(ctx)
    br = branches.get("load")
    if br is None:
        chk.indeterminate("C11.O4", where_of(disp, disp.node), "dispatch branch of the load command not found")
        return
    from ..cli import entry_binding
    try:
        bind, call = entry_binding(ctx, disp, br, load)
    except Exception:
        bind, call = None, None
    conn_param = load.params[0] if load.params else "connection"
    cv = (bind or {}).get(conn_param)
    if cv is None:
        chk.indeterminate("C11.O4", where_of(disp, br), "the connection handed to load_data by the CLI is not read")
        return
    # resolve the name to the `with sqlite3.connect(X) as name` / `name = sqlite3.connect(X)` that binds it
    src = None
    if isinstance(cv, ast.Name):
        for n in ast.walk(br):
            if isinstance(n, ast.With):
                for it in n.items:
                    if isinstance(it.optional_vars, ast.Name) and it.optional_vars.id == cv.id:
                        src = it.context_expr
            if isinstance(n, ast.Assign) and len(n.targets) == 1 and isinstance(n.targets[0], ast.Name) and n.targets[0].id == cv.id:
                src = n.value
    else:
        src = cv
    while isinstance(src, ast.Call) and (dotted_name(src.func) or "").split(".")[-1] == "closing" and src.args:
        src = src.args[0]
    if not (isinstance(src, ast.Call) and (dotted_name(src.func) or "").endswith("connect") and src.args):
        chk.indeterminate("C11.O4", where_of(disp, br), "the connection handed to load_data (%s) is not bound to a sqlite3.connect call in the dispatch" % ast.unparse(cv)[:40])
        return
    target = src.args[0]
    is_cli_path = isinstance(target, ast.Attribute) and isinstance(target.value, ast.Name)
    chk.ob("C11.O4", is_cli_path, where_of(disp, src), "load_data works on sqlite3.connect(%s)" % ast.unparse(target)[:50],
           "the data file named on the command line", key="cli|load|target-connection",
           why="the refusal of an already populated dataset inspects the connection it is given: on a fresh in-memory or temporary database it never fires")
    backups = [c for c in ast.walk(br) if isinstance(c, ast.Call) and isinstance(c.func, ast.Attribute) and c.func.attr in ("backup", "iterdump", "deserialize")]
    chk.ob("C11.O4", not backups, where_of(disp, backups[0] if backups else br),
           ("the load command calls %s" % ast.unparse(backups[0])[:60]) if backups else "the load command copies no database over the data file",
           "nothing replaces the content of the data file wholesale", key="cli|load|no-overwrite",
           why="Connection.backup replaces the destination database: a second load silently overwrites the first dataset instead of being refused")


def _nonuniform(ctx, chk, load, lflow):
    target_tables = ("time_grid", "grid_time")
    found = False
    for fq in sorted(ctx.cg.reachable(load.fq)):
        f = ctx.cg.func(fq)
        sites = [s for s in ctx.sites_in(f) if s.stmt is not None and s.stmt.kind == "insert" and s.stmt.table in target_tables]
        if not sites:
            continue
        found = True
        flow = Flow.of(f)
        wn = [flow.cfg.node_containing(s.call) for s in sites]
        cands = []
        for g in guards_of(f, include_assert=False):
            txt = " ".join(ast.unparse(e) for e in back_slice(flow, g.expr, 3))
            if "diff" in txt:
                cands.append(g)
        # FK fallback
        fk = any(cols == ["thru_epoch"] and t == "grid_time" for cols, t, _ in ctx.schema.tables["rainfall_intensity"].fks) \
            if "rainfall_intensity" in ctx.schema.tables else False
        pragma = any(st.kind == "pragma" and st.name == "foreign_keys" and str(st.value) in ("1", "ON", "on", "TRUE", "true")
                     for s in ctx.sites_in(load) for st in s.statements)
        # ... which refuses a non-uniform grid only because the stored end of a step is (start + the one step): on a
        # non-uniform grid some start + step is not a grid time.  An end taken from the grid itself always satisfies the key.
        ends_by_step = None
        for fq2 in sorted(ctx.cg.reachable(load.fq)):
            for s2 in ctx.sites_in(ctx.cg.func(fq2)):
                if s2.stmt is not None and s2.stmt.kind == "insert" and s2.stmt.table == "rainfall_intensity" and s2.stmt.select is not None \
                        and "thru_epoch" in s2.stmt.columns and len(s2.stmt.select.columns) == len(s2.stmt.columns):
                    e_ = s2.stmt.select.columns[s2.stmt.columns.index("thru_epoch")][0]
                    ends_by_step = e_[0] == "bin" and e_[1] == "+" and {e_[2][0], e_[3][0]} == {"col", "param"}
        fallback = fk and pragma and ends_by_step is True
        fallback_unread = fk and pragma and ends_by_step is None
        ok = False
        desc = "no guard on the differences of the grid times"
        # guards that look at the grid without differencing it
        if not cands:
            gridnames = set()
            for s_ in sites:
                if s_.stmt.table == "grid_time" and s_.params_node is not None:
                    for n_ in ast.walk(s_.params_node):
                        if isinstance(n_, ast.Name):
                            dv_ = flow.def_value(n_, mutable_ok=True) if hasattr(flow, "def_value") else None
                            if isinstance(dv_, (ast.ListComp, ast.List, ast.Call)) or n_.id in f.params:
                                gridnames.add(n_.id)
            for g in guards_of(f, include_assert=False):
                if not all(flow.cfg.dominates(g.node, n) for n in wn):
                    continue
                sl = list(back_slice(flow, g.expr, 3))
                uses = [n_ for e_ in sl for n_ in ast.walk(e_) if isinstance(n_, ast.Name) and n_.id in gridnames and isinstance(n_.ctx, ast.Load)]
                if not uses:
                    continue
                ends_only = True
                for u in uses:
                    pu = getattr(u, "parent", None)
                    const_sub = isinstance(pu, ast.Subscript) and pu.value is u and not isinstance(pu.slice, ast.Slice) and \
                        (isinstance(pu.slice, ast.Constant) or (isinstance(pu.slice, ast.UnaryOp) and isinstance(pu.slice.operand, ast.Constant)))
                    is_len = isinstance(pu, ast.Call) and isinstance(pu.func, ast.Name) and pu.func.id == "len"
                    grows = isinstance(pu, ast.Attribute) and pu.value is u and pu.attr in ("append", "extend", "insert")    # the list is extended, not read
                    if not (const_sub or is_len or grows):
                        ends_only = False
                if ends_only and not fallback and not fallback_unread:
                    chk.ob("C11.O4", False, where_of(f, g.stmt),
                           "the only guard on the grid, `%s`, reads fixed elements of it and its length: an interior step of another size is not seen" % ast.unparse(g.stmt.test)[:90],
                           "more than one distinct rainfall step is refused before time_grid / grid_time are written",
                           key="load|nonuniform-step",
                           why="a non-uniform grid would be stored and every later step length would be wrong")
                    return
                if not ends_only and not fallback:
                    chk.indeterminate("C11.O4", where_of(f, g.stmt), "a guard on the grid times of a shape this rule does not read: %s" % ast.unparse(g.stmt.test)[:100])
                    return
        if not cands and fallback_unread:
            chk.indeterminate("C11.O4", where_of(f, sites[0].call), "no differencing guard, and whether the foreign key on thru_epoch refuses a non-uniform grid depends on how thru_epoch is computed, which is not read")
            return
        for g in cands:
            shape = _uniformity_shape(flow, g)
            dom = all(flow.cfg.dominates(g.node, n) for n in wn)
            desc = "guard raises when %s%s: %s; dominates %d/%d grid INSERTs" % (
                "not " if g.negated else "", ast.unparse(g.expr), shape or "unrecognised shape",
                sum(1 for n in wn if flow.cfg.dominates(g.node, n)), len(wn))
            if shape == "UNRECOGNISED":
                chk.indeterminate("C11.O4", where_of(f, g.stmt), "uniformity guard of unrecognised shape: %s" % ast.unparse(g.stmt.test)[:100])
                return
            if shape and shape.startswith("ok") and dom:
                ok = True
                break
        chk.ob("C11.O4", ok or fallback, where_of(f, cands[0].stmt if cands else sites[0].call),
               desc + ("; FK thru_epoch->grid_time with foreign_keys=1 also refuses" if fallback else ""),
               "more than one distinct rainfall step is refused before time_grid / grid_time are written",
               key="load|nonuniform-step",
               why="a non-uniform grid would be stored and every later step length would be wrong")
    if not found:
        chk.indeterminate("C11.O4", where_of(load, load.node), "no INSERT into time_grid/grid_time in the load tree")


def _uniformity_shape(flow, g):
    """Recognise `len(set(diff)) != 1` / `> 1` / `min != max`; returns
    'ok: ...', 'WRONG: ...' or 'UNRECOGNISED'."""
    e, neg = g.expr, g.negated
    # (d != d[0]).any()  /  not (d == d[0]).all()  somewhere in the (expanded) test: decide by three-valued evaluation
    # whether "some step differs from the first" forces the raise
    ex = flow.expand(e)

    def differs_any(n):
        """+1: true iff some element differs from the first; -1: true iff all equal the first; 0: neither"""
        if isinstance(n, ast.Call) and isinstance(n.func, ast.Attribute) and n.func.attr in ("any", "all") and not n.args \
                and isinstance(n.func.value, ast.Compare) and len(n.func.value.ops) == 1:
            c = n.func.value
            l, r = c.left, c.comparators[0]
            if isinstance(r, ast.Subscript) and isinstance(r.slice, ast.Constant) and r.slice.value == 0 and ast.dump(r.value) == ast.dump(l) and "diff" in ast.unparse(l):
                if isinstance(c.ops[0], ast.NotEq) and n.func.attr == "any":
                    return 1
                if isinstance(c.ops[0], ast.Eq) and n.func.attr == "all":
                    return -1
        return 0

    marks = [n for n in ast.walk(ex) if differs_any(n)]
    if marks:
        def ev(n):
            d = differs_any(n)
            if d:
                return d == 1          # evaluated under "some step differs"
            if isinstance(n, ast.UnaryOp) and isinstance(n.op, ast.Not):
                v = ev(n.operand)
                return None if v is None else not v
            if isinstance(n, ast.BoolOp):
                vals = [ev(v) for v in n.values]
                if isinstance(n.op, ast.And):
                    return False if False in vals else (None if None in vals else True)
                return True if True in vals else (None if None in vals else False)
            return None
        v = ev(ex)
        if v is None:
            return "UNRECOGNISED"
        raises = v != neg
        return "ok: raises when some step differs from the first" if raises else "WRONG: does not raise when a step differs from the first"
    if isinstance(e, ast.Compare) and len(e.ops) == 1:
        l, op, r = e.left, type(e.ops[0]), e.comparators[0]
        lt, rt = ast.unparse(flow.expand(l)), ast.unparse(flow.expand(r))
        if isinstance(r, ast.Constant) and isinstance(r.value, int) and lt.startswith("len("):
            c = r.value
            distinct = ("set(" in lt or "unique(" in lt) and "diff" in lt
            if not distinct:
                return "UNRECOGNISED"
            raises_when_multi = (
                (op is ast.NotEq and c == 1) or (op is ast.Gt and c == 1) or (op is ast.GtE and c == 2)
            )
            if neg:
                raises_when_multi = (op is ast.Eq and c == 1) or (op is ast.LtE and c == 1) or (op is ast.Lt and c == 2)
            return "ok: raises when the number of distinct steps is not 1" if raises_when_multi \
                else "WRONG: does not raise for two or more distinct steps"
        if ("min" in lt and "max" in rt) or ("max" in lt and "min" in rt):
            good = (op is ast.NotEq and not neg) or (op is ast.Eq and neg) or (op is ast.Lt and not neg and "min" in lt) \
                or (op is ast.Gt and not neg and "max" in lt)
            return "ok: raises when min step differs from max step" if good else "WRONG: min/max test does not refuse"
    return "UNRECOGNISED"


def _missing_et(ctx, chk, load, rule="C11.O4"):
    found = False
    for fq in sorted(ctx.cg.reachable(load.fq)):
        f = ctx.cg.func(fq)
        sites = [s for s in ctx.sites_in(f) if s.stmt is not None and s.stmt.kind == "insert" and s.stmt.table == "evapotranspiration"]
        if not sites:
            continue
        found = True
        flow = Flow.of(f)
        wn = [flow.cfg.node_containing(s.call) for s in sites]
        best = None
        for g in guards_of(f, include_assert=True):
            calls = slice_calls(flow, g.expr, 4)
            # also: cursor.fetchall() after an execute -- find the nearest preceding execute on the same receiver
            qsites = []
            for c in calls:
                s = ctx.site_of_call(c)
                if s is not None:
                    qsites.append(s)
                elif isinstance(c.func, ast.Attribute) and c.func.attr in ("fetchall", "fetchone", "fetchmany"):
                    qs = _preceding_execute(ctx, f, flow, c)
                    if qs is not None:
                        qsites.append(qs)
            for s in qsites:
                if s.stmt is not None and s.stmt.kind == "select" and {"grid_time", "evapotranspiration_staging"} <= stmt_reads(s.stmt):
                    best = (g, s)
        compares = [s_ for s_ in ctx.sites_in(f) if s_.stmt is not None and s_.stmt.kind == "select"
                    and {"grid_time", "evapotranspiration_staging"} <= stmt_reads(s_.stmt)]
        untraced = [g_ for g_ in guards_of(f, include_assert=True)]
        if best is None and compares and untraced:
            chk.indeterminate(rule, where_of(f, compares[0].call), "a query compares grid_time with evapotranspiration_staging, but no raising guard could be traced to its result")
            continue
        if best is None:
            chk.ob(rule, False, where_of(f, sites[0].call), "no refusal derived from a grid_time / evapotranspiration_staging comparison",
                   "grid instants without ET are refused before evapotranspiration is written",
                   key="load|missing-et", why="the copy would silently produce fewer ET rows than grid steps")
            continue
        g, s = best
        anti = _is_antijoin(s.stmt)
        nf = nonempty_nf(g.expr, g.negated)
        pol_ok = nf is not None and nf[1] is True
        dom = all(flow.cfg.dominates(g.node, n) for n in wn)
        if anti is None:
            chk.indeterminate(rule, where_of(f, s.call), "missing-ET query is not a recognisable anti-join")
            continue
        # any further restriction of the grid instants examined must not exclude a step that gets an ET row
        restricted = None
        ins_bound = None
        for s_ins in sites:
            q_ins = s_ins.stmt.select
            if q_ins is not None:
                for pr in conjuncts(q_ins.where):
                    if pr[0] == "bin" and pr[1] in ("<=", "<") and pr[2][0] == "col" and pr[2][2] == "epoch" and pr[3][0] == "param":
                        pn_ = s_ins.params_node
                        if isinstance(pn_, ast.Tuple) and isinstance(pr[3][1], int) and pr[3][1] < len(pn_.elts):
                            ins_bound = (pr[1], ast.unparse(pn_.elts[pr[3][1]]))
        for pr in conjuncts(s.stmt.where):
            if pr[0] == "bin" and pr[1] in ("<", "<=", ">", ">=", "=", "!=") and pr[2][0] == "col" and pr[2][2] == "epoch" and pr[3][0] == "param":
                pn_ = s.params_node
                btxt = ast.unparse(pn_.elts[pr[3][1]]) if isinstance(pn_, ast.Tuple) and isinstance(pr[3][1], int) and pr[3][1] < len(pn_.elts) else "?"
                restricted = (pr[1], btxt)
        cover_ok = True
        cdesc = "all grid instants are examined"
        if restricted is not None:
            # acceptable: exactly the INSERT's own bound, or a weaker one
            cover_ok = ins_bound is not None and restricted == ins_bound
            if not cover_ok and ins_bound is not None and restricted[0] == "<" and ins_bound[0] == "<=" \
                    and restricted[1].replace("-2", "-1") == ins_bound[1].replace("-2", "-1") and restricted[1].endswith("[-1]"):
                cover_ok = True
            cdesc = "grid instants examined: epoch %s %s; ET rows are inserted for epoch %s %s" % (restricted + (ins_bound or ("?", "?")))
        chk.ob(rule, cover_ok, where_of(f, s.call), cdesc,
               "every grid step that gets an ET row is examined for missing ET", key="load|missing-et-coverage",
               why="ET missing exactly at an unexamined step is accepted silently: evapotranspiration ends up one row short")
        # the anti-join must run on every path to the guard: its query dominates the guard, and no other binding of the
        # guard's subject (an empty default on a path that skips the query) reaches it
        qnode = flow.cfg.node_containing(s.call)
        q_dom = qnode is not None and flow.cfg.dominates(qnode, g.node)
        if not q_dom:
            skipped_when = None
            a_ = getattr(enclosing_stmt(s.call), "parent", None)
            while a_ is not None and a_ is not f.node:
                if isinstance(a_, ast.If):
                    skipped_when = ast.unparse(a_.test)[:70]
                    break
                a_ = getattr(a_, "parent", None)
            chk.ob(rule, False, where_of(f, s.call),
                   "the anti-join runs only on some paths to the guard%s; on the others `%s` is decided from a default" % (
                       (" (inside `if %s`)" % skipped_when) if skipped_when else "", ast.unparse(g.expr)[:40]),
                   "every grid instant is examined for missing ET on every path before evapotranspiration is written",
                   key="load|missing-et-every-path",
                   why="a shortcut test that lets the examination be skipped (a row count over a span, a flag) accepts inputs in which an ET row is missing at a grid instant: the step is silently left without ET")
        chk.ob(rule, anti and pol_ok and dom, where_of(f, g.stmt),
               "guard raises when %s%s; query is %s; dominates %d/%d ET INSERTs"
               % ("not " if g.negated else "", ast.unparse(g.expr),
                  "anti-join grid_time \\ evapotranspiration_staging on epoch" if anti else "NOT the anti-join on epoch",
                  sum(1 for n in wn if flow.cfg.dominates(g.node, n)), len(wn)),
               "any grid instant without an ET row raises before evapotranspiration is written",
               key="load|missing-et", why="the copy would silently produce fewer ET rows than grid steps")
    if not found:
        chk.indeterminate(rule, where_of(load, load.node), "no INSERT into evapotranspiration in the load tree")


def _preceding_execute(ctx, f, flow, fetch_call):
    """Nearest SQL site on the same receiver that dominates the fetch."""
    recv = dotted_name(fetch_call.func.value)
    if isinstance(fetch_call.func.value, ast.Call):
        s = ctx.site_of_call(fetch_call.func.value)
        if s is not None:
            return s
    n = flow.cfg.node_containing(fetch_call)
    best = None
    for s in ctx.sites_in(f):
        if s.receiver() == recv:
            sn = flow.cfg.node_containing(s.call)
            if sn is not None and n is not None and flow.cfg.dominates(sn, n) and sn != n:
                if best is None or flow.cfg.dominates(flow.cfg.node_containing(best.call), sn):
                    best = s
    return best


def _is_antijoin(sel):
    """grid_time rows with no evapotranspiration_staging row of equal epoch."""
    src = {s.alias: s.table for s in sel.sources}
    for c in conjuncts(sel.where):
        neg = False
        e = c
        while e[0] == "un" and e[1] == "NOT":
            neg = not neg
            e = e[2]
        if e[0] == "exists" and neg:
            sub = e[1]
            inner = {s.alias: s.table for s in sub.sources}
            if "evapotranspiration_staging" in inner.values() and "grid_time" in src.values():
                for cc in conjuncts(sub.where):
                    if cc[0] == "bin" and cc[1] == "=" and cc[2][0] == "col" and cc[3][0] == "col":
                        cols = {cc[2][2], cc[3][2]}
                        tabs = {inner.get(cc[2][1]) or src.get(cc[2][1]), inner.get(cc[3][1]) or src.get(cc[3][1])}
                        if cols == {"epoch"} and tabs == {"evapotranspiration_staging", "grid_time"}:
                            return True
                return False
        # grid_time.epoch NOT IN (SELECT epoch FROM evapotranspiration_staging)
        if e[0] == "inlist" and neg and e[1][0] == "col" and e[1][2] == "epoch" and len(e[2]) == 1 and e[2][0][0] == "subq" and "grid_time" in src.values():
            sub = e[2][0][1]
            if {x.table for x in sub.sources} == {"evapotranspiration_staging"} and len(sub.columns) == 1 and sub.columns[0][0][0] == "col" \
                    and sub.columns[0][0][2] == "epoch" and sub.where is None:
                return True
            return False
    # SELECT epoch FROM grid_time ... EXCEPT SELECT epoch FROM evapotranspiration_staging
    if len(getattr(sel, "compound", [])) == 1 and sel.compound[0][0] == "EXCEPT" and "grid_time" in src.values():
        sub = sel.compound[0][1]
        def _epoch_only(q):
            return len(q.columns) == 1 and q.columns[0][0][0] == "col" and q.columns[0][0][2] == "epoch"
        if {x.table for x in sub.sources} == {"evapotranspiration_staging"} and _epoch_only(sub) and _epoch_only(sel) and sub.where is None:
            return True
        return False
    # LEFT JOIN ... WHERE es.epoch IS NULL
    for s in sel.sources:
        if s.join == "LEFT" and s.table == "evapotranspiration_staging":
            for c in conjuncts(sel.where):
                if c[0] == "bin" and c[1] == "IS" and c[3] == ("null",):
                    return True
            return False
    return None
