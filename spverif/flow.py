"""Per-function flow facts: CFG + reaching definitions + def-use expansion."""

import ast

from .cfg import CFG, ENTRY, ReachingDefs, assigned_value
from .source import enclosing_func


class Flow:
    _cache = {}

    def __init__(self, finfo):
        self.f = finfo
        self.cfg = CFG(finfo.node)
        self.rd = ReachingDefs(self.cfg)

    @classmethod
    def of(cls, finfo):
        k = id(finfo.node)
        if k not in cls._cache:
            if len(cls._cache) > 4000:
                cls._cache.clear()
            cls._cache[k] = Flow(finfo)
        return cls._cache[k]

    # -- scoping
    def _locally_bound(self, name_node):
        """Is the name bound by a comprehension / lambda / nested def that
        encloses it (inside this function)?"""
        n = getattr(name_node, "parent", None)
        child = name_node
        while n is not None and n is not self.f.node:
            if isinstance(n, (ast.ListComp, ast.SetComp, ast.DictComp, ast.GeneratorExp)):
                for g in n.generators:
                    # the first generator's iter is evaluated outside
                    if g is n.generators[0] and _within(name_node, g.iter):
                        continue
                    for t in ast.walk(g.target):
                        if isinstance(t, ast.Name) and t.id == name_node.id:
                            return True
            elif isinstance(n, ast.Lambda):
                a = n.args
                if name_node.id in [x.arg for x in a.posonlyargs + a.args + a.kwonlyargs]:
                    return True
            elif isinstance(n, (ast.FunctionDef, ast.AsyncFunctionDef)):
                a = n.args
                if name_node.id in [x.arg for x in a.posonlyargs + a.args + a.kwonlyargs]:
                    return True
                for sub in ast.walk(n):
                    if isinstance(sub, ast.Name) and isinstance(sub.ctx, ast.Store) and sub.id == name_node.id:
                        return True
            child = n
            n = getattr(n, "parent", None)
        return False

    def reaching_defs(self, name_node):
        """CFG nodes whose definitions of the name reach this use, or
        None if the use is locally bound / not in this function."""
        if self._locally_bound(name_node):
            return None
        node = self.cfg.node_containing(name_node)
        if node is None:
            return None
        return self.rd.reaching(name_node.id, node)

    def def_value(self, name_node, mutable_ok=False):
        """Value expression of the unique reaching plain assignment.

        The value is only "the value of the name at this use" if the object is
        not changed in place between the assignment and the use (`x[1:] &= m`,
        `x[i] = v`, `x.sort()`, `np.add(a, b, out=x)`): unless the caller models
        those itself (mutable_ok=True) such a name has no known value."""
        defs = self.reaching_defs(name_node)
        if not defs or len(defs) != 1:
            return None
        d = next(iter(defs))
        if d == ENTRY:
            return None
        v = assigned_value(self.cfg, d, name_node.id)
        if v is None or mutable_ok:
            return v
        if self.mutations_between(name_node.id, d, self.cfg.node_containing(name_node)):
            return None
        return v

    MUTATORS = frozenset(("append", "extend", "insert", "remove", "pop", "clear", "sort", "reverse", "update", "add", "discard",
                          "setdefault", "popitem", "fill", "resize", "put", "itemset", "partition", "setflags", "difference_update",
                          "intersection_update", "symmetric_difference_update", "appendleft", "popleft"))

    def _mutation_sites(self, name):
        key = ("mut", name)
        cache = self.__dict__.setdefault("_mutcache", {})
        if key in cache:
            return cache[key]

        def root(n):
            while isinstance(n, (ast.Subscript, ast.Attribute)):
                n = n.value
            return n.id if isinstance(n, ast.Name) else None

        out = []
        for st in ast.walk(self.f.node):
            if not isinstance(st, ast.stmt) or isinstance(st, (ast.FunctionDef, ast.AsyncFunctionDef, ast.ClassDef)):
                continue
            if enclosing_func(st) is not self.f.node:
                continue
            hit = False
            tg = []
            if isinstance(st, ast.Assign):
                tg = list(st.targets)
            elif isinstance(st, (ast.AugAssign, ast.AnnAssign)):
                tg = [st.target]
            elif isinstance(st, ast.Delete):
                tg = list(st.targets)
            for t in tg:
                for e in (t.elts if isinstance(t, (ast.Tuple, ast.List)) else [t]):
                    if isinstance(e, (ast.Subscript, ast.Attribute)) and root(e) == name:
                        hit = True
            if not hit:
                # header expressions of compound statements and whole simple statements
                exprs = [st]
                if isinstance(st, (ast.If, ast.While)):
                    exprs = [st.test]
                elif isinstance(st, (ast.For, ast.AsyncFor)):
                    exprs = [st.iter]
                elif isinstance(st, (ast.With, ast.AsyncWith)):
                    exprs = [i.context_expr for i in st.items]
                elif isinstance(st, ast.Try):
                    exprs = []
                for ex in exprs:
                    for c in ast.walk(ex):
                        if isinstance(c, ast.Call):
                            if isinstance(c.func, ast.Attribute) and c.func.attr in self.MUTATORS and root(c.func.value) == name \
                                    and isinstance(c.func.value, ast.Name):
                                hit = True
                            for k in c.keywords:
                                if k.arg == "out" and root(k.value) == name:
                                    hit = True
            if hit:
                n = self.cfg.node(st)
                if n is not None:
                    out.append((n, st))
        cache[key] = out
        return out

    def _reach(self, a):
        cache = self.__dict__.setdefault("_reachcache", {})
        if a in cache:
            return cache[a]
        seen = set()
        stack = list(self.cfg.succ.get(a, ()))
        while stack:
            x = stack.pop()
            if x in seen:
                continue
            seen.add(x)
            stack.extend(self.cfg.succ.get(x, ()))
        cache[a] = seen
        return seen

    def mutations_between(self, name, defnode, usenode):
        """Statements that change the object bound to `name` in place on some
        path from its definition to the use."""
        if usenode is None:
            return []
        out = []
        after_def = self._reach(defnode)
        for n, st in self._mutation_sites(name):
            if n == defnode:
                continue
            if n in after_def and usenode in self._reach(n):
                out.append(st)
        return out

    def unique_def_node(self, name_node):
        defs = self.reaching_defs(name_node)
        if not defs or len(defs) != 1:
            return None
        return next(iter(defs))

    def is_param(self, name_node):
        defs = self.reaching_defs(name_node)
        return defs == {ENTRY}

    def resolver(self, keep=()):
        """Hook for norm.py_term: expand names through unique plain
        assignments, except those listed in `keep`."""
        keep = set(keep)

        def resolve(name_node):
            if name_node.id in keep:
                return None
            v = self.def_value(name_node)
            if v is None:
                return None
            # do not expand through self-referential updates (x = f(x))
            return v

        return resolve

    def expand(self, expr, keep=(), depth=0):
        """Return `expr` with names substituted by their unique reaching
        plain-assignment values (a new AST, unparse-able)."""
        keep = set(keep)
        flow = self

        class T(ast.NodeTransformer):
            def visit_Name(self, node):
                if not isinstance(node.ctx, ast.Load) or node.id in keep:
                    return node
                if depth > 12:
                    return node
                v = flow.def_value(node)
                if v is None:
                    return node
                return flow.expand(v, keep, depth + 1)

        import copy

        # preserve parent links of the original for resolution: operate on
        # the original node to find defs, but build a copy for output
        return _rebuild(expr, flow, keep, depth)

    def reaches(self, expr, target, depth=0):
        """Does `expr` contain the node `target`, directly or through names
        whose unique reaching plain assignment contains it?"""
        for n in ast.walk(expr):
            if n is target:
                return True
        if depth > 8:
            return False
        for n in ast.walk(expr):
            if isinstance(n, ast.Name) and isinstance(n.ctx, ast.Load):
                v = self.def_value(n)
                if v is not None and self.reaches(v, target, depth + 1):
                    return True
        return False

    def stmts_where(self, pred):
        return [
            st for n, st in self.cfg.stmt_of.items() if pred(st)
        ]


def _rebuild(expr, flow, keep, depth):
    """Copy `expr` replacing resolvable Name loads (original nodes are used
    to look up reaching definitions)."""
    if isinstance(expr, ast.Name) and isinstance(expr.ctx, ast.Load):
        if expr.id in keep or depth > 12:
            return ast.Name(id=expr.id, ctx=ast.Load())
        v = flow.def_value(expr)
        if v is None:
            return ast.Name(id=expr.id, ctx=ast.Load())
        return _rebuild(v, flow, keep, depth + 1)
    if not isinstance(expr, ast.AST):
        return expr
    # D['key'] / T[2] where D / T is bound once to a dict / tuple literal that is not changed in place: that element
    if isinstance(expr, ast.Subscript) and isinstance(expr.value, ast.Name) and isinstance(expr.ctx, ast.Load) \
            and isinstance(expr.slice, ast.Constant) and expr.value.id not in keep and depth <= 12:
        dv = flow.def_value(expr.value)
        if isinstance(dv, ast.Dict):
            for k_, v_ in zip(dv.keys, dv.values):
                if isinstance(k_, ast.Constant) and k_.value == expr.slice.value and type(k_.value) is type(expr.slice.value):
                    return _rebuild(v_, flow, keep, depth + 1)
        elif isinstance(dv, ast.Tuple) and isinstance(expr.slice.value, int) and not isinstance(expr.slice.value, bool) \
                and -len(dv.elts) <= expr.slice.value < len(dv.elts) and not any(isinstance(e, ast.Starred) for e in dv.elts):
            return _rebuild(dv.elts[expr.slice.value], flow, keep, depth + 1)
    new = type(expr)()
    for field, val in ast.iter_fields(expr):
        if isinstance(val, list):
            setattr(new, field, [_rebuild(x, flow, keep, depth) for x in val])
        elif isinstance(val, ast.AST):
            setattr(new, field, _rebuild(val, flow, keep, depth))
        else:
            setattr(new, field, val)
    for a in ("lineno", "col_offset", "end_lineno", "end_col_offset"):
        if hasattr(expr, a):
            setattr(new, a, getattr(expr, a))
    return new


def _within(node, root):
    n = node
    while n is not None:
        if n is root:
            return True
        n = getattr(n, "parent", None)
    return False


def calls_in(node, method=None, func=None):
    """Call nodes under `node` whose callee is attribute `.method` or the
    dotted name `func`."""
    from .source import dotted_name

    out = []
    for n in ast.walk(node):
        if isinstance(n, ast.Call):
            if method and isinstance(n.func, ast.Attribute) and n.func.attr == method:
                out.append(n)
            elif func and dotted_name(n.func) == func:
                out.append(n)
    return out


def always_raises(stmts):
    """Every path through this statement list ends in `raise`."""
    if not stmts:
        return False
    last = stmts[-1]
    if isinstance(last, ast.Raise):
        return True
    if isinstance(last, ast.If):
        return bool(last.orelse) and always_raises(last.body) and always_raises(last.orelse)
    if isinstance(last, ast.With):
        return always_raises(last.body)
    if isinstance(last, ast.Try):
        ok = always_raises(last.body) or (last.finalbody and always_raises(last.finalbody))
        return bool(ok) and all(always_raises(h.body) for h in last.handlers)
    if isinstance(last, ast.Assert):
        t = last.test
        return isinstance(t, ast.Constant) and not t.value
    return False
