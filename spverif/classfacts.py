"""Index-kind facts of classify.py shared by C01, C02, C03.

D-kind / D-aff: the (start, stop) pairs built by
get_candidate_match_intervals are classified as
   F(mask)+c  (first True index of a run mask, plus c)
   L(mask)+c  (last True index, plus c)
with mask kind 'rain' (one element per time step) or 'jump' (one element
per increment).  The pairs' flow through match_storms /
disambiguate_matching to the loop variables of match_all_storms is
checked positionally.
"""

import ast

from .flow import Flow
from .norm import NotAlgebraic, Poly, py_poly
from .source import AnalysisError, dotted_name, enclosing_func, enclosing_stmt


class Kind:
    def __init__(self, end, mask, off, node):
        self.end = end  # 'F' | 'L'
        self.mask = mask  # 'rain' | 'jump'
        self.off = off
        self.node = node

    def __repr__(self):
        return "%s(%s)%+d" % (self.end, self.mask, self.off)

    def key(self):
        return (self.end, self.mask, self.off)


def threshold_roles(ctx):
    """{(func fq, name): 'storm' | 'jump'}: names carrying a threshold,
    propagated from classify_intervals' parameters through calls and
    through products with the step length."""
    roles = {}
    root = ctx.func("classify.classify_intervals")
    if len(root.params) < 3:
        raise AnalysisError("classify_intervals signature changed")
    roles[(root.fq, root.params[1])] = "storm"
    roles[(root.fq, root.params[2])] = "jump"
    changed = True
    tree = ctx.cg.reachable(root.fq)
    while changed:
        changed = False
        for fq in sorted(tree):
            f = ctx.cg.func(fq)
            # local propagation: x = thr * something  /  x = thr
            for n in ast.walk(f.node):
                if isinstance(n, ast.Assign) and len(n.targets) == 1 and isinstance(n.targets[0], ast.Name) and enclosing_func(n) is f.node:
                    names = [x.id for x in ast.walk(n.value) if isinstance(x, ast.Name)]
                    rs = {roles[(fq, x)] for x in names if (fq, x) in roles}
                    v = n.value
                    simple = isinstance(v, ast.Name) or (isinstance(v, ast.BinOp) and isinstance(v.op, ast.Mult))
                    if len(rs) == 1 and simple and (fq, n.targets[0].id) not in roles:
                        roles[(fq, n.targets[0].id)] = next(iter(rs))
                        changed = True
            for call, targets in ctx.cg.calls.get(fq, []):
                for t in targets:
                    if t not in tree:
                        continue
                    callee = ctx.cg.func(t)
                    params = callee.params
                    binds = []
                    for i, a in enumerate(call.args):
                        if i < len(params):
                            binds.append((params[i], a))
                    for kw in call.keywords:
                        if kw.arg in params:
                            binds.append((kw.arg, kw.value))
                    for p, a in binds:
                        if isinstance(a, ast.Name) and (fq, a.id) in roles and (t, p) not in roles:
                            roles[(t, p)] = roles[(fq, a.id)]
                            changed = True
    return roles


def candidate_kinds(ctx):
    """Kinds of the four ends returned by get_candidate_match_intervals:
    {'rain': (Kind, Kind), 'jump': (Kind, Kind)} + positions."""
    f = ctx.func("classify.get_candidate_match_intervals")
    flow = Flow.of(f)
    rets = [n for n in ast.walk(f.node) if isinstance(n, ast.Return) and n.value is not None and enclosing_func(n) is f.node]
    if len(rets) != 1:
        raise AnalysisError("get_candidate_match_intervals: expected one return")
    rv = rets[0].value
    if not (isinstance(rv, ast.Tuple) and len(rv.elts) == 2 and all(isinstance(e, ast.Tuple) and len(e.elts) == 2 for e in rv.elts)):
        raise AnalysisError("get_candidate_match_intervals: return is not ((a, b), (c, d))")
    p = f.params
    if len(p) < 6:
        raise AnalysisError("get_candidate_match_intervals signature changed")
    rain_masks_p, jump_mask_p = p[3], p[4]

    def mask_kind(m):
        # rain_masks[storm_index] -> rain ; jump_mask -> jump
        if isinstance(m, ast.Subscript) and isinstance(m.value, ast.Name) and m.value.id == rain_masks_p:
            return "rain"
        if isinstance(m, ast.Name) and m.id == jump_mask_p:
            return "jump"
        return None

    def kind_of(name_node):
        v = flow.def_value(name_node) if isinstance(name_node, ast.Name) else name_node
        if v is None:
            raise AnalysisError("end %s has no unique definition" % ast.unparse(name_node))
        off = 0
        core = v
        if isinstance(core, ast.BinOp) and isinstance(core.op, (ast.Add, ast.Sub)) and isinstance(core.right, ast.Constant):
            off = core.right.value if isinstance(core.op, ast.Add) else -core.right.value
            core = core.left
        if not (isinstance(core, ast.Subscript) and isinstance(core.value, ast.Name)):
            raise AnalysisError("end %s = %s is not INDICES[0] / INDICES[-1] + c" % (ast.unparse(name_node), ast.unparse(v)))
        sl = ast.unparse(core.slice)
        end = {"0": "F", "-1": "L"}.get(sl)
        if end is None:
            # element k of the (consecutive) indices of a run is F + k; element -k is L - (k - 1)
            try:
                kidx = int(sl)
            except ValueError:
                raise AnalysisError("end %s takes element %s of the index array" % (ast.unparse(name_node), sl))
            if kidx >= 0:
                end, off = "F", off + kidx
            else:
                end, off = "L", off + kidx + 1
        idx = flow.def_value(core.value)
        # np.nonzero(M)[0] / np.flatnonzero(M) / np.where(M)[0]
        m = None
        if isinstance(idx, ast.Subscript) and isinstance(idx.value, ast.Call) and isinstance(idx.slice, ast.Constant) and idx.slice.value == 0:
            fn = dotted_name(idx.value.func) or ""
            if fn.split(".")[-1] in ("nonzero", "where") and idx.value.args:
                m = idx.value.args[0]
        elif isinstance(idx, ast.Call) and (dotted_name(idx.func) or "").split(".")[-1] == "flatnonzero" and idx.args:
            m = idx.args[0]
        mk = mask_kind(m) if m is not None else None
        if mk is None:
            raise AnalysisError("index array of %s does not come from nonzero(mask)" % ast.unparse(name_node))
        return Kind(end, mk, off, v)

    pairs = []
    for tup in rv.elts:
        pairs.append((kind_of(tup.elts[0]), kind_of(tup.elts[1])))
    out = {}
    for i, (a, b) in enumerate(pairs):
        if a.mask != b.mask:
            raise AnalysisError("pair %d mixes masks %s/%s" % (i, a.mask, b.mask))
        out[a.mask] = (a, b)
        out["pos_" + a.mask] = i
    out["func"] = f
    out["return"] = rets[0]
    return out


def pair_flow(ctx):
    """Positional flow of the (rain pair, jump pair) from
    get_candidate_match_intervals to match_all_storms' loop variables.
    Returns dict with names in match_all_storms:
      {'rain': (start_name, stop_name), 'jump': (start_name, stop_name)}
    and a list of (ok, where-node, func, description) checks."""
    checks = []
    gc = ctx.func("classify.get_candidate_match_intervals")
    ms = ctx.func("classify.match_storms")
    dm = ctx.func("classify.disambiguate_matching")
    mas = ctx.func("classify.match_all_storms")
    kinds = candidate_kinds(ctx)
    pos_rain, pos_jump = kinds["pos_rain"], kinds["pos_jump"]
    # ---- match_storms: unpack, append, pass to disambiguate, return
    msflow = Flow.of(ms)
    calls = [c for c in ast.walk(ms.node) if isinstance(c, ast.Call) and ctx.cg.resolve_callee(ms, c.func) == [gc.fq]]
    if len(calls) != 1:
        raise AnalysisError("match_storms: call of get_candidate_match_intervals not found")
    st = enclosing_stmt(calls[0])
    if not (isinstance(st, ast.Assign) and isinstance(st.targets[0], ast.Tuple) and len(st.targets[0].elts) == 2
            and all(isinstance(e, ast.Name) for e in st.targets[0].elts)):
        raise AnalysisError("match_storms: result of get_candidate_match_intervals is not unpacked into two names")
    got = [e.id for e in st.targets[0].elts]
    pair_names = {"rain": got[pos_rain], "jump": got[pos_jump]}
    lists = {}
    for n in ast.walk(ms.node):
        if isinstance(n, ast.Call) and isinstance(n.func, ast.Attribute) and n.func.attr == "append" and len(n.args) == 1 \
                and isinstance(n.args[0], ast.Name) and isinstance(n.func.value, ast.Name):
            for k, nm in pair_names.items():
                if n.args[0].id == nm:
                    lists[k] = n.func.value.id
    if set(lists) != {"rain", "jump"}:
        raise AnalysisError("match_storms: the candidate pairs are not appended to two lists")
    dcalls = [c for c in ast.walk(ms.node) if isinstance(c, ast.Call) and ctx.cg.resolve_callee(ms, c.func) == [dm.fq]]
    if len(dcalls) != 1 or len(dcalls[0].args) != 2:
        raise AnalysisError("match_storms: call of disambiguate_matching(rain, jump) not found")
    dargs = [a.id if isinstance(a, ast.Name) else None for a in dcalls[0].args]
    if None in dargs or set(dargs) != {lists["rain"], lists["jump"]}:
        raise AnalysisError("match_storms: arguments of disambiguate_matching are not the two lists of candidate pairs")
    ok = dargs == [lists["rain"], lists["jump"]]
    checks.append((ok, dcalls[0], ms, "disambiguate_matching(%s) receives (rain pairs, jump pairs)" % ", ".join(map(str, dargs))))
    dst = enclosing_stmt(dcalls[0])
    if not (isinstance(dst, ast.Assign) and isinstance(dst.targets[0], ast.Tuple) and len(dst.targets[0].elts) == 2):
        raise AnalysisError("match_storms: result of disambiguate_matching not unpacked into two names")
    dres = [e.id for e in dst.targets[0].elts]
    rets = [n for n in ast.walk(ms.node) if isinstance(n, ast.Return) and n.value is not None and enclosing_func(n) is ms.node]
    if len(rets) != 1 or not (isinstance(rets[0].value, ast.Tuple) and len(rets[0].value.elts) == 2):
        raise AnalysisError("match_storms: expected `return (rain_intervals, head_intervals)`")
    rnames = [e.id if isinstance(e, ast.Name) else None for e in rets[0].value.elts]
    if None in rnames or set(rnames) != set(dres):
        raise AnalysisError("match_storms: the returned pair is not the pair of disambiguated lists")
    checks.append((rnames == dres, rets[0], ms, "match_storms returns %s = the disambiguated (rain, jump) lists in that order" % rnames))
    # ---- disambiguate_matching: returns (rain pairs, jump pairs) keyed by their starts
    dp = dm.params
    drets = [n for n in ast.walk(dm.node) if isinstance(n, ast.Return) and n.value is not None and enclosing_func(n) is dm.node]
    if len(drets) != 1 or not (isinstance(drets[0].value, ast.Tuple) and len(drets[0].value.elts) == 2):
        raise AnalysisError("disambiguate_matching: expected `return (rain, jump)`")
    out_lists = [e.id if isinstance(e, ast.Name) else None for e in drets[0].value.elts]
    # stop dictionaries: {start: stop for start, stop in PARAM}
    stops = {}
    for n in ast.walk(dm.node):
        if isinstance(n, ast.Assign) and isinstance(n.targets[0], ast.Name) and isinstance(n.value, ast.DictComp) \
                and len(n.value.generators) == 1 and isinstance(n.value.generators[0].iter, ast.Name):
            g = n.value.generators[0]
            if isinstance(g.target, ast.Tuple) and len(g.target.elts) == 2 and all(isinstance(e, ast.Name) for e in g.target.elts) \
                    and isinstance(n.value.key, ast.Name) and isinstance(n.value.value, ast.Name) \
                    and n.value.key.id == g.target.elts[0].id and n.value.value.id == g.target.elts[1].id:
                stops[n.targets[0].id] = g.iter.id
    # appended tuples (x, STOPS[x])
    side_of_list = {}
    for n in ast.walk(dm.node):
        if isinstance(n, ast.Call) and isinstance(n.func, ast.Attribute) and n.func.attr == "append" and len(n.args) == 1 \
                and isinstance(n.func.value, ast.Name) and isinstance(n.args[0], ast.Tuple) and len(n.args[0].elts) == 2:
            a, b = n.args[0].elts
            if isinstance(a, ast.Name) and isinstance(b, ast.Subscript) and isinstance(b.value, ast.Name) and b.value.id in stops \
                    and isinstance(b.slice, ast.Name):
                # (x, STOPS[y]) with y != x pairs a start with another interval's stop
                side_of_list[n.func.value.id] = stops[b.value.id] if b.slice.id == a.id else "a stop looked up under another start"
    want = [dp[0], dp[1]]
    got = [side_of_list.get(x) for x in out_lists]
    if None in got:
        raise AnalysisError("disambiguate_matching: the returned lists are not rebuilt as (start, STOPS[start]) from {start: stop} tables of the parameters")
    checks.append((got == want, drets[0], dm,
                   "disambiguate_matching returns lists rebuilt as (start, stop-of-that-start) from parameters %s" % got))
    # ---- match_all_storms: unpack
    mcalls = [c for c in ast.walk(mas.node) if isinstance(c, ast.Call) and ctx.cg.resolve_callee(mas, c.func) == [ms.fq]]
    if len(mcalls) != 1:
        raise AnalysisError("match_all_storms: call of match_storms not found")
    mst = enclosing_stmt(mcalls[0])
    if not (isinstance(mst, ast.Assign) and isinstance(mst.targets[0], ast.Tuple) and len(mst.targets[0].elts) == 2
            and all(isinstance(e, ast.Name) for e in mst.targets[0].elts)):
        raise AnalysisError("match_all_storms: result of match_storms not unpacked into two names")
    rl, jl = [e.id for e in mst.targets[0].elts]
    names = {}
    loop = None
    for n in ast.walk(mas.node):
        if isinstance(n, ast.For):
            it = n.iter
            tgt = n.target
            if isinstance(it, ast.Call) and isinstance(it.func, ast.Name) and it.func.id == "enumerate" and it.args \
                    and isinstance(it.args[0], ast.Name) and isinstance(tgt, ast.Tuple) and len(tgt.elts) == 2 \
                    and isinstance(tgt.elts[1], ast.Tuple) and len(tgt.elts[1].elts) == 2:
                which = "rain" if it.args[0].id == rl else ("jump" if it.args[0].id == jl else None)
                if which:
                    names[which] = tuple(e.id for e in tgt.elts[1].elts)
                    names["index"] = tgt.elts[0].id
                    loop = n
            elif isinstance(it, ast.Call) and isinstance(it.func, ast.Name) and it.func.id == "zip" and len(it.args) == 2 \
                    and isinstance(tgt, ast.Tuple) and len(tgt.elts) == 2:
                a0 = [a.id if isinstance(a, ast.Name) else None for a in it.args]
                for a, t in zip(a0, tgt.elts):
                    which = "rain" if a == rl else ("jump" if a == jl else None)
                    if which and isinstance(t, ast.Tuple) and len(t.elts) == 2:
                        names[which] = tuple(e.id for e in t.elts)
                loop = n
    if loop is not None:
        for n in ast.walk(loop):
            if isinstance(n, ast.Assign) and isinstance(n.targets[0], ast.Tuple) and len(n.targets[0].elts) == 2 \
                    and isinstance(n.value, ast.Subscript) and isinstance(n.value.value, ast.Name) \
                    and isinstance(n.value.slice, ast.Name) and n.value.slice.id == names.get("index"):
                which = "rain" if n.value.value.id == rl else ("jump" if n.value.value.id == jl else None)
                if which:
                    names[which] = tuple(e.id for e in n.targets[0].elts)
    if "rain" not in names or "jump" not in names:
        raise AnalysisError("match_all_storms: loop variables for the (start, stop) pairs not found")
    names["loop"] = loop
    names["kinds"] = kinds
    # match_storms argument order: (rain series, level series, storm threshold, jump threshold)
    names["match_call"] = mcalls[0]
    return names, checks
