"""Index-kind facts of classify.py shared by C01, C02, C03.

D-kind / D-aff: the (start, stop) pairs built by
get_candidate_match_intervals are classified as
   F(mask)+c  (first True index of a run mask, plus c)
   L(mask)+c  (last True index, plus c)
with mask kind 'rain' (one element per time step) or 'jump' (one element
per increment).  The pairs' flow through match_storms /
disambiguate_matching to the loop variables of match_all_storms is
checked positionally.
"""

import ast

from .flow import Flow
from .norm import NotAlgebraic, Poly, py_poly
from .source import AnalysisError, dotted_name, enclosing_func, enclosing_stmt


class Kind:
    def __init__(self, end, mask, off, node):
        self.end = end  # 'F' | 'L'
        self.mask = mask  # 'rain' | 'jump'
        self.off = off
        self.node = node

    def __repr__(self):
        return "%s(%s)%+d" % (self.end, self.mask, self.off)

    def key(self):
        return (self.end, self.mask, self.off)


def threshold_roles(ctx):
    """{(func fq, name): 'storm' | 'jump'}: names carrying a threshold,
    propagated from classify_intervals' parameters through calls and
    through products with the step length."""
    roles = {}
    root = ctx.func("classify.classify_intervals")
    if len(root.params) < 3:
        raise AnalysisError("classify_intervals signature changed")
    roles[(root.fq, root.params[1])] = "storm"
    roles[(root.fq, root.params[2])] = "jump"
    changed = True
    tree = ctx.cg.reachable(root.fq)
    while changed:
        changed = False
        for fq in sorted(tree):
            f = ctx.cg.func(fq)
            # local propagation: x = thr * something  /  x = thr
            for n in ast.walk(f.node):
                if isinstance(n, ast.Assign) and len(n.targets) == 1 and isinstance(n.targets[0], ast.Name) and enclosing_func(n) is f.node:
                    names = [x.id for x in ast.walk(n.value) if isinstance(x, ast.Name)]
                    rs = {roles[(fq, x)] for x in names if (fq, x) in roles}
                    v = n.value
                    simple = isinstance(v, ast.Name) or (isinstance(v, ast.BinOp) and isinstance(v.op, ast.Mult))
                    if len(rs) == 1 and simple and (fq, n.targets[0].id) not in roles:
                        roles[(fq, n.targets[0].id)] = next(iter(rs))
                        changed = True
            for call, targets in ctx.cg.calls.get(fq, []):
                for t in targets:
                    if t not in tree:
                        continue
                    callee = ctx.cg.func(t)
                    params = callee.params
                    binds = []
                    for i, a in enumerate(call.args):
                        if i < len(params):
                            binds.append((params[i], a))
                    for kw in call.keywords:
                        if kw.arg in params:
                            binds.append((kw.arg, kw.value))
                    for p, a in binds:
                        if isinstance(a, ast.Name) and (fq, a.id) in roles and (t, p) not in roles:
                            roles[(t, p)] = roles[(fq, a.id)]
                            changed = True
    return roles


def candidate_kinds(ctx):
    """Kinds of the four ends returned by get_candidate_match_intervals:
    {'rain': (Kind, Kind), 'jump': (Kind, Kind)} + positions."""
    f = ctx.func("classify.get_candidate_match_intervals")
    flow = Flow.of(f)
    rets = [n for n in ast.walk(f.node) if isinstance(n, ast.Return) and n.value is not None and enclosing_func(n) is f.node]
    if len(rets) != 1:
        raise AnalysisError("get_candidate_match_intervals: expected one return")
    rv = rets[0].value
    if not (isinstance(rv, ast.Tuple) and len(rv.elts) == 2 and all(isinstance(e, ast.Tuple) and len(e.elts) == 2 for e in rv.elts)):
        raise AnalysisError("get_candidate_match_intervals: return is not ((a, b), (c, d))")
    p = f.params
    if len(p) < 6:
        raise AnalysisError("get_candidate_match_intervals signature changed")
    rain_masks_p, jump_mask_p = p[3], p[4]

    def mask_kind(m):
        # rain_masks[storm_index] -> rain ; jump_mask -> jump
        if isinstance(m, ast.Subscript) and isinstance(m.value, ast.Name) and m.value.id == rain_masks_p:
            return "rain"
        if isinstance(m, ast.Name) and m.id == jump_mask_p:
            return "jump"
        return None

    def kind_of(name_node):
        v = flow.def_value(name_node) if isinstance(name_node, ast.Name) else name_node
        if v is None:
            raise AnalysisError("end %s has no unique definition" % ast.unparse(name_node))
        off = 0
        core = v
        if isinstance(core, ast.BinOp) and isinstance(core.op, (ast.Add, ast.Sub)) and isinstance(core.right, ast.Constant):
            off = core.right.value if isinstance(core.op, ast.Add) else -core.right.value
            core = core.left
        if not (isinstance(core, ast.Subscript) and isinstance(core.value, ast.Name)):
            raise AnalysisError("end %s = %s is not INDICES[0] / INDICES[-1] + c" % (ast.unparse(name_node), ast.unparse(v)))
        sl = ast.unparse(core.slice)
        end = {"0": "F", "-1": "L"}.get(sl)
        if end is None:
            # element k of the (consecutive) indices of a run is F + k; element -k is L - (k - 1)
            try:
                kidx = int(sl)
            except ValueError:
                raise AnalysisError("end %s takes element %s of the index array" % (ast.unparse(name_node), sl))
            if kidx >= 0:
                end, off = "F", off + kidx
            else:
                end, off = "L", off + kidx + 1
        idx = flow.def_value(core.value)
        # np.nonzero(M)[0] / np.flatnonzero(M) / np.where(M)[0]
        m = None
        if isinstance(idx, ast.Subscript) and isinstance(idx.value, ast.Call) and isinstance(idx.slice, ast.Constant) and idx.slice.value == 0:
            fn = dotted_name(idx.value.func) or ""
            if fn.split(".")[-1] in ("nonzero", "where") and idx.value.args:
                m = idx.value.args[0]
        elif isinstance(idx, ast.Call) and (dotted_name(idx.func) or "").split(".")[-1] == "flatnonzero" and idx.args:
            m = idx.args[0]
        mk = mask_kind(m) if m is not None else None
        if mk is None:
            raise AnalysisError("index array of %s does not come from nonzero(mask)" % ast.unparse(name_node))
        return Kind(end, mk, off, v)

    pairs = []
    for tup in rv.elts:
        pairs.append((kind_of(tup.elts[0]), kind_of(tup.elts[1])))
    out = {}
    for i, (a, b) in enumerate(pairs):
        if a.mask != b.mask:
            raise AnalysisError("pair %d mixes masks %s/%s" % (i, a.mask, b.mask))
        out[a.mask] = (a, b)
        out["pos_" + a.mask] = i
    out["func"] = f
    out["return"] = rets[0]
    return out


def pair_flow(ctx):
    """Positional flow of the (rain pair, jump pair) from
    get_candidate_match_intervals to match_all_storms' loop variables.
    Returns dict with names in match_all_storms:
      {'rain': (start_name, stop_name), 'jump': (start_name, stop_name)}
    and a list of (ok, where-node, func, description) checks."""
    checks = []
    gc = ctx.func("classify.get_candidate_match_intervals")
    ms = ctx.func("classify.match_storms")
    dm = ctx.func("classify.disambiguate_matching")
    mas = ctx.func("classify.match_all_storms")
    kinds = candidate_kinds(ctx)
    pos_rain, pos_jump = kinds["pos_rain"], kinds["pos_jump"]
    # ---- match_storms: unpack, append, pass to disambiguate, return
    msflow = Flow.of(ms)
    calls = [c for c in ast.walk(ms.node) if isinstance(c, ast.Call) and ctx.cg.resolve_callee(ms, c.func) == [gc.fq]]
    if len(calls) != 1:
        raise AnalysisError("match_storms: call of get_candidate_match_intervals not found")
    # component dataflow inside match_storms: what is a rain pair, a jump pair, a (rain, jump) candidate, a list of those
    comp_name = {pos_rain: "rain", pos_jump: "jump"}
    gc_call = calls[0]

    def stores_of(name):
        out = []
        for n in ast.walk(ms.node):
            if isinstance(n, ast.Assign) and len(n.targets) == 1:
                t = n.targets[0]
                if isinstance(t, ast.Name) and t.id == name:
                    out.append(("assign", n, None))
                elif isinstance(t, (ast.Tuple, ast.List)):
                    for k, e in enumerate(t.elts):
                        if isinstance(e, ast.Name) and e.id == name:
                            out.append(("unpack", n, k))
            elif isinstance(n, ast.For) and enclosing_func(n) is ms.node:
                t = n.target
                if isinstance(t, ast.Name) and t.id == name:
                    out.append(("for", n, None))
                elif isinstance(t, (ast.Tuple, ast.List)):
                    for k, e in enumerate(t.elts):
                        if isinstance(e, ast.Name) and e.id == name:
                            out.append(("forunpack", n, k))
        return out

    def grown_by(name):
        out = []
        for n in ast.walk(ms.node):
            if isinstance(n, ast.Call) and isinstance(n.func, ast.Attribute) and isinstance(n.func.value, ast.Name) and n.func.value.id == name \
                    and n.func.attr in ("append", "extend") and len(n.args) == 1:
                out.append(n)
            if isinstance(n, ast.AugAssign) and isinstance(n.target, ast.Name) and n.target.id == name and isinstance(n.op, ast.Add):
                out.append(n)
        return out

    def elem_of(k):
        """element kind of a list kind"""
        return k[1] if isinstance(k, tuple) and k[0] == "list" else None

    def kind(e, env, depth=0):
        """'rain' / 'jump' / 'pair' / ('list', one of those) / None"""
        if depth > 12 or e is None:
            return None
        if e is gc_call:
            return "pair"
        if isinstance(e, ast.Call) and isinstance(e.func, ast.Name) and e.func.id in ("list", "tuple", "iter", "sorted") and len(e.args) == 1:
            return kind(e.args[0], env, depth + 1)
        if isinstance(e, (ast.Tuple, ast.List)) and len(e.elts) == 2 and not isinstance(e.ctx, ast.Store):
            a, b = kind(e.elts[0], env, depth + 1), kind(e.elts[1], env, depth + 1)
            if {a, b} == {"rain", "jump"} and comp_name.get(0) == a:
                return "pair"
            return None
        if isinstance(e, ast.List) and not e.elts:
            return ("list", None)
        if isinstance(e, (ast.ListComp, ast.GeneratorExp)) and len(e.generators) == 1 and not e.generators[0].ifs:
            g = e.generators[0]
            env2 = dict(env)
            ik = kind(g.iter, env, depth + 1)
            ek = elem_of(ik)
            if isinstance(g.target, ast.Name) and ek is not None:
                env2[g.target.id] = ek
            elif isinstance(g.target, (ast.Tuple, ast.List)) and len(g.target.elts) == 2 and ek == "pair":
                for k_, t_ in enumerate(g.target.elts):
                    if isinstance(t_, ast.Name):
                        env2[t_.id] = comp_name[k_]
            r = kind(e.elt, env2, depth + 1)
            return ("list", r) if r in ("rain", "jump", "pair") else None
        if isinstance(e, ast.Subscript) and isinstance(e.slice, ast.Constant) and e.slice.value in (0, 1):
            if kind(e.value, env, depth + 1) == "pair":
                return comp_name[e.slice.value]
            return None
        if isinstance(e, ast.Name):
            if e.id in env:
                return env[e.id]
            kinds_ = set()
            reach = msflow.reaching_defs(e) if getattr(e, "parent", None) is not None else None
            reach_stmts = {id(msflow.cfg.stmt_of.get(d)) for d in reach} if reach else None
            for how, node, k_ in stores_of(e.id):
                if reach_stmts is not None and id(node) not in reach_stmts:
                    continue          # a binding that does not reach this use (the name is rebound later / earlier)
                if how == "assign":
                    kinds_.add(kind(node.value, env, depth + 1))
                elif how == "unpack":
                    v = node.value
                    vk = kind(v, env, depth + 1)
                    if vk == "pair" and len(node.targets[0].elts) == 2:
                        kinds_.add(comp_name[k_])
                    elif isinstance(v, ast.Call) and isinstance(v.func, ast.Name) and v.func.id == "zip" and len(v.args) == 1 \
                            and isinstance(v.args[0], ast.Starred) and elem_of(kind(v.args[0].value, env, depth + 1)) == "pair":
                        kinds_.add(("list", comp_name[k_]))
                    else:
                        kinds_.add(None)
                elif how == "for":
                    kinds_.add(elem_of(kind(node.iter, env, depth + 1)))
                elif how == "forunpack":
                    kinds_.add(comp_name[k_] if elem_of(kind(node.iter, env, depth + 1)) == "pair" and len(node.target.elts) == 2 else None)
            grows = grown_by(e.id)
            if grows and kinds_ <= {("list", None)}:
                kinds_ = set()
                for gcall in grows:
                    if isinstance(gcall, ast.AugAssign):
                        kinds_.add(kind(gcall.value, env, depth + 1))
                    elif gcall.func.attr == "append":
                        ek = kind(gcall.args[0], env, depth + 1)
                        kinds_.add(("list", ek) if ek in ("rain", "jump", "pair") else None)
                    else:
                        kinds_.add(kind(gcall.args[0], env, depth + 1))
            kinds_.discard(("list", None))
            return kinds_.pop() if len(kinds_) == 1 else None
        return None

    dcalls = [c for c in ast.walk(ms.node) if isinstance(c, ast.Call) and ctx.cg.resolve_callee(ms, c.func) == [dm.fq]]
    if len(dcalls) != 1 or len(dcalls[0].args) != 2:
        raise AnalysisError("match_storms: call of disambiguate_matching(rain, jump) not found")
    akinds = [kind(a, {}) for a in dcalls[0].args]
    if set(akinds) != {("list", "rain"), ("list", "jump")}:
        raise AnalysisError("match_storms: arguments of disambiguate_matching (%s) are not traced to the lists of rain pairs and jump pairs of the candidates (%s)"
                            % (", ".join(ast.unparse(a)[:40] for a in dcalls[0].args), akinds))
    ok = akinds == [("list", "rain"), ("list", "jump")]
    checks.append((ok, dcalls[0], ms, "disambiguate_matching(%s) receives (%s)" % (", ".join(ast.unparse(a)[:40] for a in dcalls[0].args),
                                                                                     ", ".join("%s pairs" % k[1] for k in akinds))))
    dst = enclosing_stmt(dcalls[0])
    if not (isinstance(dst, ast.Assign) and isinstance(dst.targets[0], ast.Tuple) and len(dst.targets[0].elts) == 2):
        raise AnalysisError("match_storms: result of disambiguate_matching not unpacked into two names")
    dres = [e.id for e in dst.targets[0].elts]
    rets = [n for n in ast.walk(ms.node) if isinstance(n, ast.Return) and n.value is not None and enclosing_func(n) is ms.node]
    if len(rets) != 1 or not (isinstance(rets[0].value, ast.Tuple) and len(rets[0].value.elts) == 2):
        raise AnalysisError("match_storms: expected `return (rain_intervals, head_intervals)`")
    rnames = [e.id if isinstance(e, ast.Name) else None for e in rets[0].value.elts]
    if None in rnames or set(rnames) != set(dres):
        raise AnalysisError("match_storms: the returned pair is not the pair of disambiguated lists")
    checks.append((rnames == dres, rets[0], ms, "match_storms returns %s = the disambiguated (rain, jump) lists in that order" % rnames))
    # ---- disambiguate_matching: returns (rain pairs, jump pairs) keyed by their starts
    dp = dm.params
    drets = [n for n in ast.walk(dm.node) if isinstance(n, ast.Return) and n.value is not None and enclosing_func(n) is dm.node]
    if len(drets) != 1 or not (isinstance(drets[0].value, ast.Tuple) and len(drets[0].value.elts) == 2):
        raise AnalysisError("disambiguate_matching: expected `return (rain, jump)`")
    out_lists = [e.id if isinstance(e, ast.Name) else None for e in drets[0].value.elts]
    # stop dictionaries: {start: stop for start, stop in PARAM}
    stops = {}
    for n in ast.walk(dm.node):
        if isinstance(n, ast.Assign) and isinstance(n.targets[0], ast.Name) and isinstance(n.value, ast.DictComp) \
                and len(n.value.generators) == 1 and isinstance(n.value.generators[0].iter, ast.Name):
            g = n.value.generators[0]
            if isinstance(g.target, ast.Tuple) and len(g.target.elts) == 2 and all(isinstance(e, ast.Name) for e in g.target.elts) \
                    and isinstance(n.value.key, ast.Name) and isinstance(n.value.value, ast.Name) \
                    and n.value.key.id == g.target.elts[0].id and n.value.value.id == g.target.elts[1].id:
                stops[n.targets[0].id] = g.iter.id
    # ... or STOPS = dict(PARAM), or STOPS[start] = stop stored inside `for (start, stop), (..) in zip(P, Q)` / `for start, stop in P`
    for n in ast.walk(dm.node):
        if isinstance(n, ast.Assign) and isinstance(n.targets[0], ast.Name) and isinstance(n.value, ast.Call) and isinstance(n.value.func, ast.Name) \
                and n.value.func.id == "dict" and len(n.value.args) == 1 and isinstance(n.value.args[0], ast.Name) and n.value.args[0].id in dp[:2]:
            stops[n.targets[0].id] = n.value.args[0].id
        if isinstance(n, ast.Assign) and isinstance(n.targets[0], ast.Subscript) and isinstance(n.targets[0].value, ast.Name) \
                and isinstance(n.targets[0].slice, ast.Name) and isinstance(n.value, ast.Name):
            loop = getattr(n, "parent", None)
            if isinstance(loop, ast.For) and n in loop.body:
                k_, v_ = n.targets[0].slice.id, n.value.id
                src = None
                it, tg = loop.iter, loop.target
                if isinstance(it, ast.Name) and isinstance(tg, ast.Tuple) and len(tg.elts) == 2 and all(isinstance(e, ast.Name) for e in tg.elts) \
                        and [e.id for e in tg.elts] == [k_, v_]:
                    src = it.id
                elif isinstance(it, ast.Call) and isinstance(it.func, ast.Name) and it.func.id == "zip" and isinstance(tg, ast.Tuple) and len(tg.elts) == len(it.args):
                    for a_, t_ in zip(it.args, tg.elts):
                        if isinstance(a_, ast.Name) and isinstance(t_, ast.Tuple) and len(t_.elts) == 2 and all(isinstance(e, ast.Name) for e in t_.elts) \
                                and [e.id for e in t_.elts] == [k_, v_]:
                            src = a_.id
                # the table is written nowhere else
                others = [m for m in ast.walk(dm.node) if isinstance(m, ast.Assign) and m is not n and isinstance(m.targets[0], ast.Subscript)
                          and isinstance(m.targets[0].value, ast.Name) and m.targets[0].value.id == n.targets[0].value.id]
                if src is not None and not others:
                    stops[n.targets[0].value.id] = src
    # appended tuples (x, STOPS[x])
    side_of_list = {}
    # ... or a comprehension  L = [(x, STOPS[x]) for x in ...]
    for n in ast.walk(dm.node):
        if isinstance(n, ast.Assign) and len(n.targets) == 1 and isinstance(n.targets[0], ast.Name) and isinstance(n.value, ast.ListComp) \
                and len(n.value.generators) == 1 and isinstance(n.value.elt, ast.Tuple) and len(n.value.elt.elts) == 2:
            a, b = n.value.elt.elts
            if isinstance(a, ast.Name) and isinstance(b, ast.Subscript) and isinstance(b.value, ast.Name) and b.value.id in stops and isinstance(b.slice, ast.Name):
                side_of_list[n.targets[0].id] = stops[b.value.id] if b.slice.id == a.id else "a stop looked up under another start"
    for n in ast.walk(dm.node):
        if isinstance(n, ast.Call) and isinstance(n.func, ast.Attribute) and n.func.attr == "append" and len(n.args) == 1 \
                and isinstance(n.func.value, ast.Name) and isinstance(n.args[0], ast.Tuple) and len(n.args[0].elts) == 2:
            a, b = n.args[0].elts
            if isinstance(a, ast.Name) and isinstance(b, ast.Subscript) and isinstance(b.value, ast.Name) and b.value.id in stops \
                    and isinstance(b.slice, ast.Name):
                # (x, STOPS[y]) with y != x pairs a start with another interval's stop
                side_of_list[n.func.value.id] = stops[b.value.id] if b.slice.id == a.id else "a stop looked up under another start"
    want = [dp[0], dp[1]]
    got = [side_of_list.get(x) for x in out_lists]
    if None in got:
        raise AnalysisError("disambiguate_matching: the returned lists are not rebuilt as (start, STOPS[start]) from {start: stop} tables of the parameters")
    checks.append((got == want, drets[0], dm,
                   "disambiguate_matching returns lists rebuilt as (start, stop-of-that-start) from parameters %s" % got))
    # ---- match_all_storms: unpack
    mcalls = [c for c in ast.walk(mas.node) if isinstance(c, ast.Call) and ctx.cg.resolve_callee(mas, c.func) == [ms.fq]]
    if len(mcalls) != 1:
        raise AnalysisError("match_all_storms: call of match_storms not found")
    mst = enclosing_stmt(mcalls[0])
    if not (isinstance(mst, ast.Assign) and isinstance(mst.targets[0], ast.Tuple) and len(mst.targets[0].elts) == 2
            and all(isinstance(e, ast.Name) for e in mst.targets[0].elts)):
        raise AnalysisError("match_all_storms: result of match_storms not unpacked into two names")
    rl, jl = [e.id for e in mst.targets[0].elts]
    names = {}
    loop = None
    for n in ast.walk(mas.node):
        if isinstance(n, ast.For):
            it = n.iter
            tgt = n.target
            if isinstance(it, ast.Call) and isinstance(it.func, ast.Name) and it.func.id == "enumerate" and it.args \
                    and isinstance(it.args[0], ast.Name) and isinstance(tgt, ast.Tuple) and len(tgt.elts) == 2 \
                    and isinstance(tgt.elts[1], ast.Tuple) and len(tgt.elts[1].elts) == 2:
                which = "rain" if it.args[0].id == rl else ("jump" if it.args[0].id == jl else None)
                if which:
                    names[which] = tuple(e.id for e in tgt.elts[1].elts)
                    names["index"] = tgt.elts[0].id
                    loop = n
            elif isinstance(it, ast.Call) and isinstance(it.func, ast.Name) and it.func.id == "zip" and len(it.args) == 2 \
                    and isinstance(tgt, ast.Tuple) and len(tgt.elts) == 2:
                a0 = [a.id if isinstance(a, ast.Name) else None for a in it.args]
                for a, t in zip(a0, tgt.elts):
                    which = "rain" if a == rl else ("jump" if a == jl else None)
                    if which and isinstance(t, ast.Tuple) and len(t.elts) == 2:
                        names[which] = tuple(e.id for e in t.elts)
                loop = n
    if loop is not None:
        for n in ast.walk(loop):
            if isinstance(n, ast.Assign) and isinstance(n.targets[0], ast.Tuple) and len(n.targets[0].elts) == 2 \
                    and isinstance(n.value, ast.Subscript) and isinstance(n.value.value, ast.Name) \
                    and isinstance(n.value.slice, ast.Name) and n.value.slice.id == names.get("index"):
                which = "rain" if n.value.value.id == rl else ("jump" if n.value.value.id == jl else None)
                if which:
                    names[which] = tuple(e.id for e in n.targets[0].elts)
    if "rain" not in names or "jump" not in names:
        raise AnalysisError("match_all_storms: loop variables for the (start, stop) pairs not found")
    names["loop"] = loop
    names["kinds"] = kinds
    # match_storms argument order: (rain series, level series, storm threshold, jump threshold)
    names["match_call"] = mcalls[0]
    return names, checks


def partial_overlap_positions(ms, msflow):
    """In match_storms: subscripts that pick particular elements (constant index) out of the array of positions where a
    rise and the rain overlap -- nonzero(..)[0][k], flatnonzero(..)[k], through names -- inside what the candidate storms
    are computed from.  Returns the offending Subscript nodes (empty if the positions are always used whole)."""
    import ast as _ast
    inter = None
    for n in _ast.walk(ms.node):
        if isinstance(n, _ast.BinOp) and isinstance(n.op, _ast.BitAnd) and enclosing_func(n) is ms.node:
            inter = n
    if inter is None:
        return None
    pos_names = set()
    for n in _ast.walk(ms.node):
        if isinstance(n, _ast.Assign) and len(n.targets) == 1 and isinstance(n.targets[0], _ast.Name) and msflow.reaches(n.value, inter):
            txt = _ast.unparse(n.value)
            if any(k in txt for k in ("flatnonzero(", "nonzero(", "where(", "argwhere(")) and not any(isinstance(x, _ast.Subscript) and _const_index(x) is not None
                                                                                                   and not _is_axis_pick(x) for x in _ast.walk(n.value)):
                pos_names.add(n.targets[0].id)
    bad = []
    for n in _ast.walk(ms.node):
        if isinstance(n, _ast.Subscript) and _const_index(n) is not None and not _is_axis_pick(n):
            v = n.value
            if isinstance(v, _ast.Name) and v.id in pos_names:
                bad.append(n)
            elif isinstance(v, (_ast.Call, _ast.Subscript)) and any(k in _ast.unparse(v) for k in ("flatnonzero(", "nonzero(", "where(", "argwhere(")) \
                    and msflow.reaches(v, inter) and not isinstance(getattr(n, "parent", None), _ast.Subscript):
                if not (isinstance(v, _ast.Call)):
                    bad.append(n)
                elif "flatnonzero(" in _ast.unparse(v.func) + "(":
                    bad.append(n)
    return bad


def _const_index(sub):
    import ast as _ast
    sl = sub.slice
    if isinstance(sl, _ast.Constant) and isinstance(sl.value, int):
        return sl.value
    if isinstance(sl, _ast.UnaryOp) and isinstance(sl.op, _ast.USub) and isinstance(sl.operand, _ast.Constant) and isinstance(sl.operand.value, int):
        return -sl.operand.value
    return None


def _is_axis_pick(sub):
    """np.nonzero(x)[0] / np.where(x)[0]: picks the axis tuple element, not a position."""
    import ast as _ast
    v = sub.value
    return isinstance(v, _ast.Call) and _const_index(sub) == 0 and any(k in _ast.unparse(v.func) for k in ("nonzero", "where")) \
        and "flatnonzero" not in _ast.unparse(v.func)
