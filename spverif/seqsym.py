"""Symbolic regular sequences: what a list built from "one element, then some elements per gap, then one
element" contains, independent of how it is spelled.

A sequence is a list of segments
    ("one", key)            one element
    ("per", [key, ...])     for each gap, in order, these elements
with keys in normal form:
    "G[0]" / "G[-1]"        first / last instant of the grid array
    "T[g]" / "T[g+1]"       source instant before / after the gap g   (T = the source time array)
    anything else: the unparsed expression (so that a wrong element shows up by name)

seq_of(...) reads list literals, +, sum(generator, []), names (definition followed by the in-place
growth between definition and use: +=, .append, .extend, loops over the gaps that do those), list(),
X.tolist(), arrays indexed by the gap index array, stride-2 slices, starred elements of a list display
and itertools.chain.from_iterable(zip(X, Y)) / chain(*zip(X, Y)).
"""

import ast

from .norm import NotAlgebraic, Poly, py_poly


class SeqEnv:
    def __init__(self, flow, grid, tarr_is, gap_is):
        self.flow = flow
        self.grid = grid            # name of the grid array
        self.tarr_is = tarr_is      # predicate(name) -> is the source time array
        self.gap_is = gap_is        # predicate(name) -> is a gap index array
        self.elem = {}              # loop variable -> key of the element it stands for


def key_of(env, e):
    """Normal-form key of a scalar element expression."""
    while isinstance(e, ast.Call) and isinstance(e.func, ast.Name) and e.func.id in ("int", "float") and len(e.args) == 1:
        e = e.args[0]
    if isinstance(e, ast.Name) and e.id in env.elem:
        return env.elem[e.id]
    if isinstance(e, ast.Name):
        dv = env.flow.def_value(e)
        if dv is not None:
            return key_of(env, dv)
    if isinstance(e, ast.Subscript) and isinstance(e.value, ast.Name) and not isinstance(e.slice, ast.Slice):
        base = e.value.id
        if base == env.grid:
            try:
                c = py_poly(e.slice).const_or_none()
            except NotAlgebraic:
                c = None
            if c is not None and c == int(c):
                return "G[%d]" % int(c)
        if env.tarr_is(base):
            k = _gap_offset(env, e.slice)
            if k is not None:
                return "T[g%s]" % ("" if k == 0 else "%+d" % k)
    return ast.unparse(e)


def _gap_offset(env, idx):
    """idx = GAP + k (elementwise over the gap array) or g + k with g a loop variable over it -> k."""
    try:
        p = py_poly(idx)
    except NotAlgebraic:
        return None
    ats = sorted(p.atoms())
    if len(ats) != 1:
        return None
    a = ats[0]
    if p.coeff_of_atom(a).const_or_none() != 1:
        return None
    k = p.without_atom(a).const_or_none()
    if k is None or k != int(k):
        return None
    if env.gap_is(a) or env.elem.get(a) == "g":
        return int(k)
    return None


def _elementwise(env, e):
    """An array with one element per gap -> the key of that element, else None."""
    while isinstance(e, ast.Call) and ((isinstance(e.func, ast.Name) and e.func.id in ("list", "tuple")) or
                                       (isinstance(e.func, ast.Attribute) and e.func.attr == "tolist")):
        if isinstance(e.func, ast.Attribute):
            e = e.func.value
        elif len(e.args) == 1:
            e = e.args[0]
        else:
            return None
    if isinstance(e, ast.Name):
        dv = env.flow.def_value(e)
        return _elementwise(env, dv) if dv is not None else None
    if isinstance(e, ast.Subscript) and isinstance(e.value, ast.Name) and env.tarr_is(e.value.id) and not isinstance(e.slice, ast.Slice):
        k = _gap_offset(env, e.slice)
        if k is not None:
            return "T[g%s]" % ("" if k == 0 else "%+d" % k)
    return None


def _zip_per(env, it, target):
    """`for a, b in zip(X, Y)` / `for g in GAP`: bind loop variables; returns True if the loop runs over the gaps."""
    it0 = it
    while isinstance(it0, ast.Call) and isinstance(it0.func, ast.Name) and it0.func.id in ("list", "tuple") and len(it0.args) == 1:
        it0 = it0.args[0]
    if isinstance(it0, ast.Call) and isinstance(it0.func, ast.Name) and it0.func.id == "zip" and not it0.keywords \
            and isinstance(target, (ast.Tuple, ast.List)) and len(target.elts) == len(it0.args) and all(isinstance(t, ast.Name) for t in target.elts):
        keys = [_elementwise(env, a) for a in it0.args]
        if all(k is not None for k in keys):
            for t, k in zip(target.elts, keys):
                env.elem[t.id] = k
            return True
        return False
    if isinstance(it0, ast.Name) and env.gap_is(it0.id) and isinstance(target, ast.Name):
        env.elem[target.id] = "g"
        return True
    if isinstance(target, ast.Name):
        k = _elementwise(env, it0)
        if k is not None:
            env.elem[target.id] = k
            return True
    return False


def seq_of(env, e, depth=0):
    """-> list of segments, or None."""
    if e is None or depth > 10:
        return None
    if isinstance(e, (ast.List, ast.Tuple)):
        out = []
        for x in e.elts:
            if isinstance(x, ast.Starred):
                sub = seq_of(env, x.value, depth + 1)
                if sub is None:
                    return None
                out += sub
            else:
                out.append(("one", key_of(env, x)))
        return out
    if isinstance(e, ast.Call) and ast.unparse(e.func).endswith("chain.from_iterable") and len(e.args) == 1 and not e.keywords:
        # chain.from_iterable(zip(X, Y)) = sum((list(p) for p in zip(X, Y)), [])
        z = e.args[0]
        if isinstance(z, ast.Call) and isinstance(z.func, ast.Name) and z.func.id == "zip" and not z.keywords and z.args:
            keys = [_elementwise(env, a) for a in z.args]
            return [("per", keys)] if all(k is not None for k in keys) else None
        return None
    if isinstance(e, ast.Call) and ast.unparse(e.func).split(".")[-1] == "chain" and len(e.args) == 1 and isinstance(e.args[0], ast.Starred) and not e.keywords:
        z = e.args[0].value
        if isinstance(z, ast.Call) and isinstance(z.func, ast.Name) and z.func.id == "zip" and not z.keywords and z.args:
            keys = [_elementwise(env, a) for a in z.args]
            return [("per", keys)] if all(k is not None for k in keys) else None
        return None
    if isinstance(e, ast.BinOp) and isinstance(e.op, ast.Add):
        a, b = seq_of(env, e.left, depth + 1), seq_of(env, e.right, depth + 1)
        return a + b if a is not None and b is not None else None
    if isinstance(e, ast.Call) and isinstance(e.func, ast.Name) and e.func.id in ("list", "tuple") and len(e.args) == 1:
        k = _elementwise(env, e)
        if k is not None:
            return [("per", [k])]
        return seq_of(env, e.args[0], depth + 1)
    if isinstance(e, ast.Call) and isinstance(e.func, ast.Attribute) and e.func.attr == "tolist" and not e.args:
        k = _elementwise(env, e)
        return [("per", [k])] if k is not None else None
    if isinstance(e, ast.Call) and isinstance(e.func, ast.Name) and e.func.id == "sum" and len(e.args) == 2 \
            and isinstance(e.args[1], (ast.List, ast.Tuple)) and not e.args[1].elts:
        g = e.args[0]
        if isinstance(g, (ast.GeneratorExp, ast.ListComp)) and len(g.generators) == 1 and not g.generators[0].ifs:
            gen = g.generators[0]
            saved = dict(env.elem)
            try:
                if not _zip_per(env, gen.iter, gen.target):
                    # `list(pair) for pair in zip(X, Y)`: the element is the whole tuple
                    it0 = gen.iter
                    if isinstance(gen.target, ast.Name) and isinstance(it0, ast.Call) and isinstance(it0.func, ast.Name) and it0.func.id == "zip":
                        keys = [_elementwise(env, a) for a in it0.args]
                        elt = g.elt
                        while isinstance(elt, ast.Call) and isinstance(elt.func, ast.Name) and elt.func.id in ("list", "tuple") and len(elt.args) == 1:
                            elt = elt.args[0]
                        if all(k is not None for k in keys) and isinstance(elt, ast.Name) and elt.id == gen.target.id:
                            return [("per", keys)]
                    return None
                inner = seq_of(env, g.elt, depth + 1)
                if inner is None or any(s[0] != "one" for s in inner):
                    return None
                return [("per", [s[1] for s in inner])]
            finally:
                env.elem = saved
        return None
    if isinstance(e, ast.Subscript) and isinstance(e.slice, ast.Slice):
        sl = e.slice
        def lit(x, d):
            if x is None:
                return d
            return x.value if isinstance(x, ast.Constant) and isinstance(x.value, int) else None
        lo, st = lit(sl.lower, 0), lit(sl.step, 1)
        if sl.upper is None and st == 2 and lo in (0, 1):
            base = seq_of(env, e.value, depth + 1)
            return stride2(base, lo) if base is not None else None
        return None
    if isinstance(e, ast.Name):
        return _name_seq(env, e, depth)
    k = _elementwise(env, e)
    if k is not None:
        return [("per", [k])]
    return None


def stride2(seq, start):
    """Elements at positions start, start+2, ... of a sequence whose per-gap segments have an even number of elements."""
    out = []
    par = 0           # parity of the position of the next element
    for kind, val in seq:
        if kind == "one":
            if par == start:
                out.append(("one", val))
            par ^= 1
        else:
            if len(val) % 2:
                return None
            picked = [k for j, k in enumerate(val) if (par + j) % 2 == start]
            out.append(("per", picked))
    return out


def _name_seq(env, name_node, depth):
    flow = env.flow
    dv = flow.def_value(name_node, mutable_ok=True)
    dn = flow.unique_def_node(name_node)
    un = flow.cfg.node_containing(name_node)
    augs = []
    if dv is None or dn is None:
        # one plain assignment, then `name += ...` statements (each of those is a new binding of the name)
        defs = flow.reaching_defs(name_node) or set()
        plain = []
        for d in defs:
            st = flow.cfg.stmt_of.get(d)
            if isinstance(st, ast.AugAssign) and isinstance(st.target, ast.Name) and st.target.id == name_node.id and isinstance(st.op, ast.Add):
                augs.append(st)
            elif isinstance(st, ast.Assign):
                plain.append((d, st))
            else:
                return None
        # the augmented assignments themselves read earlier bindings: find the single plain root
        root = None
        for x in ast.walk(flow.f.node):
            if isinstance(x, ast.Assign) and len(x.targets) == 1 and isinstance(x.targets[0], ast.Name) and x.targets[0].id == name_node.id:
                if root is not None:
                    return None
                root = x
        if root is None:
            return None
        augs = [x for x in ast.walk(flow.f.node) if isinstance(x, ast.AugAssign) and isinstance(x.target, ast.Name) and x.target.id == name_node.id]
        if any(not isinstance(a.op, ast.Add) for a in augs):
            return None
        dv, dn = root.value, flow.cfg.node(root)
        if dn is None:
            return None
    base = seq_of(env, dv, depth + 1)
    if base is None:
        return None
    muts = flow.mutations_between(name_node.id, dn, un) if un is not None else []
    muts = list(muts) + [a for a in augs if a not in muts]
    # in source order
    muts = sorted(muts, key=lambda s: (getattr(s, "lineno", 0), getattr(s, "col_offset", 0)))
    handled = set()
    out = list(base)
    for m in muts:
        if id(m) in handled:
            continue
        loop = getattr(m, "parent", None)
        if isinstance(loop, ast.For) and m in loop.body:
            # a loop over the gaps whose body only grows this list
            body_muts = [s for s in loop.body if s in muts]
            others = [s for s in loop.body if s not in muts and not isinstance(s, (ast.Pass, ast.Expr))]
            if others or loop.orelse:
                return None
            saved = dict(env.elem)
            try:
                if not _zip_per(env, loop.iter, loop.target):
                    return None
                keys = []
                for s in body_muts:
                    inc = _growth(env, s, name_node.id, depth)
                    if inc is None or any(x[0] != "one" for x in inc):
                        return None
                    keys += [x[1] for x in inc]
                    handled.add(id(s))
                out.append(("per", keys))
            finally:
                env.elem = saved
            continue
        inc = _growth(env, m, name_node.id, depth)
        if inc is None:
            return None
        out += inc
        handled.add(id(m))
    return out


def _growth(env, st, name, depth):
    """What one statement appends to the list `name`."""
    if isinstance(st, ast.AugAssign) and isinstance(st.target, ast.Name) and st.target.id == name and isinstance(st.op, ast.Add):
        return seq_of(env, st.value, depth + 1)
    if isinstance(st, ast.Expr) and isinstance(st.value, ast.Call) and isinstance(st.value.func, ast.Attribute) \
            and isinstance(st.value.func.value, ast.Name) and st.value.func.value.id == name and len(st.value.args) == 1:
        if st.value.func.attr == "append":
            return [("one", key_of(env, st.value.args[0]))]
        if st.value.func.attr == "extend":
            return seq_of(env, st.value.args[0], depth + 1)
    return None


def show(seq):
    if seq is None:
        return "?"
    return " ++ ".join(("[%s]" % v) if k == "one" else ("[%s for each gap]" % ", ".join(v)) for k, v in seq) or "[]"
