"""Labelled edits for C05."""

F = "spowtd/fit_offsets.py"
S = "spowtd/schema.sql"
EDITS = [
    {"id": "coefficient-no-mean", "expect": "fire", "rule": "C05.O1", "file": F,
     "old": "        row_template[indices] = 1.0 / number_of_series_at_head", "new": "        row_template[indices] = 1.0"},
    {"id": "n-excludes-reference", "expect": "fire", "rule": "C05.O1", "file": F,
     "old": "        row_template[indices] = 1.0 / number_of_series_at_head", "new": "        row_template[indices] = 1.0 / len(indices)"},
    {"id": "own-column-plus", "expect": "fire", "rule": "C05.O1", "file": F,
     "old": "                A[row_index, series_index] -= 1", "new": "                A[row_index, series_index] += 1"},
    {"id": "own-column-half", "expect": "fire", "rule": "C05.O1", "file": F,
     "old": "                A[row_index, series_index] -= 1", "new": "                A[row_index, series_index] -= 0.5"},
    {"id": "rhs-sign", "expect": "fire", "rule": "C05.O1", "file": F,
     "old": "            b[row_index] = t - mean_time", "new": "            b[row_index] = mean_time - t"},
    {"id": "rhs-no-mean", "expect": "fire", "rule": "C05.O1", "file": F,
     "old": "            b[row_index] = t - mean_time", "new": "            b[row_index] = t"},
    {"id": "mean-median", "expect": "fire", "rule": "C05.O1", "file": F,
     "old": "        mean_time = np.mean(times)", "new": "        mean_time = np.median(times)"},
    {"id": "template-not-reset", "expect": "fire", "rule": "C05.O1", "file": F,
     "old": "        row_template[:] = 0\n        sids, times", "new": "        sids, times"},
    {"id": "own-column-unguarded-ref", "expect": "fire", "rule": "C05.O1", "file": F,
     "old": "            if series_id != reference_index:\n                series_index = series_indices[series_id]\n                A[row_index, series_index] -= 1",
     "new": "            series_index = series_indices.get(series_id, 0)\n            A[row_index, series_index] -= 1"},
    {"id": "solve-wrong-rhs", "expect": "fire", "rule": "C05.O2", "file": F,
     "old": "    ATd = np.dot(A.transpose(), b)", "new": "    ATd = np.dot(A.transpose(), np.abs(b))"},
    {"id": "solve-not-transposed", "expect": "fire", "rule": "C05.O2", "file": F,
     "old": "    ATA = np.dot(A.transpose(), A)", "new": "    ATA = np.dot(A.transpose(), np.abs(A))"},
    {"id": "zero-prepended", "expect": "fire", "rule": "C05.O3", "file": F,
     "old": "    offsets = np.concatenate((offsets, [0]))", "new": "    offsets = np.concatenate(([0], offsets))"},
    {"id": "reference-min", "expect": "fire", "rule": "C05.O3", "file": F,
     "old": "    reference_index = max(series_ids)", "new": "    reference_index = min(series_ids)"},
    {"id": "view-offset-dropped", "expect": "fire", "rule": "C05.O4", "file": S,
     "old": "       AVG(time_offset_s + mean_crossing_time)", "new": "       AVG(mean_crossing_time)"},
    {"id": "view-mean-as-integer-sum-over-count", "expect": "fire", "rule": "C05.O4", "file": S,
     "old": "       AVG(time_offset_s + mean_crossing_time)", "new": "       SUM(time_offset_s) / COUNT(*) + SUM(mean_crossing_time) / COUNT(*)"},
    {"id": "view-mean-as-total-over-count", "expect": "silent", "file": S,
     "old": "       AVG(time_offset_s + mean_crossing_time)", "new": "       TOTAL(time_offset_s) / COUNT(*) + TOTAL(mean_crossing_time) / COUNT(*)"},
    {"id": "view-mean-of-each-term", "expect": "silent", "file": S,
     "old": "       AVG(rain_depth_offset_mm + mean_crossing_depth_mm)", "new": "       AVG(rain_depth_offset_mm) + AVG(mean_crossing_depth_mm)"},
    {"id": "view-max", "expect": "fire", "rule": "C05.O4", "file": S,
     "old": "       AVG(rain_depth_offset_mm + mean_crossing_depth_mm)", "new": "       MAX(rain_depth_offset_mm + mean_crossing_depth_mm)"},
    {"id": "skip-coinciding-levels", "expect": "fire", "rule": "C05.O1", "file": F,
     "old": "        number_of_series_at_head = len(sids)\n", "new": "        if np.allclose(times, np.mean(times)):\n            continue\n        number_of_series_at_head = len(sids)\n"},
    {"id": "skip-reference-rows", "expect": "fire", "rule": "C05.O1", "file": F,
     "old": "        for series_id, t in series_at_head:\n            A[row_index] = row_template", "new": "        for series_id, t in series_at_head:\n            if series_id == reference_index:\n                continue\n            A[row_index] = row_template"},
    {"id": "deduplicated-rows", "expect": "fire", "rule": "C05.O1", "file": F,
     "old": "    ATA = np.dot(A.transpose(), A)", "new": "    equations = np.unique(np.column_stack((A, b)), axis=0)\n    A, b = equations[:, :-1], equations[:, -1]\n    ATA = np.dot(A.transpose(), A)"},
    {"id": "prune-two-series-levels", "expect": "fire", "rule": "C05.O1", "file": F,
     "old": "        if len(seq) == 1:", "new": "        if len(seq) <= 2:"},
    {"id": "prune-lt-two", "expect": "silent", "file": F,
     "old": "        if len(seq) == 1:", "new": "        if len(seq) < 2:"},
    # preserving
    {"id": "both-signs-flipped", "expect": "silent",
     "edits": [
         {"file": F, "old": "        row_template[indices] = 1.0 / number_of_series_at_head", "new": "        row_template[indices] = -1.0 / number_of_series_at_head"},
         {"file": F, "old": "                A[row_index, series_index] -= 1", "new": "                A[row_index, series_index] += 1"},
         {"file": F, "old": "            b[row_index] = t - mean_time", "new": "            b[row_index] = mean_time - t"},
     ]},
    {"id": "matmul-operator", "expect": "silent",
     "edits": [
         {"file": F, "old": "    ATA = np.dot(A.transpose(), A)", "new": "    ATA = A.T @ A"},
         {"file": F, "old": "    ATd = np.dot(A.transpose(), b)", "new": "    ATd = A.T @ b"},
     ]},
    {"id": "inline-count", "expect": "silent", "file": F,
     "old": "        row_template[indices] = 1.0 / number_of_series_at_head", "new": "        row_template[indices] = 1.0 / len(series_at_head)"},
]

EDITS += [
    {"id": "members-by-comprehension", "expect": "silent", "file": F,
     "old": "        sids, times = list(zip(*series_at_head))",
     "new": "        sids = [series_id for series_id, t in series_at_head]\n        times = [t for series_id, t in series_at_head]"},
    {"id": "mean-over-non-reference-members", "expect": "fire", "rule": "C05.O1", "file": F,
     "old": "        sids, times = list(zip(*series_at_head))",
     "new": "        sids = [series_id for series_id, t in series_at_head]\n        times = [t for series_id, t in series_at_head if series_id != reference_index]"},
    {"id": "count-over-non-reference-members", "expect": "fire", "rule": "C05.O1", "file": F,
     "old": "        sids, times = list(zip(*series_at_head))",
     "new": "        sids = [series_id for series_id, t in series_at_head if series_id != reference_index]\n        times = [t for series_id, t in series_at_head]"},
]

# round 8 (hardening that is not)
EDITS += [
    {'id': 'r8-truncated-svd-solve', 'expect': 'fire', 'rule': 'C05.O2', 'file': 'spowtd/fit_offsets.py', 'old': '    offsets = linalg_mod.solve(ATA, ATd)  # pylint: disable=E1101', 'new': '    offsets = linalg_mod.lstsq(ATA, ATd, rcond=1e-7)[0]'},
]
