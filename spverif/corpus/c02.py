"""Labelled edits for C02."""

C = "spowtd/classify.py"
EDITS = [
    {"id": "key-positive", "expect": "fire", "rule": "C02.O1", "file": C,
     "old": "            return -abs(duration_differences[(rain_start, jump_start)])", "new": "            return abs(duration_differences[(rain_start, jump_start)])"},
    {"id": "pop-first", "expect": "fire", "rule": "C02.O1", "file": C,
     "old": "        jump = storm_candidates[storm].pop()", "new": "        jump = storm_candidates[storm].pop(0)"},
    {"id": "sorted-reverse", "expect": "fire", "rule": "C02.O1", "file": C,
     "old": "        candidates = sorted(jumps, key=absolute_duration_difference)", "new": "        candidates = sorted(jumps, key=absolute_duration_difference, reverse=True)"},
    {"id": "sorted-without-key", "expect": "fire", "rule": "C02.O1", "file": C,
     "old": "        candidates = sorted(jumps, key=absolute_duration_difference)", "new": "        candidates = sorted(jumps)"},
    {"id": "acceptor-keeps-farther", "expect": "fire", "rule": "C02.O2", "file": C,
     "old": "            if jump_preferences[jump][storm] > jump_preferences[jump][matches[jump]]:", "new": "            if jump_preferences[jump][storm] < jump_preferences[jump][matches[jump]]:"},
    {"id": "preference-positive", "expect": "fire", "rule": "C02.O2", "file": C,
     "old": "            rain_start: -abs(time_offset(rain_start)) for rain_start in rains", "new": "            rain_start: abs(time_offset(rain_start)) for rain_start in rains"},
    {"id": "overwrite-before-requeue", "expect": "fire", "rule": "C02.O3", "file": C,
     "old": "                matchable_storms.add(matches[jump])\n                matches[jump] = storm", "new": "                matches[jump] = storm\n                matchable_storms.add(matches[jump])"},
    {"id": "displaced-not-requeued", "expect": "fire", "rule": "C02.O3", "file": C,
     "old": "                matchable_storms.add(matches[jump])\n                matches[jump] = storm", "new": "                matches[jump] = storm"},
    {"id": "rejected-not-requeued", "expect": "fire", "rule": "C02.O3", "file": C,
     "old": "        if storm_is_free and storm_candidates[storm]:\n            matchable_storms.add(storm)\n", "new": ""},
    {"id": "requeue-append", "expect": "fire", "rule": "C02.O3", "file": C,
     "old": "        if storm_is_free and storm_candidates[storm]:\n            matchable_storms.add(storm)", "new": "        if storm_is_free and storm_candidates[storm]:\n            matchable_storms.append(storm)"},
    {"id": "loop-once", "expect": "fire", "rule": "C02.O4", "file": C,
     "old": "    while matchable_storms:", "new": "    while len(matchable_storms) > 1:"},
    {"id": "duration-uncorrected", "expect": "fire", "rule": "C02.O6", "file": C,
     "old": "            (rain_stop - rain_start) - (jump_stop - jump_start - 1)", "new": "            (rain_stop - rain_start) - (jump_stop - jump_start)"},
    {"id": "duration-sum", "expect": "fire", "rule": "C02.O6", "file": C,
     "old": "            (rain_stop - rain_start) - (jump_stop - jump_start - 1)", "new": "            (rain_stop - rain_start) + (jump_stop - jump_start - 1)"},
    {"id": "roles-swapped-rise-by-duration", "expect": "fire", "rule": "C02.O5", "file": C,
     "old": "            return jump_start - rain_start\n", "new": "            return duration_differences[(rain_start, jump_start)]\n"},
    {"id": "displaced-requeued-unconditionally", "expect": "fire", "rule": "C02.O3", "file": C,
     "old": "                if storm_candidates[matches[jump]]:\n                    matchable_storms.add(matches[jump])", "new": "                matchable_storms.add(matches[jump])"},
    {"id": "offset-shifted-by-one", "expect": "fire", "rule": "C02.O5", "file": C,
     "old": "            return jump_start - rain_start\n", "new": "            return jump_start - (rain_start + 1)\n"},
    # preserving
    {"id": "double-flip", "expect": "silent",
     "edits": [
         {"file": C, "old": "            return -abs(duration_differences[(rain_start, jump_start)])", "new": "            return abs(duration_differences[(rain_start, jump_start)])"},
         {"file": C, "old": "        jump = storm_candidates[storm].pop()", "new": "        jump = storm_candidates[storm].pop(0)"},
     ]},
    {"id": "acceptor-ge", "expect": "silent", "file": C,
     "old": "            if jump_preferences[jump][storm] > jump_preferences[jump][matches[jump]]:", "new": "            if jump_preferences[jump][storm] >= jump_preferences[jump][matches[jump]]:"},
    {"id": "duration-mirrored", "expect": "silent", "file": C,
     "old": "            (rain_stop - rain_start) - (jump_stop - jump_start - 1)", "new": "            (jump_stop - 1 - jump_start) - (rain_stop - rain_start)"},
    {"id": "offset-mirrored", "expect": "silent", "file": C,
     "old": "            return jump_start - rain_start\n", "new": "            return rain_start - jump_start\n"},
    {"id": "lambda-key", "expect": "silent", "file": C,
     "old": "        candidates = sorted(jumps, key=absolute_duration_difference)",
     "new": "        candidates = sorted(jumps, key=lambda j: -abs(duration_differences[(rain_start, j)]))"},
]

EDITS += [
    {'id': 'requeue-guard-too-strong', 'expect': 'fire', 'rule': 'C02.O3', 'file': 'spowtd/classify.py', 'old': '                if storm_candidates[matches[jump]]:\n                    matchable_storms.add(matches[jump])', 'new': '                if len(storm_candidates[matches[jump]]) > 1:\n                    matchable_storms.add(matches[jump])'},
    {'id': 'free-storm-requeue-guard-too-strong', 'expect': 'fire', 'rule': 'C02.O3', 'file': 'spowtd/classify.py', 'old': '        if storm_is_free and storm_candidates[storm]:', 'new': '        if storm_is_free and len(storm_candidates[storm]) > 1:'},
    {'id': 'requeue-guard-len-positive', 'expect': 'silent', 'file': 'spowtd/classify.py', 'old': '                if storm_candidates[matches[jump]]:\n                    matchable_storms.add(matches[jump])', 'new': '                if len(storm_candidates[matches[jump]]) > 0:\n                    matchable_storms.add(matches[jump])'},
]

# round 8 (hardening that is not)
EDITS += [
    {'id': 'r8-stale-guard-against-rise-keyed-map', 'expect': 'fire', 'rule': 'C02.O4', 'file': 'spowtd/classify.py', 'old': '        assert storm not in matches.items()\n', 'new': '        if storm in matches:\n            continue\n'},
    {'id': 'r8-empty-candidates-continue', 'expect': 'silent', 'file': 'spowtd/classify.py', 'old': '        assert storm_candidates[storm]\n', 'new': '        if not storm_candidates[storm]:\n            continue\n'},
]
