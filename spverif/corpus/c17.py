"""Labelled edits for C17."""

R = "spowtd/simulate_rise.py"
EDITS = [
    {"id": "cell-limits-shifted", "expect": "fire", "rule": "C17.O1", "file": R,
     "old": "            zeta_grid_mm[i - 1], zeta_grid_mm[i]\n", "new": "            zeta_grid_mm[i - 1], zeta_grid_mm[i + 0 - 1 + 1 - 1]\n"},
    {"id": "cell-from-first", "expect": "fire", "rule": "C17.O1", "file": R,
     "old": "            zeta_grid_mm[i - 1], zeta_grid_mm[i]\n", "new": "            zeta_grid_mm[0], zeta_grid_mm[i]\n"},
    {"id": "counter-starts-0", "expect": "fire", "rule": "C17.O1", "file": R,
     "old": "    i = 1\n    for zeta_mm in zeta_grid_mm[1:]:", "new": "    i = 0\n    for zeta_mm in zeta_grid_mm[1:]:"},
    {"id": "loop-skips-last", "expect": "fire", "rule": "C17.O1", "file": R,
     "old": "    for zeta_mm in zeta_grid_mm[1:]:", "new": "    for zeta_mm in zeta_grid_mm[1:-1]:"},
    {"id": "no-cumsum", "expect": "fire", "rule": "C17.O1", "file": R,
     "old": "    W_mm = np.cumsum(dW_mm)", "new": "    W_mm = dW_mm.copy()"},
    {"id": "first-element-nonzero", "expect": "fire", "rule": "C17.O1", "file": R,
     "old": "    dW_mm[0] = 0.0", "new": "    dW_mm[0] = specific_yield(zeta_grid_mm[0])"},
    {"id": "shift-sign", "expect": "fire", "rule": "C17.O2", "file": R,
     "old": "    W_mm += mean_storage_mm - W_mm.mean()", "new": "    W_mm += W_mm.mean() - mean_storage_mm"},
    {"id": "shift-no-centering", "expect": "fire", "rule": "C17.O2", "file": R,
     "old": "    W_mm += mean_storage_mm - W_mm.mean()", "new": "    W_mm += mean_storage_mm"},
    {"id": "value-not-integral", "expect": "fire", "rule": "C17.O1", "file": R,
     "old": "        dW_mm[i] = specific_yield.integrate(\n            zeta_grid_mm[i - 1], zeta_grid_mm[i]\n        )",
     "new": "        dW_mm[i] = specific_yield(zeta_grid_mm[i]) * (\n            zeta_grid_mm[i] - zeta_grid_mm[i - 1]\n        )"},
    {"id": "columns-swapped-in-select", "expect": "fire", "rule": "C17.O3", "file": R,
     "old": "    SELECT mean_crossing_depth_mm AS dynamic_storage_mm,\n           zeta_mm\n", "new": "    SELECT zeta_mm,\n           mean_crossing_depth_mm AS dynamic_storage_mm\n"},
    {"id": "mean-of-levels", "expect": "fire", "rule": "C17.O3", "file": R,
     "old": "        mean_storage_mm=avg_storage_mm.mean(),", "new": "        mean_storage_mm=avg_zeta_mm.mean(),"},
    {"id": "mean-dropped", "expect": "fire", "rule": "C17.O3", "file": R,
     "old": "        mean_storage_mm=avg_storage_mm.mean(),\n", "new": ""},
    {"id": "table-columns-swapped", "expect": "fire", "rule": "C17.O4", "file": R,
     "old": "                        avg_storage_mm.tolist(),\n                        W_mm.tolist(),", "new": "                        W_mm.tolist(),\n                        avg_storage_mm.tolist(),"},
    {"id": "level-in-cm", "expect": "fire", "rule": "C17.O4", "file": R,
     "old": "                        avg_zeta_mm.tolist(),", "new": "                        (avg_zeta_mm / 10).tolist(),"},
    {"id": "vector-measured", "expect": "fire", "rule": "C17.O4", "file": R,
     "old": "        yaml.dump(W_mm.tolist(), outfile)", "new": "        yaml.dump(avg_storage_mm.tolist(), outfile)"},
    {"id": "sy-from-transmissivity-key", "expect": "fire", "rule": "C17.O3", "file": R,
     "old": "yaml.safe_load(parameters)['specific_yield']", "new": "yaml.safe_load(parameters)['transmissivity']"},
    {"id": "shift-only-if-truthy", "expect": "fire", "rule": "C17.O2", "file": R,
     "old": "    W_mm += mean_storage_mm - W_mm.mean()", "new": "    if mean_storage_mm:\n        W_mm += mean_storage_mm - W_mm.mean()"},
    # preserving
    {"id": "range-loop", "expect": "silent", "file": R,
     "old": "    i = 1\n    for zeta_mm in zeta_grid_mm[1:]:\n        dW_mm[i] = specific_yield.integrate(\n            zeta_grid_mm[i - 1], zeta_grid_mm[i]\n        )\n        i += 1",
     "new": "    for i in range(1, len(zeta_grid_mm)):\n        dW_mm[i] = specific_yield.integrate(\n            zeta_grid_mm[i - 1], zeta_grid_mm[i]\n        )"},
    {"id": "shift-explicit", "expect": "silent", "file": R,
     "old": "    W_mm += mean_storage_mm - W_mm.mean()", "new": "    W_mm = W_mm - np.mean(W_mm) + mean_storage_mm"},
    {"id": "rename-result", "expect": "silent",
     "edits": [{"file": R, "old": "W_mm", "new": "storage_mm", "all": True}]},
]

_CELLS_OLD = ("    dW_mm = np.empty(zeta_grid_mm.shape, dtype=float)\n    dW_mm[0] = 0.0\n    i = 1\n    for zeta_mm in zeta_grid_mm[1:]:\n"
              "        dW_mm[i] = specific_yield.integrate(\n            zeta_grid_mm[i - 1], zeta_grid_mm[i]\n        )\n        i += 1\n")
EDITS += [
    {"id": "cells-by-comprehension", "expect": "silent", "file": R, "old": _CELLS_OLD,
     "new": "    dW_mm = np.zeros(zeta_grid_mm.shape, dtype=float)\n    dW_mm[1:] = [\n        specific_yield.integrate(lo, hi)\n"
            "        for lo, hi in zip(zeta_grid_mm[:-1], zeta_grid_mm[1:])\n    ]\n"},
    {"id": "cells-by-comprehension-limits-swapped", "expect": "fire", "rule": "C17.O1", "file": R, "old": _CELLS_OLD,
     "new": "    dW_mm = np.zeros(zeta_grid_mm.shape, dtype=float)\n    dW_mm[1:] = [\n        specific_yield.integrate(hi, lo)\n"
            "        for lo, hi in zip(zeta_grid_mm[:-1], zeta_grid_mm[1:])\n    ]\n"},
    {"id": "cells-by-comprehension-from-second", "expect": "fire", "rule": "C17.O1", "file": R, "old": _CELLS_OLD,
     "new": "    dW_mm = np.zeros(zeta_grid_mm.shape, dtype=float)\n    dW_mm[1:] = [\n        specific_yield.integrate(lo, hi)\n"
            "        for lo, hi in zip(zeta_grid_mm[1:], zeta_grid_mm[2:])\n    ]\n"},
]
