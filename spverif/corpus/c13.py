"""Labelled edits for C13."""

RI = "spowtd/rise.py"
RE = "spowtd/recession.py"
F = "spowtd/fit_offsets.py"
Z = "spowtd/zeta_grid.py"
S = "spowtd/schema.sql"
EDITS = [
    {"id": "rise-join-storm-as-interval", "expect": "fire", "rule": "C13.O1", "file": RI,
     "old": "      ON zi.start_epoch = zis.interval_start_epoch", "new": "      ON zi.start_epoch = zis.storm_start_epoch"},
    {"id": "view-total-rise-join", "expect": "fire", "rule": "C13.O1", "file": S,
     "old": "  ON zis.interval_start_epoch = zi.start_epoch", "new": "  ON zis.storm_start_epoch = zi.start_epoch"},
    {"id": "view-segment-join", "expect": "fire", "rule": "C13.O1", "file": S,
     "old": "  ON ri.start_epoch = str.interval_start_epoch;", "new": "  ON ri.start_epoch = str.storm_start_epoch;"},
    {"id": "recession-all-intervals", "expect": "fire", "rule": "C13.O2", "file": RE,
     "old": "    WHERE interval_type = 'interstorm'\n    ORDER BY start_epoch", "new": "    ORDER BY start_epoch"},
    {"id": "recession-storm-kind", "expect": "fire", "rule": "C13.O2", "file": RE,
     "old": "    WHERE interval_type = 'interstorm'\n    ORDER BY start_epoch", "new": "    WHERE interval_type = 'storm'\n    ORDER BY start_epoch"},
    {"id": "depth-by-rise-start", "expect": "fire", "rule": "C13.O3", "file": RI,
     "old": "            {'storm_start_epoch': storm_start_epoch},", "new": "            {'storm_start_epoch': zeta_start_epoch},"},
    {"id": "series-final-level-wrong", "expect": "fire", "rule": "C13.O3", "file": RI,
     "old": "        final_zeta = zeta_seq[-1]", "new": "        final_zeta = zeta_seq[-2]"},
    {"id": "series-depth-not-from-zero", "expect": "fire", "rule": "C13.O3", "file": RI,
     "old": "            (np.array((0, total_depth)), np.array((initial_zeta, final_zeta)))", "new": "            (np.array((total_depth, 0)), np.array((initial_zeta, final_zeta)))"},
    {"id": "rise-start-from-rain-interval", "expect": "fire", "rule": "C13.O3", "file": RI,
     "old": "    for i, series_id in enumerate(indices):\n        interval = zeta_intervals[series_id]", "new": "    for i, series_id in enumerate(indices):\n        interval = rain_intervals[series_id]"},
    {"id": "rise-start-by-position", "expect": "fire", "rule": "C13.O3", "file": RI,
     "old": "    for i, series_id in enumerate(indices):\n        interval = zeta_intervals[series_id]", "new": "    for i, series_id in enumerate(indices):\n        interval = zeta_intervals[i]"},
    {"id": "recession-offset-by-series-id", "expect": "fire", "rule": "C13.O3", "file": RE,
     "old": "                'time_offset_s': (offsets[i] - mean_zero_crossing_time_s),", "new": "                'time_offset_s': (offsets[series_id] - mean_zero_crossing_time_s),"},
    {"id": "recession-series-levels-shifted", "expect": "fire", "rule": "C13.O3", "file": RE,
     "old": "        series.append((epoch[indices], zeta_mm[indices]))", "new": "        series.append((epoch[indices], zeta_mm[indices + 1]))"},
    {"id": "conditional-append", "expect": "fire", "rule": "C13.O4", "file": RI,
     "old": "        rain_intervals.append((rain_start, rain_stop))\n        zeta_intervals.append((zeta_start, zeta_thru + 1))",
     "new": "        rain_intervals.append((rain_start, rain_stop))\n        if total_depth > 0:\n            zeta_intervals.append((zeta_start, zeta_thru + 1))"},
    {"id": "ids-not-mapped-back", "expect": "fire", "rule": "C13.O4", "file": F,
     "old": "    original_indices = [index_mapping[series_id] for series_id in series_ids]", "new": "    original_indices = list(series_ids)"},
    {"id": "mapping-not-mapped-back", "expect": "fire", "rule": "C13.O4", "file": F,
     "old": "            (index_mapping[series_id], t_mean)\n", "new": "            (series_id, t_mean)\n"},
    {"id": "grid-upper-floor", "expect": "fire", "rule": "C13.O5", "file": Z,
     "old": "                int(math.ceil(zeta_bounds[1] / grid_interval_mm)),", "new": "                int(math.floor(zeta_bounds[1] / grid_interval_mm)),"},
    {"id": "grid-bounds-swapped", "expect": "fire", "rule": "C13.O5", "file": Z,
     "old": "    SELECT min(zeta_mm), max(zeta_mm)", "new": "    SELECT max(zeta_mm), min(zeta_mm)"},
    {"id": "cursor-reexecuted-in-lazy-loop", "expect": "fire", "rule": "C13.O6", "file": RE,
     "old": "        series.append((epoch[indices], zeta_mm[indices]))", "new": "        series.append((epoch[indices], zeta_mm[indices]))\n        cursor.execute('SELECT 1')"},
    {"id": "grid-step-dropped", "expect": "fire", "rule": "C13.O3", "file": F,
     "old": "    head_mapping = build_head_mapping(sorted_list, head_step)", "new": "    head_mapping = build_head_mapping(sorted_list)"},
    {"id": "grid-step-by-keyword", "expect": "silent", "file": F,
     "old": "    head_mapping = build_head_mapping(sorted_list, head_step)", "new": "    head_mapping = build_head_mapping(sorted_list, head_step=head_step)"},
    # preserving
    {"id": "fetchall-then-execute", "expect": "silent", "file": RE,
     "old": "    for i, (interval_start_epoch, interval_thru_epoch) in enumerate(cursor):", "new": "    for i, (interval_start_epoch, interval_thru_epoch) in enumerate(cursor.fetchall()):"},
    {"id": "join-mirrored", "expect": "silent", "file": RI,
     "old": "      ON zi.start_epoch = zis.interval_start_epoch", "new": "      ON zis.interval_start_epoch = zi.start_epoch"},
    {"id": "grid-lower-floordiv", "expect": "silent", "file": Z,
     "old": "                int(math.floor(zeta_bounds[0] / grid_interval_mm)),", "new": "                int(zeta_bounds[0] // grid_interval_mm),"},
]

EDITS += [
    {"id": "translation-table-inverted", "expect": "fire", "rule": "C13.O4", "file": F,
     "old": "        index_mapping[new_index] = original_index", "new": "        index_mapping[original_index] = new_index"},
    {"id": "table-keeps-sorted-position", "expect": "fire", "rule": "C13.O4", "file": F,
     "old": "        ((t - t.min(), H, index) for index, (t, H) in enumerate(series_list)),", "new": "        ((t - t.min(), H, 0) for index, (t, H) in enumerate(series_list)),"},
]

# round 8 (hardening that is not)
EDITS += [
    {'id': 'r8-classification-discarded-under-curves', 'expect': 'fire', 'rule': 'C13.O2', 'file': 'spowtd/classify.py', 'old': '    check_for_uniform_time_steps(epoch)\n    (time_step_h,) = cursor.execute(', 'new': '    cursor.execute("DELETE FROM zeta_interval")\n    check_for_uniform_time_steps(epoch)\n    (time_step_h,) = cursor.execute('},
]
