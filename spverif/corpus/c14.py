"""Labelled edits for C14."""

P = "spowtd/spline.py"
Y = "spowtd/specific_yield.py"
EDITS = [
    {"id": "left-piece-uses-b", "expect": "fire", "rule": "C14.O3", "file": P,
     "old": "integral += self(xmin) * (min(xmin, b) - a)", "new": "integral += self(xmin) * (b - a)"},
    {"id": "left-piece-value-at-a", "expect": "silent", "file": P,
     "old": "integral += self(xmin) * (min(xmin, b) - a)", "new": "integral += self(a) * (min(xmin, b) - a)"},
    {"id": "middle-unclamped-upper", "expect": "silent", "file": P,
     "old": "integral += splint(max(a, xmin), min(xmax, b), self._tck)", "new": "integral += splint(max(a, xmin), b, self._tck)"},
    {"id": "middle-guard-wrong", "expect": "fire", "rule": "C14.O3", "file": P,
     "old": "        if b > xmin:\n", "new": "        if a > xmin:\n"},
    {"id": "right-piece-full-length", "expect": "fire", "rule": "C14.O3", "file": P,
     "old": "integral += self(max(a, xmax)) * (b - max(a, xmax))", "new": "integral += self(max(a, xmax)) * (b - xmax)"},
    {"id": "right-piece-dropped", "expect": "fire", "rule": "C14.O3", "file": P,
     "old": "        if b > xmax:\n", "new": "        if b > xmax and False:\n"},
    {"id": "swap-not-negated", "expect": "fire", "rule": "C14.O3", "file": P,
     "old": "            return -self.integrate(b, a)", "new": "            return self.integrate(b, a)"},
    {"id": "right-value-at-xmin", "expect": "fire", "rule": "C14.O3", "file": P,
     "old": "integral += self(max(a, xmax)) * (b - max(a, xmax))", "new": "integral += self(xmin) * (b - max(a, xmax))"},
    {"id": "clamp-min-only", "expect": "fire", "rule": "C14.O2", "file": P,
     "old": "        x_clamped = np.minimum(\n            np.maximum(x, self._tck[0][0]), self._tck[0][-1]\n        )",
     "new": "        x_clamped = np.minimum(x, self._tck[0][-1])"},
    {"id": "clamp-swapped-ends", "expect": "fire", "rule": "C14.O2", "file": P,
     "old": "np.maximum(x, self._tck[0][0]), self._tck[0][-1]", "new": "np.maximum(x, self._tck[0][-1]), self._tck[0][0]"},
    {"id": "smoothing-default-nonzero", "expect": "fire", "rule": "C14.O1", "file": P,
     "old": "    def from_points(cls, points, s=0, order=3):", "new": "    def from_points(cls, points, s=0.001, order=3):"},
    {"id": "smoothing-dropped", "expect": "fire", "rule": "C14.O1", "file": P,
     "old": "        tck = splrep(x, y, s=s, k=order)", "new": "        tck = splrep(x, y, k=order)"},
    {"id": "sy-order-1", "expect": "fire", "rule": "C14.O1", "file": Y,
     "old": "                zip(zeta_knots_mm, sy_knots), order=3", "new": "                zip(zeta_knots_mm, sy_knots), order=1"},
    {"id": "sy-points-swapped", "expect": "fire", "rule": "C14.O1", "file": Y,
     "old": "                zip(zeta_knots_mm, sy_knots), order=3", "new": "                zip(sy_knots, zeta_knots_mm), order=3"},
    {"id": "integrate-limits-swapped", "expect": "fire", "rule": "C14.O4", "file": Y,
     "old": "        return self._spline.integrate(lo_water_level_mm, hi_water_level_mm)",
     "new": "        return self._spline.integrate(hi_water_level_mm, lo_water_level_mm)"},
    # preserving
    {"id": "clamp-other-nesting", "expect": "silent", "file": P,
     "old": "        x_clamped = np.minimum(\n            np.maximum(x, self._tck[0][0]), self._tck[0][-1]\n        )",
     "new": "        x_clamped = np.maximum(\n            np.minimum(x, self._tck[0][-1]), self._tck[0][0]\n        )"},
    {"id": "right-piece-simplified", "expect": "silent", "file": P,
     "old": "integral += self(max(a, xmax)) * (b - max(a, xmax))", "new": "integral += self(xmax) * (b - max(xmax, a))"},
    {"id": "ge-in-swap", "expect": "silent", "file": P,
     "old": "        if a > b:\n            return -self.integrate(b, a)\n        if a == b:\n            return 0.0",
     "new": "        if a == b:\n            return 0.0\n        if b < a:\n            return -self.integrate(b, a)"},
    {"id": "explicit-s-zero", "expect": "silent", "file": Y,
     "old": "                zip(zeta_knots_mm, sy_knots), order=3", "new": "                zip(zeta_knots_mm, sy_knots), s=0, order=3"},
]

EDITS += [
    {'id': 'swap-recurses-unswapped', 'expect': 'fire', 'rule': 'C14.O3', 'file': 'spowtd/spline.py', 'old': '            return -self.integrate(b, a)', 'new': '            return -self.integrate(a, b)'},
    {'id': 'clamp-to-foreign-bounds', 'expect': 'fire', 'rule': 'C14.O2', 'file': 'spowtd/spline.py', 'old': 'np.maximum(x, self._tck[0][0]), self._tck[0][-1]', 'new': 'np.maximum(x, self._tck[0][1]), self._tck[0][-1]'},
]

# round 7: value and integral of one function (C14.O4)
EDITS += [
    {'id': 'value-floored-integral-raw', 'expect': 'fire', 'rule': 'C14.O4', 'file': 'spowtd/specific_yield.py',
     'old': '        return self._spline(water_level_mm)', 'new': '        return np.maximum(self._spline(water_level_mm), 0.0)'},
    {'id': 'value-scaled-integral-raw', 'expect': 'fire', 'rule': 'C14.O4', 'file': 'spowtd/specific_yield.py',
     'old': '        return self._spline(water_level_mm)', 'new': '        return 0.01 * self._spline(water_level_mm)'},
    {'id': 'value-as-array', 'expect': 'silent', 'file': 'spowtd/specific_yield.py',
     'old': '        return self._spline(water_level_mm)', 'new': '        return np.asarray(self._spline(water_level_mm))'},
]

# round 8 (hardening that is not)
EDITS += [
    {'id': 'r8-first-point-dropped', 'expect': 'fire', 'rule': 'C14.O1', 'file': 'spowtd/spline.py', 'old': '        tck = splrep(x, y, s=s, k=order)', 'new': '        x, y = x[1:], y[1:]\n        tck = splrep(x, y, s=s, k=order)'},
    {'id': 'r8-isclose-deduplicated-knots', 'expect': 'fire', 'rule': 'C14.O1', 'file': 'spowtd/spline.py', 'old': '        tck = splrep(x, y, s=s, k=order)', 'new': '        x, y = np.asarray(x), np.asarray(y)\n        keep = np.concatenate(([True], ~np.isclose(x[1:], x[:-1])))\n        x, y = x[keep], y[keep]\n        tck = splrep(x, y, s=s, k=order)'},
    {'id': 'r8-columns-as-arrays', 'expect': 'silent', 'file': 'spowtd/spline.py', 'old': '        x, y = zip(*points)', 'new': "        x, y = (np.asarray(v, dtype='float64') for v in zip(*points))"},
    {'id': 'r8-integrate-isclose-zero', 'expect': 'fire', 'rule': 'C14.O4', 'file': 'spowtd/specific_yield.py', 'old': '        return self._spline.integrate(', 'new': '        if np.isclose(lo_water_level_mm, hi_water_level_mm):\n            return 0.0\n        return self._spline.integrate('},
    {'id': 'r8-integrate-exact-zero-width', 'expect': 'silent', 'file': 'spowtd/specific_yield.py', 'old': '        return self._spline.integrate(', 'new': '        if lo_water_level_mm == hi_water_level_mm:\n            return 0.0\n        return self._spline.integrate('},
]
