"""Labelled edits for C09."""

RI = "spowtd/rise.py"
RE = "spowtd/recession.py"
UI = "spowtd/user_interface.py"
EDITS = [
    {"id": "rise-truncate", "expect": "fire", "rule": "C09.O1", "file": RI,
     "old": "        reference_index = int(round(reference_zeta_mm / delta_z_mm))", "new": "        reference_index = int(reference_zeta_mm / delta_z_mm)"},
    {"id": "recession-floor", "expect": "fire", "rule": "C09.O1", "file": RE,
     "old": "        reference_index = int(round(reference_zeta_mm / delta_z_mm))", "new": "        reference_index = int(np.floor(reference_zeta_mm / delta_z_mm))"},
    {"id": "recession-floordiv", "expect": "fire", "rule": "C09.O1", "file": RE,
     "old": "        reference_index = int(round(reference_zeta_mm / delta_z_mm))", "new": "        reference_index = int(reference_zeta_mm // delta_z_mm)"},
    {"id": "rise-modulo-test", "expect": "fire", "rule": "C09.O2", "file": RI,
     "old": "        and not np.isclose(\n            round(reference_zeta_mm / delta_z_mm) * delta_z_mm,\n            reference_zeta_mm,\n        )",
     "new": "        and not np.allclose(reference_zeta_mm % delta_z_mm, 0)"},
    {"id": "recession-no-rejection", "expect": "fire", "file": RE,
     "old": "    if reference_zeta_off_grid:\n        raise ValueError(", "new": "    if reference_zeta_off_grid:\n        LOG.warning("},
    {"id": "rise-rejection-after-insert", "expect": "fire", "rule": "C09.O3",
     "edits": [
         {"file": RI, "old": "    if reference_zeta_off_grid:\n        raise ValueError(\n            'Reference zeta {} mm not evenly divisible by '\n            'zeta step {} mm'.format(reference_zeta_mm, delta_z_mm)\n        )\n", "new": ""},
         {"file": RI, "old": "    for discrete_zeta, crossings in zeta_mapping.items():", "new": "    if reference_zeta_off_grid:\n        raise ValueError('off grid')\n    for discrete_zeta, crossings in zeta_mapping.items():"},
     ]},
    {"id": "rise-default-lowest", "expect": "fire", "rule": "C09.O4", "file": RI,
     "old": "        reference_index = max(zeta_mapping.keys())", "new": "        reference_index = min(zeta_mapping.keys())"},
    {"id": "recession-origin-without-offset", "expect": "fire", "rule": "C09.O4", "file": RE,
     "old": "            offsets[indices.index(series_id)] + time_mean_s\n", "new": "            time_mean_s\n"},
    {"id": "recession-origin-plus", "expect": "fire", "rule": "C09.O4", "file": RE,
     "old": "                'time_offset_s': (offsets[i] - mean_zero_crossing_time_s),", "new": "                'time_offset_s': (offsets[i] + mean_zero_crossing_time_s),"},
    {"id": "rise-origin-not-subtracted", "expect": "fire", "rule": "C09.O4", "file": RI,
     "old": "                    offsets[i] - mean_zero_crossing_depth_mm\n", "new": "                    offsets[i]\n"},
    {"id": "cli-rise-ignores-r", "expect": "fire", "rule": "C09.O6", "file": UI,
     "old": "            rise_mod.find_rise_offsets(\n                connection=connection, reference_zeta_mm=args.reference_zeta_mm\n            )",
     "new": "            rise_mod.find_rise_offsets(connection=connection)"},
    {"id": "reference-selected-by-truthiness", "expect": "fire", "rule": "C09.O1", "file": RE,
     "old": "    if reference_zeta_mm is not None:\n        reference_index", "new": "    if reference_zeta_mm:\n        reference_index"},
    {"id": "guard-folded-into-explicit-branch", "expect": "silent", "file": RI,
     "old": "    reference_zeta_off_grid = (\n        reference_zeta_mm is not None\n        and not np.isclose(\n            round(reference_zeta_mm / delta_z_mm) * delta_z_mm,\n            reference_zeta_mm,\n        )\n    )\n    if reference_zeta_off_grid:\n        raise ValueError(\n            'Reference zeta {} mm not evenly divisible by '\n            'zeta step {} mm'.format(reference_zeta_mm, delta_z_mm)\n        )\n    if reference_zeta_mm is not None:\n        reference_index = int(round(reference_zeta_mm / delta_z_mm))\n",
     "new": "    if reference_zeta_mm is not None:\n        reference_index = int(round(reference_zeta_mm / delta_z_mm))\n        if not np.isclose(round(reference_zeta_mm / delta_z_mm) * delta_z_mm, reference_zeta_mm):\n            raise ValueError('Reference zeta off grid')\n"},
    # preserving
    {"id": "np-rint", "expect": "silent", "file": RI,
     "old": "        reference_index = int(round(reference_zeta_mm / delta_z_mm))", "new": "        reference_index = int(np.rint(reference_zeta_mm / delta_z_mm))"},
    {"id": "floor-plus-half", "expect": "silent", "file": RE,
     "old": "        reference_index = int(round(reference_zeta_mm / delta_z_mm))", "new": "        reference_index = int(np.floor(reference_zeta_mm / delta_z_mm + 0.5))"},
    {"id": "isclose-args-swapped", "expect": "silent", "file": RE,
     "old": "            round(reference_zeta_mm / delta_z_mm) * delta_z_mm,\n            reference_zeta_mm,\n", "new": "            reference_zeta_mm,\n            round(reference_zeta_mm / delta_z_mm) * delta_z_mm,\n"},
    {"id": "max-without-keys", "expect": "silent", "file": RI,
     "old": "        reference_index = max(zeta_mapping.keys())", "new": "        reference_index = max(zeta_mapping)"},
]

EDITS += [
    {"id": "dispatch-helper-without-handler", "expect": "silent",
     "patch": "seeded/C20-dispatch-helper-swallows-valueerror/patch.diff"},
]


# round 9 (a generalisation that is almost right)
EDITS += [
    {'id': 'r9-levels-left-out-default-over-all', 'expect': 'fire', 'rule': 'C09.O4', 'file': 'spowtd/rise.py', 'old': '    for discrete_zeta, crossings in zeta_mapping.items():\n        for series_id, mean_crossing_depth_mm in crossings:', 'new': '    for discrete_zeta, crossings in zeta_mapping.items():\n        if discrete_zeta > 0:\n            continue\n        for series_id, mean_crossing_depth_mm in crossings:'},
]
