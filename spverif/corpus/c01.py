"""Labelled edits for C01."""

C = "spowtd/classify.py"
S = "spowtd/schema.sql"
UI = "spowtd/user_interface.py"
EDITS = [
    {"id": "set-append", "expect": "fire", "rule": "C01.O1", "file": C,
     "old": "            matchable_storms.add(storm)", "new": "            matchable_storms.append(storm)"},
    {"id": "list-add", "expect": "fire", "rule": "C01.O1", "file": C,
     "old": "            rain_intervals.append(rain_interval)", "new": "            rain_intervals.add(rain_interval)"},
    {"id": "unguarded-rain-stop", "expect": "fire", "rule": "C01.O2", "file": C,
     "old": "    assert (\n        rain_stop == len(is_raining) or not is_raining[rain_stop]\n    ), \"No heavy rain at end of slice\"",
     "new": "    assert not is_raining[rain_stop], \"No heavy rain at end of slice\""},
    {"id": "epoch-at-stop", "expect": "fire", "rule": "C01.O2", "file": C,
     "old": "        storm_thru_epoch = int(epoch[rain_stop - 1] + (epoch[1] - epoch[0]))", "new": "        storm_thru_epoch = int(epoch[rain_stop])"},
    {"id": "unguarded-jump-stop", "expect": "fire", "rule": "C01.O2", "file": C,
     "old": "        jump_stop == len(head)\n        or head[jump_stop] - head[jump_stop - 1] <= jump_threshold", "new": "        head[jump_stop] - head[jump_stop - 1] <= jump_threshold"},
    {"id": "guard-after-use", "expect": "fire", "rule": "C01.O2", "file": C,
     "old": "        jump_stop == len(head)\n        or head[jump_stop] - head[jump_stop - 1] <= jump_threshold", "new": "        head[jump_stop] - head[jump_stop - 1] <= jump_threshold\n        or jump_stop == len(head)"},
    {"id": "leading-run-lost", "expect": "fire", "rule": "C01.O3", "file": C,
     "old": "    is_start = np.diff(np.concatenate(([0], int_vector))) > 0", "new": "    is_start = np.concatenate(([0], int_vector[1:] - int_vector[:-1])) > 0"},
    {"id": "start-marker-ge", "expect": "fire", "rule": "C01.O3", "file": C,
     "old": "    is_start = np.diff(np.concatenate(([0], int_vector))) > 0", "new": "    is_start = np.diff(np.concatenate(([0], int_vector))) >= 0"},
    {"id": "start-marker-appended", "expect": "fire", "rule": "C01.O3", "file": C,
     "old": "    is_start = np.diff(np.concatenate(([0], int_vector))) > 0", "new": "    is_start = np.diff(np.concatenate((int_vector, [0]))) > 0"},
    {"id": "no-uniqueness-left-storm", "expect": "fire", "rule": "C01.O4",
     "edits": [
         {"file": S, "old": "  storm_start_epoch integer NOT NULL UNIQUE,", "new": "  storm_start_epoch integer NOT NULL,"},
         {"file": S, "old": "    CHECK (start_epoch < thru_epoch),\n  PRIMARY KEY (start_epoch)\n);\n\n\nCREATE TABLE zeta_interval (", "new": "    CHECK (start_epoch < thru_epoch)\n);\n\n\nCREATE TABLE zeta_interval ("},
         {"file": C, "old": "    assert_equal(\n        len(set(rain_intervals)),\n        len(rain_intervals),\n        \"Rain intervals in matches not unique\",\n    )\n", "new": ""},
     ]},
    {"id": "second-writer-of-pairs", "expect": "fire", "rule": "C01.O4", "file": "spowtd/rise.py",
     "old": "    cursor.close()\n    connection.commit()", "new": "    cursor.execute('DELETE FROM zeta_interval_storm WHERE 0')\n    cursor.close()\n    connection.commit()"},
    {"id": "rise-from-other-storm", "expect": "fire", "rule": "C01.O5", "file": C,
     "old": "        jump = storm_candidates[storm].pop()", "new": "        jump = storm_candidates[min(storm_candidates)].pop()"},
    {"id": "store-previous-partner", "expect": "fire", "rule": "C01.O5", "file": C,
     "old": "                matchable_storms.add(matches[jump])\n                matches[jump] = storm", "new": "                matchable_storms.add(matches[jump])\n                matches[jump] = matches[jump]"},
    {"id": "overlap-shifted", "expect": "fire", "rule": "C01.O5", "file": C,
     "old": "        intersection = is_raining[:-1] & jump_mask", "new": "        intersection = is_raining[1:] & jump_mask"},
    {"id": "cli-thresholds-crossed", "expect": "fire", "rule": "C01.O6", "file": UI,
     "old": "                storm_rain_threshold_mm_h=args.storm_rain_threshold_mm_h,\n                rising_jump_threshold_mm_h=args.rising_jump_threshold_mm_h,",
     "new": "                storm_rain_threshold_mm_h=args.rising_jump_threshold_mm_h,\n                rising_jump_threshold_mm_h=args.storm_rain_threshold_mm_h,"},
    {"id": "start-marker-roll-wraps", "expect": "fire", "rule": "C01.O3", "file": C,
     "old": "    is_start = np.diff(np.concatenate(([0], int_vector))) > 0", "new": "    is_start = boolean_vector & ~np.roll(boolean_vector, 1)"},
    {"id": "no-run-label-by-position", "expect": "fire", "rule": "C01.O3", "file": C,
     "old": "    unique_indices = sorted(set(indices) - {0})", "new": "    unique_indices = sorted(set(indices))\n    del unique_indices[0]"},
    {"id": "marker-boolean-form", "expect": "silent", "file": C,
     "old": "    is_start = np.diff(np.concatenate(([0], int_vector))) > 0", "new": "    is_start = boolean_vector & ~np.concatenate(([False], boolean_vector[:-1]))"},
    # preserving
    {"id": "drop-unique-only", "expect": "silent", "file": S,
     "old": "  storm_start_epoch integer NOT NULL UNIQUE,", "new": "  storm_start_epoch integer NOT NULL,"},
    {"id": "guard-with-and", "expect": "silent", "file": C,
     "old": "        rain_stop == len(is_raining) or not is_raining[rain_stop]", "new": "        not (rain_stop < len(is_raining) and is_raining[rain_stop])"},
    {"id": "marker-with-prepend", "expect": "silent", "file": C,
     "old": "    is_start = np.diff(np.concatenate(([0], int_vector))) > 0", "new": "    is_start = np.diff(int_vector, prepend=0) > 0"},
    {"id": "marker-explicit-first", "expect": "silent", "file": C,
     "old": "    is_start = np.diff(np.concatenate(([0], int_vector))) > 0", "new": "    is_start = np.concatenate(([int_vector[0]], int_vector[1:] - int_vector[:-1])) > 0"},
    {"id": "rename-matches", "expect": "silent",
     "edits": [{"file": C, "old": "matches", "new": "pairing", "all": True}]},
]

EDITS += [
    {"id": "dispatch-helper-without-handler", "expect": "silent",
     "patch": "seeded/C20-dispatch-helper-swallows-valueerror/patch.diff"},
]


# round 9 (a generalisation that is almost right)
EDITS += [
    {'id': 'r9-second-jump-threshold', 'expect': 'fire', 'rule': 'C01.O7', 'edits': [{'file': 'spowtd/classify.py', 'old': 'def classify_interstorms(cursor, data_interval, rising_jump_threshold_mm_h):', 'new': 'def classify_interstorms(cursor, data_interval, rising_jump_threshold_mm_h, mystery_threshold_mm_h=20.0):'}, {'file': 'spowtd/classify.py', 'old': '    is_mystery_jump = get_mystery_jump_mask(is_jump, is_raining)', 'new': '    is_mystery_jump = get_mystery_jump_mask((rates > mystery_threshold_mm_h).astype(bool), is_raining)'}]},
]
