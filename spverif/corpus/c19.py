"""Labelled edits for C19."""

P = "spowtd/pestfiles.py"
SR = "spowtd/simulate_rise.py"
SC = "spowtd/simulate_recession.py"
EDITS = [
    {"id": "precision-default-6", "expect": "fire", "rule": "C19.O4",
     "edits": [{"file": P, "old": "    precision=17,\n", "new": "    precision=6,\n", "all": True}]},
    {"id": "precision-literal-in-format", "expect": "fire", "rule": "C19.O4", "file": P,
     "old": "            'e{{}}    {{:0.{}g}}    1.0   timeobs'.format(precision).format(", "new": "            'e{{}}    {{:0.{}g}}    1.0   timeobs'.format(8).format("},
    {"id": "recession-obs-ascending", "expect": "fire", "rule": "C19.O3", "file": P,
     "old": "    FROM average_recession_time\n    ORDER BY zeta_mm DESC\"\"\"", "new": "    FROM average_recession_time\n    ORDER BY zeta_mm\"\"\""},
    {"id": "simulate-recession-not-reversed", "expect": "fire", "rule": "C19.O3", "file": SC,
     "old": "        yaml.dump(list(reversed(elapsed_time_d.tolist())), outfile)", "new": "        yaml.dump(elapsed_time_d.tolist(), outfile)"},
    {"id": "rise-obs-descending", "expect": "fire", "rule": "C19.O3", "file": P,
     "old": "    SELECT mean_crossing_depth_mm AS dynamic_storage_mm\n    FROM average_rising_depth\n    ORDER BY zeta_mm\"\"\"\n    )\n    avg_storage_mm = [row[0] for row in cursor.fetchall()]\n    cursor.close()\n    nobsgp = 1",
     "new": "    SELECT mean_crossing_depth_mm AS dynamic_storage_mm\n    FROM average_rising_depth\n    ORDER BY zeta_mm DESC\"\"\"\n    )\n    avg_storage_mm = [row[0] for row in cursor.fetchall()]\n    cursor.close()\n    nobsgp = 1"},
    {"id": "npar-off-by-one", "expect": "fire", "rule": "C19.O1", "file": P,
     "old": "        npar = n_Sy + n_T + 1  # For minimum transmissivity", "new": "        npar = n_Sy + n_T  # For minimum transmissivity"},
    {"id": "nobs-rise-only", "expect": "fire", "rule": "C19.O1", "file": P,
     "old": "                str(n_rise_zeta + n_recession_zeta).rjust(6),", "new": "                str(n_rise_zeta).rjust(6),"},
    {"id": "npargp-wrong", "expect": "fire", "rule": "C19.O1", "file": P,
     "old": "        npargp = 3  # Three parameter groups", "new": "        npargp = 2  # Three parameter groups"},
    {"id": "nobsgp-wrong", "expect": "fire", "rule": "C19.O1", "file": P,
     "old": "    nobsgp = 2  # 2 observation groups", "new": "    nobsgp = 1  # 2 observation groups"},
    {"id": "peatclsm-param-dropped", "expect": "fire", "rule": "C19.O1", "file": P,
     "old": "            'alpha       none relative   NaN  1        20.0       alpha      1.0  0.0  1',\n", "new": ""},
    {"id": "pst-knot-index-from-zero", "expect": "fire", "rule": "C19.O2", "file": P,
     "old": "            'k_knot_{}   log  factor    NaN  1.0e-04  1.0e+5  k_knot   1.0  0.0  1'.format(\n                i + 1\n            )",
     "new": "            'k_knot_{}   log  factor    NaN  1.0e-04  1.0e+5  k_knot   1.0  0.0  1'.format(\n                i\n            )"},
    {"id": "tpl-placeholder-renamed", "expect": "fire", "rule": "C19.O2", "file": P,
     "old": "            '  alpha: @alpha                   @  # dimensionless',", "new": "            '  alpha: @alfa                    @  # dimensionless',"},
    {"id": "obs-group-undeclared", "expect": "fire", "rule": "C19.O2", "file": P,
     "old": "    lines += ['* observation groups', 'storageobs', 'timeobs']", "new": "    lines += ['* observation groups', 'storageobs', 'elapsedobs']"},
    {"id": "ins-recession-offset-lost", "expect": "fire", "rule": "C19.O2", "file": P,
     "old": "        for i in range(n_rise_zeta, n_rise_zeta + n_recession_zeta)", "new": "        for i in range(n_recession_zeta)"},
    {"id": "pst-recession-offset-lost", "expect": "fire", "rule": "C19.O2", "file": P,
     "old": "                n_rise_zeta + i + 1, t", "new": "                i + 1, t"},
    {"id": "ins-window-narrower", "expect": "fire", "rule": "C19.O5",
     "edits": [{"file": P, "old": "]3:24'", "new": "]3:20'", "all": True}]},
    {"id": "ins-window-shifted", "expect": "fire", "rule": "C19.O5",
     "edits": [{"file": P, "old": "]3:24'", "new": "]1:28'", "all": True}]},
    {"id": "marker-changed-in-simulate", "expect": "fire", "rule": "C19.O6", "file": SR,
     "old": "        outfile.write('# Rise curve simulation vector\\n')", "new": "        outfile.write('# Rise curve vector\\n')"},
    {"id": "marker-changed-in-ins", "expect": "fire", "rule": "C19.O6", "file": P,
     "old": "    lines += ['@# Recession curve simulation vector@']", "new": "    lines += ['@# Recession simulation vector@']"},
    {"id": "tpl-key-renamed", "expect": "fire", "rule": "C19.O7", "file": P,
     "old": "        lines += ['  K_knots_km_d:  # Conductivity, km /d']\n        lines += [\n            '    - @K_knot_{}@'",
     "new": "        lines += ['  K_knots_m_d:  # Conductivity, km /d']\n        lines += [\n            '    - @K_knot_{}@'"},
    {"id": "tpl-wrong-value", "expect": "fire", "rule": "C19.O7", "file": P,
     "old": "            '  zeta_max_cm: {}'.format(\n                parameters['transmissivity']['zeta_max_cm']\n            ),\n        ]\n    else:\n        assert parameters['transmissivity']['type'] == 'spline'\n        lines += ['  type: spline']\n        lines += ['  zeta_knots_mm:']\n        lines += [\n            '    - {}'.format(value)\n            for value in parameters['transmissivity']['zeta_knots_mm']\n        ]\n        lines += ['  K_knots_km_d:  # Conductivity, km /d']\n        lines += [\n            '    - @K_knot",
     "new": "            '  zeta_max_cm: {}'.format(\n                parameters['transmissivity']['alpha']\n            ),\n        ]\n    else:\n        assert parameters['transmissivity']['type'] == 'spline'\n        lines += ['  type: spline']\n        lines += ['  zeta_knots_mm:']\n        lines += [\n            '    - {}'.format(value)\n            for value in parameters['transmissivity']['zeta_knots_mm']\n        ]\n        lines += ['  K_knots_km_d:  # Conductivity, km /d']\n        lines += [\n            '    - @K_knot"},
    {"id": "pst-observation-from-levels", "expect": "fire", "rule": "C19.O3", "file": P,
     "old": "    SELECT CAST(elapsed_time_s AS double precision)\n             / (3600 * 24) AS elapsed_time_d\n    FROM average_recession_time\n    ORDER BY zeta_mm DESC",
     "new": "    SELECT zeta_mm AS elapsed_time_d\n    FROM average_recession_time\n    ORDER BY zeta_mm DESC"},
    # preserving
    {"id": "precision-18", "expect": "silent",
     "edits": [{"file": P, "old": "    precision=17,\n", "new": "    precision=18,\n", "all": True}]},
    {"id": "nobs-from-len", "expect": "silent", "file": P,
     "old": "                str(n_zeta).rjust(6),", "new": "                str(len(avg_storage_mm)).rjust(6),"},
    {"id": "fstring-ins", "expect": "silent", "file": P,
     "old": "    lines += ['l1 [e{}]3:24'.format(i + 1) for i in range(n_zeta)]", "new": "    lines += [f'l1 [e{i + 1}]3:24' for i in range(n_zeta)]"},
    {"id": "both-orders-flipped", "expect": "silent",
     "edits": [
         {"file": P, "old": "    FROM average_recession_time\n    ORDER BY zeta_mm DESC\"\"\"", "new": "    FROM average_recession_time\n    ORDER BY zeta_mm\"\"\""},
         {"file": SC, "old": "        yaml.dump(list(reversed(elapsed_time_d.tolist())), outfile)", "new": "        yaml.dump(elapsed_time_d.tolist(), outfile)"},
     ]},
    {"id": "upper-case-k-knot-group", "expect": "silent", "file": P,
     "old": "            'k_knot       relative 0.01  0.0  switch  2.0 parabolic',", "new": "            'K_knot       relative 0.01  0.0  switch  2.0 parabolic',"},
]

EDITS += [
    {"id": "observations-in-half-days", "expect": "fire", "rule": "C19.O3", "file": P,
     "old": "             / (3600 * 24) AS elapsed_time_d", "new": "             / (3600 * 12) AS elapsed_time_d"},
    {"id": "observations-in-hours-named-days", "expect": "fire", "rule": "C19.O3", "file": P,
     "old": "             / (3600 * 24) AS elapsed_time_d", "new": "             / 3600 AS elapsed_time_d"},
    {"id": "observations-days-other-spelling", "expect": "silent", "file": P,
     "old": "             / (3600 * 24) AS elapsed_time_d", "new": "             / 86400 AS elapsed_time_d"},
]

EDITS += [
    {"id": "observations-filtered-by-truthiness", "expect": "fire", "rule": "C19.O1", "file": P, "occurrence": 0,
     "old": "[row[0] for row in cursor.fetchall()]", "new": "[row[0] for row in cursor.fetchall() if row[0]]"},
    {"id": "observations-filtered-by-none-test", "expect": "silent", "file": P, "occurrence": 0,
     "old": "[row[0] for row in cursor.fetchall()]", "new": "[row[0] for row in cursor.fetchall() if row[0] is not None]"},
]

# round 9 (a generalisation that is almost right)
EDITS += [
    {'id': 'r9-note-line-after-marker', 'expect': 'fire', 'rule': 'C19.O6', 'file': 'spowtd/simulate_rise.py', 'old': "        outfile.write('# Rise curve simulation vector\\n')\n", 'new': "        outfile.write('# Rise curve simulation vector\\n')\n        outfile.write('# NOTE: values in mm\\n')\n"},
    {'id': 'r9-note-line-before-marker', 'expect': 'silent', 'file': 'spowtd/simulate_rise.py', 'old': "        outfile.write('# Rise curve simulation vector\\n')\n", 'new': "        outfile.write('# NOTE: values in mm\\n')\n        outfile.write('# Rise curve simulation vector\\n')\n"},
]
