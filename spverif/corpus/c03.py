"""Labelled edits for C03."""

C = "spowtd/classify.py"
S = "spowtd/schema.sql"
RI = "spowtd/rise.py"
RE = "spowtd/recession.py"
EDITS = [
    {"id": "rain-ge", "expect": "fire", "rule": "C03.O1", "file": C,
     "old": "    is_raining = rain > rain_threshold", "new": "    is_raining = rain >= rain_threshold"},
    {"id": "jump-ge", "expect": "fire", "rule": "C03.O1", "file": C,
     "old": "    is_jump = head_increments > jump_threshold", "new": "    is_jump = head_increments >= jump_threshold"},
    {"id": "jump-on-level", "expect": "fire", "rule": "C03.O1", "file": C,
     "old": "    head_increments = np.diff(head)", "new": "    head_increments = head[1:]"},
    {"id": "delta-without-step", "expect": "fire", "rule": "C03.O1", "file": C,
     "old": "    jump_delta_threshold = rising_jump_threshold_mm_h * time_step_h", "new": "    jump_delta_threshold = rising_jump_threshold_mm_h"},
    {"id": "step-in-minutes", "expect": "fire", "rule": "C03.O1", "file": C,
     "old": "    SELECT CAST(time_step_s AS double precision) / 3600.\n", "new": "    SELECT CAST(time_step_s AS double precision) / 60.\n"},
    {"id": "thresholds-swapped", "expect": "fire", "rule": "C03.O1", "file": C,
     "old": "        storm_rain_threshold_mm_h,\n        jump_delta_threshold,\n    )", "new": "        jump_delta_threshold,\n        storm_rain_threshold_mm_h,\n    )"},
    {"id": "recheck-ge", "expect": "fire", "rule": "C03.O2", "file": C,
     "old": "    is_storm = rainfall_intensity_mm_h > storm_rain_threshold_mm_h", "new": "    is_storm = rainfall_intensity_mm_h >= storm_rain_threshold_mm_h"},
    {"id": "maximality-strict", "expect": "fire", "rule": "C03.O2", "file": C,
     "old": "        jump_start == 0 or head[jump_start] - head[jump_start - 1] <= jump_threshold", "new": "        jump_start == 0 or head[jump_start] - head[jump_start - 1] < jump_threshold"},
    {"id": "storm-thru-inclusive-step", "expect": "fire", "rule": "C03.O3", "file": C,
     "old": "        storm_thru_epoch = int(epoch[rain_stop - 1] + (epoch[1] - epoch[0]))", "new": "        storm_thru_epoch = int(epoch[rain_stop - 1])"},
    {"id": "rise-thru-one-late", "expect": "fire", "rule": "C03.O3", "file": C,
     "old": "        jump_thru_epoch = int(epoch[jump_stop - 1])", "new": "        jump_thru_epoch = int(epoch[jump_stop])"},
    {"id": "rise-start-one-late", "expect": "fire", "rule": "C03.O3", "file": C,
     "old": "        jump_start_epoch = int(epoch[jump_start])", "new": "        jump_start_epoch = int(epoch[jump_start + 1])"},
    {"id": "rain-stop-no-plus-one", "expect": "fire", "rule": "C03.O3", "file": C,
     "old": "    rain_stop = rain_indices[-1] + 1", "new": "    rain_stop = rain_indices[-1]"},
    {"id": "jump-stop-plus-one", "expect": "fire", "rule": "C03.O3", "file": C,
     "old": "    jump_stop = jump_indices[-1] + 2", "new": "    jump_stop = jump_indices[-1] + 1"},
    {"id": "pairing-uses-rise-start-as-storm", "expect": "fire", "rule": "C03.O3", "file": C,
     "old": "                \"storm_start_epoch\": storm_start_epoch,\n            },\n        )", "new": "                \"storm_start_epoch\": jump_start_epoch,\n            },\n        )"},
    {"id": "view-upper-inclusive-from", "expect": "fire", "rule": "C03.O4", "file": S,
     "old": "  AND ri.thru_epoch <= s.thru_epoch", "new": "  AND ri.from_epoch <= s.thru_epoch"},
    {"id": "view-lower-strict", "expect": "fire", "rule": "C03.O4", "file": S,
     "old": "  ON ri.from_epoch >= s.start_epoch", "new": "  ON ri.from_epoch > s.start_epoch"},
    {"id": "view-no-step-length", "expect": "fire", "rule": "C03.O5", "file": S,
     "old": "       SUM(ri.rainfall_intensity_mm_h *\n           (ri.thru_epoch - ri.from_epoch)\n\t   / 3600.\n           ) AS total_depth_mm", "new": "       SUM(ri.rainfall_intensity_mm_h) AS total_depth_mm"},
    {"id": "view-avg", "expect": "fire", "rule": "C03.O5", "file": S,
     "old": "       SUM(ri.rainfall_intensity_mm_h *", "new": "       AVG(ri.rainfall_intensity_mm_h *"},
    {"id": "rise-slice-open", "expect": "fire", "rule": "C03.O4", "file": RI,
     "old": "        zeta_seq = zeta_mm[zeta_start : zeta_thru + 1]", "new": "        zeta_seq = zeta_mm[zeta_start : zeta_thru]"},
    {"id": "recession-mask-open", "expect": "fire", "rule": "C03.O4", "file": RE,
     "old": "            (epoch >= interval_start_epoch) & (epoch <= interval_thru_epoch)", "new": "            (epoch >= interval_start_epoch) & (epoch < interval_thru_epoch)"},
    {"id": "series-all-intervals", "expect": "fire", "rule": "C03.O6", "file": C,
     "old": "           AND grid_time.data_interval = ?\n         JOIN water_level\n           ON rainfall_intensity.from_epoch = water_level.epoch\n         ORDER BY from_epoch\"\"\",\n                (data_interval,),\n            )\n        )\n    )\n    check_for_uniform_time_steps(epoch)\n    (time_step_h,)",
     "new": "           AND grid_time.data_interval >= ?\n         JOIN water_level\n           ON rainfall_intensity.from_epoch = water_level.epoch\n         ORDER BY from_epoch\"\"\",\n                (data_interval,),\n            )\n        )\n    )\n    check_for_uniform_time_steps(epoch)\n    (time_step_h,)"},
    {"id": "series-descending", "expect": "fire", "rule": "C03.O6", "file": C,
     "old": "         ORDER BY from_epoch\"\"\",\n                (data_interval,),\n            )\n        )\n    )\n    check_for_uniform_time_steps(epoch)\n    (time_step_h,)",
     "new": "         ORDER BY from_epoch DESC\"\"\",\n                (data_interval,),\n            )\n        )\n    )\n    check_for_uniform_time_steps(epoch)\n    (time_step_h,)"},
    {"id": "storm-thru-clamped", "expect": "fire", "rule": "C03.O3", "file": C,
     "old": "        storm_thru_epoch = int(epoch[rain_stop - 1] + (epoch[1] - epoch[0]))", "new": "        storm_thru_epoch = int(epoch[min(rain_stop, len(epoch) - 1)])"},
    # preserving
    {"id": "mirrored-rain", "expect": "silent", "file": C,
     "old": "    is_raining = rain > rain_threshold", "new": "    is_raining = rain_threshold < rain"},
    {"id": "slice-diff", "expect": "silent", "file": C,
     "old": "    head_increments = np.diff(head)", "new": "    head_increments = head[1:] - head[:-1]"},
    {"id": "storm-thru-by-index", "expect": "silent", "file": C,
     "old": "        storm_thru_epoch = int(epoch[rain_stop - 1] + (epoch[1] - epoch[0]))", "new": "        storm_thru_epoch = int(epoch[rain_stop - 2] + 2 * (epoch[1] - epoch[0]))"},
    {"id": "view-upper-by-from", "expect": "silent", "file": S,
     "old": "  AND ri.thru_epoch <= s.thru_epoch", "new": "  AND ri.from_epoch < s.thru_epoch"},
    {"id": "rename-stop-vars", "expect": "silent",
     "edits": [{"file": C, "old": "rain_stop", "new": "rain_end", "all": True}]},
]

# round 7: a threshold is a number (C03.O2)
EDITS += [
    {'id': 'threshold-or-default', 'expect': 'fire', 'rule': 'C03.O2', 'file': 'spowtd/classify.py',
     'old': '    """Classify data into storm and interstorm intervals"""\n    cursor = connection.cursor()',
     'new': '    """Classify data into storm and interstorm intervals"""\n    storm_rain_threshold_mm_h = storm_rain_threshold_mm_h or 4.0\n    cursor = connection.cursor()'},
    {'id': 'threshold-if-not', 'expect': 'fire', 'rule': 'C03.O2', 'file': 'spowtd/classify.py',
     'old': '    """Classify data into storm and interstorm intervals"""\n    cursor = connection.cursor()',
     'new': '    """Classify data into storm and interstorm intervals"""\n    if not rising_jump_threshold_mm_h:\n        rising_jump_threshold_mm_h = 8.0\n    cursor = connection.cursor()'},
    {'id': 'threshold-none-default', 'expect': 'silent', 'file': 'spowtd/classify.py',
     'old': '    """Classify data into storm and interstorm intervals"""\n    cursor = connection.cursor()',
     'new': '    """Classify data into storm and interstorm intervals"""\n    if storm_rain_threshold_mm_h is None:\n        storm_rain_threshold_mm_h = 4.0\n    cursor = connection.cursor()'},
]

# round 8 (hardening that is not)
EDITS += [
    {'id': 'r8-levels-rounded-before-runs', 'expect': 'fire', 'rule': 'C03.O1', 'file': 'spowtd/classify.py', 'old': '    check_for_uniform_time_steps(epoch)\n    (time_step_h,) = cursor.execute(', 'new': '    zeta_mm = np.round(zeta_mm, 6)\n    check_for_uniform_time_steps(epoch)\n    (time_step_h,) = cursor.execute('},
]
