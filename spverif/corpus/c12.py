"""Labelled edits for C12."""

R = "spowtd/regrid.py"
F = "spowtd/fit_offsets.py"
EDITS = [
    {"id": "ceil-to-floor", "expect": "fire", "rule": "C12.O2", "file": R,
     "old": "np.array(np.ceil(Y), dtype=np.int64)", "new": "np.array(np.floor(Y), dtype=np.int64)"},
    {"id": "ceil-to-round", "expect": "fire", "rule": "C12.O2", "file": R,
     "old": "np.array(np.ceil(Y), dtype=np.int64)", "new": "np.array(np.round(Y), dtype=np.int64)"},
    {"id": "ceil-dropped", "expect": "fire", "rule": "C12.O2", "file": R,
     "old": "np.array(np.ceil(Y), dtype=np.int64)", "new": "np.array(Y, dtype=np.int64)"},
    {"id": "range-plus-one", "expect": "fire", "rule": "C12.O2", "file": R,
     "old": "targets = list(range(start, stop))", "new": "targets = list(range(start, stop + 1))"},
    {"id": "falling-range-shift", "expect": "fire", "rule": "C12.O2", "file": R,
     "old": "reversed(list(range(stop, start)))", "new": "reversed(list(range(stop + 1, start + 1)))"},
    {"id": "branch-swapped", "expect": "fire", "rule": "C12.O2", "file": R,
     "old": "        if stop > start:", "new": "        if stop < start:"},
    {"id": "bracket-shift", "expect": "fire", "rule": "C12.O3", "file": R,
     "old": "lambda x, y=y_target: spline(x) - y, x[i], x[i + 1]", "new": "lambda x, y=y_target: spline(x) - y, x[i - 1], x[i + 1]"},
    {"id": "root-of-other", "expect": "fire", "rule": "C12.O3", "file": R,
     "old": "lambda x, y=y_target: spline(x) - y,", "new": "lambda x, y=y_target: spline(x) - y - 0.5,"},
    {"id": "spline-of-unscaled", "expect": "fire", "rule": "C12.O3", "file": R,
     "old": "spline = interp1d(x, Y, kind=interpolant)", "new": "spline = interp1d(x, y, kind=interpolant)"},
    {"id": "default-cubic", "expect": "fire", "rule": "C12.O4", "file": R,
     "old": "def regrid(x, y, y_step, interpolant='linear'):", "new": "def regrid(x, y, y_step, interpolant='cubic'):"},
    {"id": "caller-overrides", "expect": "fire", "rule": "C12.O4", "file": F,
     "old": "regrid_mod.regrid(t, H, head_step)", "new": "regrid_mod.regrid(t, H, head_step, 'nearest')"},
    {"id": "median-not-mean", "expect": "fire", "rule": "C12.O5", "file": F,
     "old": "            t_mean = np.mean(time)", "new": "            t_mean = np.median(time)"},
    {"id": "first-crossing", "expect": "fire", "rule": "C12.O5", "file": F,
     "old": "            t_mean = np.mean(time)", "new": "            t_mean = time[0]"},
    {"id": "swapped-axes", "expect": "fire", "rule": "C12.O5", "file": F,
     "old": "regrid_mod.regrid(t, H, head_step)", "new": "regrid_mod.regrid(H, t, head_step)"},
    {"id": "api-removed-name", "expect": "fire", "rule": "C12.O1", "file": R,
     "old": "np.all(np.isfinite(y))", "new": "np.alltrue(np.isfinite(y))"},
    {"id": "last-pair-dropped", "expect": "fire", "rule": "C12.O2", "file": R,
     "old": "for i in range(len(y_int) - 1):", "new": "for i in range(len(y_int) - 2):"},
    {"id": "first-pair-dropped", "expect": "fire", "rule": "C12.O2", "file": R,
     "old": "for i in range(len(y_int) - 1):", "new": "for i in range(1, len(y_int) - 1):"},
    {"id": "pairs-by-isclose", "expect": "fire", "rule": "C12.O2", "file": R,
     "old": "for i in range(len(y_int) - 1):", "new": "for i in np.flatnonzero(~np.isclose(Y[1:], Y[:-1])):"},
    # preserving
    {"id": "pairs-with-different-ends", "expect": "silent", "file": R,
     "old": "for i in range(len(y_int) - 1):", "new": "for i in np.flatnonzero(y_int[1:] != y_int[:-1]):"},
    {"id": "pairs-over-x", "expect": "silent", "file": R,
     "old": "for i in range(len(y_int) - 1):", "new": "for i in range(0, len(x) - 1):"},
    {"id": "falling-range-by-step", "expect": "silent", "file": R,
     "old": "reversed(list(range(stop, start)))", "new": "range(start - 1, stop - 1, -1)"},
    {"id": "mirror-branch", "expect": "silent", "file": R,
     "old": "        if stop > start:", "new": "        if start < stop:"},
    {"id": "ge-branch", "expect": "silent", "file": R,
     "old": "        if stop > start:", "new": "        if stop >= start:"},
    {"id": "math-ceil-inline", "expect": "silent", "file": R,
     "old": "    y_int = np.array(np.ceil(Y), dtype=np.int64)", "new": "    levels = np.ceil(y / y_step)\n    y_int = levels.astype(np.int64)"},
    {"id": "rename-loop-var", "expect": "silent",
     "edits": [{"file": R, "old": "y_target", "new": "level", "all": True}]},
    {"id": "no-reversed", "expect": "silent", "file": R,
     "old": "reversed(list(range(stop, start)))", "new": "list(range(stop, start))"},
    {"id": "inline-mean", "expect": "silent", "file": F,
     "old": "            t_mean = np.mean(time)\n            head_mapping.setdefault(head_id, []).append((series_id, t_mean))",
     "new": "            head_mapping.setdefault(head_id, []).append((series_id, np.mean(time)))"},
]

EDITS += [
    {'id': 'pair-skips-one', 'expect': 'fire', 'rule': 'C12.O2', 'file': 'spowtd/regrid.py', 'old': '        start, stop = (y_int[i], y_int[i + 1])', 'new': '        start, stop = (y_int[i], y_int[min(i + 2, len(y_int) - 1)])'},
    {'id': 'pair-from-first', 'expect': 'fire', 'rule': 'C12.O2', 'file': 'spowtd/regrid.py', 'old': '        start, stop = (y_int[i], y_int[i + 1])', 'new': '        start, stop = (y_int[0], y_int[i + 1])'},
    {'id': 'pair-two-statements', 'expect': 'silent', 'file': 'spowtd/regrid.py', 'old': '        start, stop = (y_int[i], y_int[i + 1])', 'new': '        start = y_int[i]\n        stop = y_int[i + 1]'},
]

EDITS += [
    {"id": "float-arange-levels", "expect": "fire", "rule": "C12.O2", "file": R,
     "old": "            targets = list(range(start, stop))", "new": "            targets = [int(round(v / y_step)) for v in np.arange(start * y_step, stop * y_step, y_step)]"},
    # correct rewrites outside the recognised construction: no alarm (the honest answer is "cannot decide")
    {"id": "two-ceil-arrays", "expect": "no-alarm",
     "edits": [
         {"file": R, "old": "    y_int = np.array(np.ceil(Y), dtype=np.int64)", "new": "    lo_int = np.array(np.ceil(Y[:-1]), dtype=np.int64)\n    hi_int = np.array(np.ceil(Y[1:]), dtype=np.int64)\n    y_int = lo_int"},
         {"file": R, "old": "        start, stop = (y_int[i], y_int[i + 1])", "new": "        start, stop = (lo_int[i], hi_int[i])"},
     ]},
    {"id": "unit-step-arange", "expect": "no-alarm", "file": R,
     "old": "            targets = list(range(start, stop))", "new": "            targets = [int(v) for v in np.arange(start, stop, 1)]"},
]

# round 7: read-only arguments (C12.O6) and N18
EDITS += [
    {'id': 'inplace-on-asarray', 'expect': 'fire', 'rule': 'C12.O6', 'file': R, 'old': '    Y = y / y_step\n', 'new': '    Y = np.asarray(y, dtype=np.float64)\n    Y /= y_step\n'},
    {'id': 'inplace-on-parameter', 'expect': 'fire', 'rule': 'C12.O6', 'file': R, 'old': '    Y = y / y_step\n', 'new': '    y /= y_step\n    Y = y\n'},
    {'id': 'divide-out-parameter', 'expect': 'fire', 'rule': 'C12.O6', 'file': R, 'old': '    Y = y / y_step\n', 'new': '    Y = np.divide(y, y_step, out=y)\n'},
    {'id': 'inplace-on-copy', 'expect': 'silent', 'file': R, 'old': '    Y = y / y_step\n', 'new': '    Y = np.array(y, dtype=np.float64)\n    Y /= y_step\n'},
    {'id': 'multiply-by-inverse-step', 'expect': 'no-alarm', 'file': R, 'old': '    Y = y / y_step\n', 'new': '    Y = np.array(y, dtype=np.float64)\n    Y *= 1.0 / y_step\n'},
]

