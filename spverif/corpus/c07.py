"""Labelled edits for C07."""

C = "spowtd/classify.py"
F = "spowtd/fit_offsets.py"
R = "spowtd/recession.py"
L = "spowtd/load.py"
EDITS = [
    {"id": "hours-before-diff", "expect": "fire", "rule": "C07.O1", "file": C,
     "old": "    rates = np.concatenate(\n        ([0], (zeta_mm[1:] - zeta_mm[:-1]) / ((epoch[1:] - epoch[:-1]) / 3600.0))\n    )",
     "new": "    hour = epoch / 3600.0\n    rates = np.concatenate(\n        ([0], (zeta_mm[1:] - zeta_mm[:-1]) / (hour[1:] - hour[:-1]))\n    )"},
    {"id": "days-before-diff", "expect": "fire", "rule": "C07.O1", "file": C,
     "old": "    rates = np.concatenate(\n        ([0], (zeta_mm[1:] - zeta_mm[:-1]) / ((epoch[1:] - epoch[:-1]) / 3600.0))\n    )",
     "new": "    t_h = epoch * (1.0 / 3600.0)\n    rates = np.concatenate(\n        ([0], np.diff(zeta_mm) / np.diff(t_h))\n    )"},
    {"id": "no-rebase-in-fit", "expect": "fire", "rule": "C07.O1", "file": F,
     "old": "        ((t - t.min(), H, index) for index, (t, H) in enumerate(series_list)),",
     "new": "        ((t / 86400.0, H, index) for index, (t, H) in enumerate(series_list)),"},
    {"id": "hour-of-day-filter", "expect": "fire", "rule": "C07.O1", "file": R,
     "old": "        indices = np.argwhere(\n            (epoch >= interval_start_epoch) & (epoch <= interval_thru_epoch)\n        )[:, 0]",
     "new": "        indices = np.argwhere(\n            (epoch >= interval_start_epoch) & (epoch <= interval_thru_epoch)\n            & ((epoch % 86400) >= 0)\n        )[:, 0]"},
    {"id": "step-from-scaled-epochs", "expect": "fire", "rule": "C07.O1", "file": C,
     "old": "    delta_t = np.diff(epoch)\n    if delta_t.min() != delta_t.max():",
     "new": "    delta_t = np.diff(epoch / 60.0)\n    if delta_t.min() != delta_t.max():"},
    {"id": "set-of-epochs-iterated", "expect": "fire", "rule": "C07.O2", "file": L,
     "old": "        [(epoch,) for epoch in time_grid],", "new": "        [(epoch,) for epoch in set(time_grid)],"},
    {"id": "sql-scaled-epoch", "expect": "fire", "rule": "C07.O3", "file": "spowtd/schema.sql",
     "old": "  ON ri.from_epoch >= s.start_epoch", "new": "  ON ri.from_epoch / 3600. >= s.start_epoch / 3600."},
    # preserving
    {"id": "diff-then-scale", "expect": "silent", "file": C,
     "old": "    rates = np.concatenate(\n        ([0], (zeta_mm[1:] - zeta_mm[:-1]) / ((epoch[1:] - epoch[:-1]) / 3600.0))\n    )",
     "new": "    dt_h = np.diff(epoch) / 3600.0\n    rates = np.concatenate(([0], np.diff(zeta_mm) / dt_h))"},
    {"id": "rebase-with-first", "expect": "silent", "file": F,
     "old": "        ((t - t.min(), H, index) for index, (t, H) in enumerate(series_list)),",
     "new": "        ((t - t[0], H, index) for index, (t, H) in enumerate(series_list)),"},
    {"id": "sorted-set-of-epochs", "expect": "silent", "file": L,
     "old": "        [(epoch,) for epoch in time_grid],", "new": "        [(epoch,) for epoch in sorted(set(time_grid))],"},
]

# round 8 (hardening that is not)
EDITS += [
    {'id': 'r8-round-half-up-by-int', 'expect': 'fire', 'rule': 'C07.O1', 'file': 'spowtd/load.py', 'old': '        yield [int(epoch)] + row[1:]', 'new': '        yield [int(epoch + 0.5)] + row[1:]'},
]
