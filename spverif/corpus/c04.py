"""Labelled edits for C04."""

C = "spowtd/classify.py"
EDITS = [
    {"id": "initial-state-false", "expect": "fire", "rule": "C04.O1", "file": C,
     "old": "    in_mystery = True\n", "new": "    in_mystery = False\n"},
    {"id": "rain-does-not-clear", "expect": "fire", "rule": "C04.O1", "file": C,
     "old": "        if is_raining[i]:\n            in_mystery = False\n        else:\n            if is_jump[i]:\n                in_mystery = True",
     "new": "        if is_raining[i]:\n            pass\n        else:\n            if is_jump[i]:\n                in_mystery = True"},
    {"id": "jump-in-rain-sets", "expect": "fire", "rule": "C04.O1", "file": C,
     "old": "        if is_raining[i]:\n            in_mystery = False\n        else:\n            if is_jump[i]:\n                in_mystery = True",
     "new": "        if is_jump[i]:\n            in_mystery = True\n        elif is_raining[i]:\n            in_mystery = False"},
    {"id": "flag-before-update", "expect": "fire", "rule": "C04.O1", "file": C,
     "old": "    for i in range(len(mystery_jump_mask)):\n        if is_raining[i]:",
     "new": "    for i in range(len(mystery_jump_mask)):\n        mystery_jump_mask[i] = in_mystery\n        if is_raining[i]:",
     "edits": None},
    {"id": "automaton-args-swapped", "expect": "fire", "rule": "C04.O1", "file": C,
     "old": "    is_mystery_jump = get_mystery_jump_mask(is_jump, is_raining)", "new": "    is_mystery_jump = get_mystery_jump_mask(is_raining, is_jump)"},
    {"id": "jump-ge", "expect": "fire", "rule": "C04.O2", "file": C,
     "old": "    is_jump = (rates > rising_jump_threshold_mm_h).astype(bool)", "new": "    is_jump = (rates >= rising_jump_threshold_mm_h).astype(bool)"},
    {"id": "raining-threshold", "expect": "fire", "rule": "C04.O2", "file": C,
     "old": "                rainfall_intensity_mm_h > 0 AS is_raining", "new": "                rainfall_intensity_mm_h > 0.1 AS is_raining"},
    {"id": "raining-ge", "expect": "fire", "rule": "C04.O2", "file": C,
     "old": "                rainfall_intensity_mm_h > 0 AS is_raining", "new": "                rainfall_intensity_mm_h >= 0 AS is_raining"},
    {"id": "rates-left-aligned", "expect": "fire", "rule": "C04.O2", "file": C,
     "old": "        ([0], (zeta_mm[1:] - zeta_mm[:-1]) / ((epoch[1:] - epoch[:-1]) / 3600.0))", "new": "        ((zeta_mm[1:] - zeta_mm[:-1]) / ((epoch[1:] - epoch[:-1]) / 3600.0), [0])"},
    {"id": "rates-per-second", "expect": "fire", "rule": "C04.O2", "file": C,
     "old": "        ([0], (zeta_mm[1:] - zeta_mm[:-1]) / ((epoch[1:] - epoch[:-1]) / 3600.0))", "new": "        ([0], (zeta_mm[1:] - zeta_mm[:-1]) / (epoch[1:] - epoch[:-1]))"},
    {"id": "rates-backward-diff", "expect": "fire", "rule": "C04.O2", "file": C,
     "old": "        ([0], (zeta_mm[1:] - zeta_mm[:-1]) / ((epoch[1:] - epoch[:-1]) / 3600.0))", "new": "        ([0], (zeta_mm[:-1] - zeta_mm[1:]) / ((epoch[1:] - epoch[:-1]) / 3600.0))"},
    {"id": "interstorm-or", "expect": "fire", "rule": "C04.O2", "file": C,
     "old": "    is_interstorm = (~is_mystery_jump) & (~is_raining)", "new": "    is_interstorm = (~is_mystery_jump) | (~is_raining)"},
    {"id": "interstorm-ignores-mystery", "expect": "fire", "file": C,
     "old": "    is_interstorm = (~is_mystery_jump) & (~is_raining)", "new": "    is_interstorm = ~is_raining"},
    {"id": "min-length-one", "expect": "fire", "rule": "C04.O3", "file": C,
     "old": "if len(indices) > 1]", "new": "if len(indices) > 0]"},
    {"id": "min-length-three", "expect": "fire", "rule": "C04.O3", "file": C,
     "old": "if len(indices) > 1]", "new": "if len(indices) > 2]"},
    {"id": "thru-second-last", "expect": "fire", "rule": "C04.O3", "file": C,
     "old": "                \"thru_epoch\": int(epoch[indices[-1]]),\n            },\n        )\n    del zeta_mm", "new": "                \"thru_epoch\": int(epoch[indices[-2]]),\n            },\n        )\n    del zeta_mm"},
    {"id": "start-second", "expect": "fire", "rule": "C04.O3", "file": C,
     "old": "                \"start_epoch\": int(epoch[indices[0]]),", "new": "                \"start_epoch\": int(epoch[indices[1]]),"},
    {"id": "flags-swapped-columns", "expect": "fire", "rule": "C04.O4", "file": C,
     "old": "            (int(b) for b in is_mystery_jump),\n            (int(b) for b in is_interstorm),", "new": "            (int(b) for b in is_interstorm),\n            (int(b) for b in is_mystery_jump),"},
    {"id": "runs-of-not-raining", "expect": "fire", "rule": "C04.O3", "file": C,
     "old": "    interval_mask = is_interstorm\n", "new": "    interval_mask = ~is_raining\n"},
    {"id": "rate-from-integer-sql-division", "expect": "fire", "rule": "C04.O2", "file": C,
     "old": "    rates = np.concatenate(\n        ([0], (zeta_mm[1:] - zeta_mm[:-1]) / ((epoch[1:] - epoch[:-1]) / 3600.0))\n    )",
     "new": "    (steps_per_hour,) = cursor.execute(\n        \"SELECT 3600 / time_step_s FROM time_grid\"\n    ).fetchone()\n    rates = np.concatenate(([0], np.diff(zeta_mm) * steps_per_hour))"},
    {"id": "rate-from-real-sql-division", "expect": "silent", "file": C,
     "old": "    rates = np.concatenate(\n        ([0], (zeta_mm[1:] - zeta_mm[:-1]) / ((epoch[1:] - epoch[:-1]) / 3600.0))\n    )",
     "new": "    (steps_per_hour,) = cursor.execute(\n        \"SELECT 3600. / time_step_s FROM time_grid\"\n    ).fetchone()\n    rates = np.concatenate(([0], np.diff(zeta_mm) * steps_per_hour))"},
    # preserving
    {"id": "np-diff-level", "expect": "silent", "file": C,
     "old": "        ([0], (zeta_mm[1:] - zeta_mm[:-1]) / ((epoch[1:] - epoch[:-1]) / 3600.0))", "new": "        ([0], np.diff(zeta_mm) / (np.diff(epoch) / 3600.0))"},
    {"id": "logical-functions", "expect": "silent", "file": C,
     "old": "    is_interstorm = (~is_mystery_jump) & (~is_raining)", "new": "    is_interstorm = np.logical_and(np.logical_not(is_mystery_jump), np.logical_not(is_raining))"},
    {"id": "demorgan", "expect": "silent", "file": C,
     "old": "    is_interstorm = (~is_mystery_jump) & (~is_raining)", "new": "    is_interstorm = ~(is_mystery_jump | is_raining)"},
    {"id": "min-length-ge-2", "expect": "silent", "file": C,
     "old": "if len(indices) > 1]", "new": "if len(indices) >= 2]"},
    {"id": "automaton-elif", "expect": "silent", "file": C,
     "old": "        if is_raining[i]:\n            in_mystery = False\n        else:\n            if is_jump[i]:\n                in_mystery = True",
     "new": "        if is_raining[i]:\n            in_mystery = False\n        elif is_jump[i]:\n            in_mystery = True"},
    {"id": "mirrored-jump-test", "expect": "silent", "file": C,
     "old": "    is_jump = (rates > rising_jump_threshold_mm_h).astype(bool)", "new": "    is_jump = (rising_jump_threshold_mm_h < rates).astype(bool)"},
]
# the flag-before-update edit must also drop the later store
EDITS[3] = {"id": "flag-before-update", "expect": "fire", "rule": "C04.O1",
            "edits": [
                {"file": C, "old": "    for i in range(len(mystery_jump_mask)):\n        if is_raining[i]:", "new": "    for i in range(len(mystery_jump_mask)):\n        mystery_jump_mask[i] = in_mystery\n        if is_raining[i]:"},
                {"file": C, "old": "                in_mystery = True\n        mystery_jump_mask[i] = in_mystery\n", "new": "                in_mystery = True\n"},
            ]}

EDITS += [
    {'id': 'prepended-rate-is-a-jump', 'expect': 'fire', 'rule': 'C04.O2', 'file': 'spowtd/classify.py', 'old': '        ([0], (zeta_mm[1:] - zeta_mm[:-1])', 'new': '        ([np.inf], (zeta_mm[1:] - zeta_mm[:-1])'},
    {'id': 'prepended-rate-positive-constant', 'expect': 'fire', 'rule': 'C04.O2', 'file': 'spowtd/classify.py', 'old': '        ([0], (zeta_mm[1:] - zeta_mm[:-1])', 'new': '        ([1e9], (zeta_mm[1:] - zeta_mm[:-1])'},
    {'id': 'prepended-rate-negative', 'expect': 'silent', 'file': 'spowtd/classify.py', 'old': '        ([0], (zeta_mm[1:] - zeta_mm[:-1])', 'new': '        ([-1.0], (zeta_mm[1:] - zeta_mm[:-1])'},
]

_LOOP_OLD = ("    for i in range(len(mystery_jump_mask)):\n        if is_raining[i]:\n            in_mystery = False\n        else:\n"
             "            if is_jump[i]:\n                in_mystery = True\n        mystery_jump_mask[i] = in_mystery\n")
EDITS += [
    {"id": "automaton-enumerate-zip", "expect": "silent", "file": C, "old": _LOOP_OLD,
     "new": "    for i, (jump, raining) in enumerate(zip(is_jump, is_raining)):\n        if raining:\n            in_mystery = False\n        elif jump:\n"
            "            in_mystery = True\n        mystery_jump_mask[i] = in_mystery\n"},
    {"id": "automaton-enumerate-zip-roles-swapped", "expect": "fire", "rule": "C04.O1", "file": C, "old": _LOOP_OLD,
     "new": "    for i, (raining, jump) in enumerate(zip(is_jump, is_raining)):\n        if raining:\n            in_mystery = False\n        elif jump:\n"
            "            in_mystery = True\n        mystery_jump_mask[i] = in_mystery\n"},
    {"id": "automaton-enumerate-skips-first", "expect": "fire", "rule": "C04.O1", "file": C, "old": _LOOP_OLD,
     "new": "    for i, (jump, raining) in enumerate(zip(is_jump[1:], is_raining[1:])):\n        if raining:\n            in_mystery = False\n        elif jump:\n"
            "            in_mystery = True\n        mystery_jump_mask[i] = in_mystery\n"},
]

# round 7: flags on every path (C04.O4)
EDITS += [
    {'id': 'no-flags-without-interstorm', 'expect': 'fire', 'rule': 'C04.O4', 'file': 'spowtd/classify.py',
     'old': '    del is_raining\n', 'new': '    del is_raining\n    if not interval_mask.any():\n        return\n'},
    {'id': 'no-flags-for-empty-record', 'expect': 'no-alarm', 'file': 'spowtd/classify.py',
     'old': '    del is_raining\n', 'new': '    del is_raining\n    if len(interval_mask) == 0:\n        return\n'},
]

# round 8 (hardening that is not)
EDITS += [
    {'id': 'r8-flags-upserted', 'expect': 'fire', 'rule': 'C04.O4', 'file': 'spowtd/classify.py', 'old': 'INSERT INTO grid_time_flags', 'new': 'INSERT OR REPLACE INTO grid_time_flags'},
]

# round 9 (a generalisation that is almost right)
EDITS += [
    {'id': 'r9-second-jump-threshold', 'expect': 'fire', 'rule': 'C04.O2', 'edits': [{'file': 'spowtd/classify.py', 'old': 'def classify_interstorms(cursor, data_interval, rising_jump_threshold_mm_h):', 'new': 'def classify_interstorms(cursor, data_interval, rising_jump_threshold_mm_h, mystery_threshold_mm_h=20.0):'}, {'file': 'spowtd/classify.py', 'old': '    is_mystery_jump = get_mystery_jump_mask(is_jump, is_raining)', 'new': '    is_mystery_jump = get_mystery_jump_mask((rates > mystery_threshold_mm_h).astype(bool), is_raining)'}]},
]
