"""Labelled edits for C10."""

L = "spowtd/load.py"
S = "spowtd/schema.sql"
EDITS = [
    {"id": "grid-lower-exclusive", "expect": "fire", "rule": "C10.O1", "file": L,
     "old": "          ON ris.epoch >= min_t_zeta", "new": "          ON ris.epoch > min_t_zeta"},
    {"id": "grid-upper-exclusive", "expect": "fire", "rule": "C10.O1", "file": L,
     "old": "          AND ris.epoch <= max_t_zeta", "new": "          AND ris.epoch < max_t_zeta"},
    {"id": "grid-bounds-from-rainfall", "expect": "fire", "rule": "C10.O1", "file": L,
     "old": "          FROM water_level_staging\n        )", "new": "          FROM rainfall_intensity_staging\n        )"},
    {"id": "grid-unordered", "expect": "fire", "file": L,
     "old": "          AND ris.epoch <= max_t_zeta\n        ORDER BY epoch\"\"\"", "new": "          AND ris.epoch <= max_t_zeta\"\"\""},
    {"id": "closing-instant-two-steps", "expect": "fire", "rule": "C10.O1", "file": L,
     "old": "    time_grid.append(time_grid[-1] + time_step)", "new": "    time_grid.append(time_grid[-1] + 2 * time_step)"},
    {"id": "closing-instant-after-insert", "expect": "fire", "rule": "C10.O1",
     "edits": [
         {"file": L, "old": "    time_grid.append(time_grid[-1] + time_step)\n", "new": ""},
         {"file": L, "old": "    return (time_grid, time_step)", "new": "    time_grid.append(time_grid[-1] + time_step)\n    return (time_grid, time_step)"},
     ]},
    {"id": "copy-thru-is-epoch", "expect": "fire", "rule": "C10.O2", "file": L,
     "old": "    SELECT ris.epoch, ris.epoch + ?, rainfall_intensity_mm_h", "new": "    SELECT ris.epoch - ?, ris.epoch, rainfall_intensity_mm_h"},
    {"id": "copy-bound-last", "expect": "fire", "rule": "C10.O2", "file": L,
     "old": "        (time_step, time_grid[-2]),\n    )\n\n\ndef populate_evapotranspiration", "new": "        (time_step, time_grid[-1]),\n    )\n\n\ndef populate_evapotranspiration"},
    {"id": "et-copy-strict", "expect": "fire", "rule": "C10.O2", "file": L,
     "old": "    WHERE es.epoch <= ?\"\"\"", "new": "    WHERE es.epoch < ?\"\"\""},
    {"id": "copy-params-swapped", "expect": "fire", "rule": "C10.O2", "file": L,
     "old": "        (time_step, time_grid[-2]),\n    )\n\n\ndef populate_evapotranspiration", "new": "        (time_grid[-2], time_step),\n    )\n\n\ndef populate_evapotranspiration"},
    {"id": "staging-key-not-rowid-alias", "expect": "fire", "rule": "C10.O3", "file": S,
     "old": "CREATE TABLE water_level_staging (\n  epoch integer NOT NULL PRIMARY KEY,", "new": "CREATE TABLE water_level_staging (\n  epoch int NOT NULL PRIMARY KEY,"},
    {"id": "staging-scan-filtered", "expect": "fire", "rule": "C10.O3", "file": L,
     "old": "    SELECT epoch, zeta_mm\n    FROM water_level_staging\"\"\"", "new": "    SELECT epoch, zeta_mm\n    FROM water_level_staging\n    WHERE zeta_mm IS NOT NULL\"\"\""},
    {"id": "interp-roles-swapped", "expect": "fire", "rule": "C10.O4", "file": L,
     "old": "    zeta_on_grid = np.interp(time_grid[:-1], zeta_t, zeta_mm)", "new": "    zeta_on_grid = np.interp(time_grid[:-1], zeta_mm, zeta_t)"},
    {"id": "values-mask-shifted", "expect": "fire", "rule": "C10.O4", "file": L,
     "old": "            zeta_on_grid[valid_mask[:-1]].tolist(),", "new": "            zeta_on_grid[valid_mask[1:]].tolist(),"},
    {"id": "interp-on-shifted-grid", "expect": "fire", "rule": "C10.O4", "file": L,
     "old": "    zeta_on_grid = np.interp(time_grid[:-1], zeta_t, zeta_mm)", "new": "    zeta_on_grid = np.interp(time_grid[1:], zeta_t, zeta_mm)"},
    {"id": "validity-half-open", "expect": "fire", "rule": "C10.O5", "file": L,
     "old": "        data_intervals[(time_grid >= start) & (time_grid <= through)] = label", "new": "        data_intervals[(time_grid >= start) & (time_grid < through)] = label"},
    {"id": "labels-same", "expect": "fire", "rule": "C10.O5", "file": L,
     "old": "        (valid_boundaries[i], valid_boundaries[i + 1], i // 2 + 1)", "new": "        (valid_boundaries[i], valid_boundaries[i + 1], 1)"},
    {"id": "update-params-swapped", "expect": "fire", "rule": "C10.O5", "file": L,
     "old": "            data_intervals[valid_mask].tolist(), time_grid[valid_mask].tolist()", "new": "            time_grid[valid_mask].tolist(), data_intervals[valid_mask].tolist()"},
    {"id": "gap-only-if-two-steps-missing", "expect": "fire", "rule": "C10.O5", "file": L,
     "old": "    gap_i = np.nonzero(time_steps != time_steps.min())[0]", "new": "    gap_i = np.nonzero(time_steps > 2 * time_steps.min())[0]"},
    {"id": "sentinel-mismatch", "expect": "fire", "rule": "C10.O5", "file": L,
     "old": "    data_intervals[:] = -1\n", "new": "    data_intervals[:] = 0\n"},
    {"id": "sentinel-test-mismatch", "expect": "fire", "rule": "C10.O5", "file": L,
     "old": "    valid_mask = data_intervals != -1", "new": "    valid_mask = data_intervals != 0"},
    {"id": "gap-greater-than-min", "expect": "silent", "file": L,
     "old": "    gap_i = np.nonzero(time_steps != time_steps.min())[0]", "new": "    gap_i = np.nonzero(time_steps > time_steps.min())[0]"},
    {"id": "sentinel-positive-test", "expect": "silent", "file": L,
     "old": "    valid_mask = data_intervals != -1", "new": "    valid_mask = data_intervals > 0"},
    # preserving
    {"id": "order-staging-scan", "expect": "silent", "file": L,
     "old": "    SELECT epoch, zeta_mm\n    FROM water_level_staging\"\"\"", "new": "    SELECT epoch, zeta_mm\n    FROM water_level_staging\n    ORDER BY epoch\"\"\""},
    {"id": "mirrored-bounds", "expect": "silent", "file": L,
     "old": "          ON ris.epoch >= min_t_zeta\n          AND ris.epoch <= max_t_zeta", "new": "          ON min_t_zeta <= ris.epoch\n          AND max_t_zeta >= ris.epoch"},
    {"id": "upper-case-integer", "expect": "silent", "file": S,
     "old": "CREATE TABLE water_level_staging (\n  epoch integer NOT NULL PRIMARY KEY,", "new": "CREATE TABLE water_level_staging (\n  epoch INTEGER NOT NULL PRIMARY KEY,"},
]

EDITS += [
    {'id': 'boundaries-start-second-grid-time', 'expect': 'fire', 'rule': 'C10.O5', 'file': 'spowtd/load.py', 'old': '        [time_grid[0]]\n', 'new': '        [time_grid[1]]\n'},
    {'id': 'boundaries-end-second-last', 'expect': 'fire', 'rule': 'C10.O5', 'file': 'spowtd/load.py', 'old': '        + [time_grid[-1]]\n', 'new': '        + [time_grid[-2]]\n'},
    {'id': 'boundaries-end-by-length', 'expect': 'silent', 'file': 'spowtd/load.py', 'old': '        + [time_grid[-1]]\n', 'new': '        + [time_grid[len(time_grid) - 1]]\n'},
]

EDITS += [
    {"id": "sentinel-test-keeps-the-unlabelled", "expect": "fire", "rule": "C10.O5", "file": L,
     "old": "    valid_mask = data_intervals != -1", "new": "    valid_mask = data_intervals == -1"},
]

# round 8 (hardening that is not)
EDITS += [
    {'id': 'r8-boundaries-clipped-to-grid', 'expect': 'fire', 'rule': 'C10.O5', 'file': 'spowtd/load.py', 'old': '    assert len(valid_boundaries) % 2 == 0\n', 'new': '    valid_boundaries = np.clip(valid_boundaries, time_grid[0], time_grid[-1]).tolist()\n    assert len(valid_boundaries) % 2 == 0\n'},
]
