#!/venv/bin/python
"""Run every check against every seeded change (/verif/seeded/<id>/patch.diff).

Each patch is applied to a scratch copy of /repo's working tree under
/tmp (removed afterwards); the checks are pointed at the copy with
SPVERIF_REPO and run with --no-evidence, so neither /repo nor the
evidence files are touched.  Writes /verif/seeded/RESULTS.json and prints
a table: which property's check reports which seeded change.

usage: tools/run_seeded.py [seed-id ...] [--patch file.diff]
"""

import json
import os
import shutil
import subprocess
import sys
import tempfile
from concurrent.futures import ThreadPoolExecutor

ROOT = os.path.dirname(os.path.dirname(os.path.abspath(__file__)))
PROPS = ["C01", "C02", "C03", "C04", "C05", "C07", "C09", "C10", "C11", "C12",
         "C13", "C14", "C15", "C16", "C17", "C18", "C19", "C20"]


def run_patch(patch, label):
    tmp = tempfile.mkdtemp(prefix="seedrun_", dir="/tmp")
    try:
        shutil.copytree("/repo/spowtd", os.path.join(tmp, "spowtd"), ignore=shutil.ignore_patterns("__pycache__"))
        r = subprocess.run(["git", "apply", "--unsafe-paths", "--directory", tmp, patch], cwd=tmp, capture_output=True, text=True)
        if r.returncode != 0:
            # try with patch(1)
            r2 = subprocess.run(["patch", "-p1", "-d", tmp, "-i", patch], capture_output=True, text=True)
            if r2.returncode != 0:
                return {"label": label, "error": "patch does not apply: %s %s" % (r.stderr[:200], r2.stdout[:200])}
        env = dict(os.environ, SPVERIF_REPO=tmp, PYTHONPATH=ROOT)

        def one(p):
            pr = subprocess.run(["/venv/bin/python", "-m", "spverif", p, "--tier", "quick", "--no-evidence"],
                                cwd=ROOT, env=env, capture_output=True, text=True)
            rules = sorted({l.split(" -- ")[0].split()[-1] for l in pr.stdout.splitlines()
                            if " -- found: " in l and l.split(" -- ")[0].split()[-1].startswith(p + ".")})
            errs = [l for l in pr.stdout.splitlines() if l.startswith("ANALYSIS-ERROR")]
            return p, pr.returncode, rules, errs[:2]

        with ThreadPoolExecutor(max_workers=9) as ex:
            res = list(ex.map(one, PROPS))
        return {"label": label,
                "fired": {p: rules for p, rc, rules, errs in res if rc == 1},
                "indeterminate": {p: errs for p, rc, rules, errs in res if rc == 2}}
    finally:
        shutil.rmtree(tmp, ignore_errors=True)


def main(argv):
    jobs = []
    if "--patch" in argv:
        i = argv.index("--patch")
        jobs.append((argv[i + 1], os.path.basename(argv[i + 1])))
    else:
        sd = os.path.join(ROOT, "seeded")
        ids = [a for a in argv if not a.startswith("-")] or sorted(
            d for d in os.listdir(sd) if os.path.isfile(os.path.join(sd, d, "patch.diff")))
        for d in ids:
            jobs.append((os.path.join(sd, d, "patch.diff"), d))
    results = []
    for patch, label in jobs:
        r = run_patch(patch, label)
        meta = os.path.join(os.path.dirname(patch), "meta.json")
        if os.path.exists(meta):
            r["breaks"] = json.load(open(meta)).get("breaks_property")
        results.append(r)
        target = r.get("breaks")
        fired = r.get("fired", {})
        status = "ERROR " + r["error"] if "error" in r else (
            "CAUGHT by own check" if target in fired else ("caught by other check(s) only" if fired else "MISSED"))
        print("%-28s breaks %-4s %-32s fired: %s%s" % (label, target or "?", status,
              {k: v for k, v in fired.items()}, ("  indeterminate: %s" % list(r["indeterminate"])) if r.get("indeterminate") else ""))
    if "--patch" not in argv:
        with open(os.path.join(ROOT, "seeded", "RESULTS.json"), "w") as fh:
            json.dump(results, fh, indent=1)


if __name__ == "__main__":
    main(sys.argv[1:])
