#!/venv/bin/python
"""Confirm an independently written breaking change and file it under /verif/seeded/.

usage: tools/confirm_seed.py <property id> <worktree with the change applied> <seed name> "<what it needs to manifest>"

Steps, all in the scratch worktree (never in /repo):
  1. demo with the change          -> must fail
  2. repository suite with change  -> must be 54 passed / the same 2 Rscript failures
  3. demo without the change (git checkout of spowtd/, patch re-applied afterwards) -> must pass
Then copies mutant.diff -> patch.diff, the demonstration and NOTES.md, and writes meta.json.
"""

import json
import os
import re
import shutil
import subprocess
import sys

ROOT = os.path.dirname(os.path.dirname(os.path.abspath(__file__)))


def sh(cmd, cwd, env=None, timeout=1800):
    r = subprocess.run(cmd, cwd=cwd, shell=True, capture_output=True, text=True, env=env, timeout=timeout)
    return r.returncode, (r.stdout + r.stderr)


def main(argv):
    pid, wt, name, needs = argv[:4]
    env = dict(os.environ, PYTHONPATH=wt)
    demo = "demo_test.py"
    if not os.path.exists(os.path.join(wt, demo)):
        cands = [f for f in os.listdir(wt) if f.startswith("demo") and f.endswith(".py")]
        demo = cands[0]
    is_pytest = "def test_" in open(os.path.join(wt, demo)).read()
    demo_cmd = ("/venv/bin/python -m pytest -q -p no:cacheprovider -x %s" % demo) if is_pytest else ("/venv/bin/python %s" % demo)
    log = {}
    # regenerate the patch from the worktree
    rc, out = sh("git diff -- spowtd ':!spowtd/test' > mutant.diff; git diff --stat -- spowtd", wt)
    log["diffstat"] = out.strip()
    rc1, out1 = sh(demo_cmd, wt, env)
    log["demo_with_change"] = {"cmd": demo_cmd, "exit": rc1, "tail": out1.strip().splitlines()[-3:]}
    rc2, out2 = sh("/venv/bin/python -m pytest -q -p no:cacheprovider -n 12 --timeout=900 spowtd", wt, env)
    tail = out2.strip().splitlines()[-1] if out2.strip() else ""
    failed = sorted(set(re.findall(r"FAILED (\S+)", out2)))
    log["suite_with_change"] = {"cmd": "pytest -q -p no:cacheprovider -n 12 --timeout=900 spowtd", "summary": tail, "failed": failed}
    rc3, out3 = sh("git checkout -- spowtd && %s; rc=$?; git apply mutant.diff; exit $rc" % demo_cmd, wt, env)
    log["demo_without_change"] = {"exit": rc3, "tail": out3.strip().splitlines()[-3:]}
    m = re.search(r"(\d+) passed", tail)
    passed = int(m.group(1)) if m else 0
    only_r = all("peatclsm-None" in f for f in failed) and len(failed) == 2
    ok = rc1 != 0 and rc3 == 0 and passed == 54 and only_r
    print(json.dumps(log, indent=1))
    print("CONFIRMED" if ok else "NOT CONFIRMED")
    if not ok:
        return 1
    dst = os.path.join(ROOT, "seeded", name)
    os.makedirs(dst, exist_ok=True)
    shutil.copy(os.path.join(wt, "mutant.diff"), os.path.join(dst, "patch.diff"))
    shutil.copy(os.path.join(wt, demo), os.path.join(dst, demo))
    if os.path.exists(os.path.join(wt, "NOTES.md")):
        shutil.copy(os.path.join(wt, "NOTES.md"), os.path.join(dst, "NOTES.md"))
    head = subprocess.run(["git", "-C", wt, "rev-parse", "--short", "HEAD"], capture_output=True, text=True).stdout.strip()
    meta = {
        "breaks_property": pid,
        "written_by": "independent sub-agent given only the property text and its own scratch worktree",
        "base_commit": head,
        "needs_to_manifest": needs,
        "demonstration": demo,
        "confirmed_by_me": log,
    }
    with open(os.path.join(dst, "meta.json"), "w") as fh:
        json.dump(meta, fh, indent=1)
    print("filed under", dst)
    return 0


if __name__ == "__main__":
    sys.exit(main(sys.argv[1:]))
