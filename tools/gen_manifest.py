#!/venv/bin/python
"""Regenerate /verif/MANIFEST.json from the table below.

Only properties whose check module exists under spverif/props are listed
as claimed; the rest go to not_applicable with the reason given here.
"""

import json
import os

ROOT = os.path.dirname(os.path.dirname(os.path.abspath(__file__)))

LEVEL_TEXT = (
    "Structural necessary conditions of the property decided statically on every "
    "path / call site of the current source (no execution). A pass means every "
    "structural obligation listed in DESIGN.md {ref} holds; it is not a proof of the "
    "behavioural statement, whose numerical residue is listed in the level note."
)

CLAIMED = {
    "C01": ("§2 C01", "container-API resolution, guarded one-past-the-end subscripts, run-start dependence, uniqueness guarantees (schema+assertions), candidate def-use, CLI wiring, no unpacking along a data-dependent axis without an emptiness test; one jump threshold for rises and interstorm intervals; plain INSERTs in classify",
            "Residue: totality in general (numeric exceptions), termination argued via C02 skeleton. Trusts numpy semantics table and SQLite constraint enforcement."),
    "C02": ("§2 C02", "deferred-acceptance skeleton conformance: ordering parity (D-ord), polarity of preference metrics, re-queue ordering on CFG, duration metric by affine lengths, completeness of the groups both preference tables are built from (no groupby over an unsorted sequence); every free storm proposes (no exit from the iteration before the proposal except on an empty candidate list)",
            "Residue: the Gale-Shapley theorem itself; tie handling."),
    "C03": ("§2 C03", "comparison normal forms of threshold predicates, sibling consistency, affine index/epoch conventions at SQL sinks, reader/writer interval predicates, SQL AST of rain-depth view, index spaces of looked-up positions, cursor typestate of the per-interval loop; the series as stored (not rounded, not cut by a window) reaches the run detection; the record is read whole; plain INSERTs",
            "Residue: numpy cumsum labelling of interior runs is not re-derived."),
    "C04": ("§2 C04", "finite-skeleton extraction of the flag automaton (all 8 valuations), boolean normal form of flags, affine alignment of rates, INSERT column/argument lineage, cursor typestate of the per-interval loop, must-pass-through of the flags INSERT (post-dominance); one jump threshold argument; the record is read whole (no fetchmany / bound LIMIT); plain INSERTs",
            "Residue: maximal-run labelling as in C03."),
    "C05": ("§2 C05", "algebraic normal form of the assembled residual row vs. the gradient of the stated objective; def-use of normal-equation operands; reference position; connected components merge every group a level bridges; lineage of the stored rows (shared with C13); no truncated solve (lstsq / pinv cut-off); plain INSERTs in rise / recession / zeta_grid",
            "Residue: conditioning/singularity, floating point."),
    "C07": ("§2 C07", "time-origin lattice dataflow (ABS/REL/ABS~) from epoch sources to comparisons and stored columns; no int(epoch + fraction) truncation; no element taken from an unordered container of absolute epochs",
            "Residue: equivariance of float arithmetic on origin-free values."),
    "C09": ("§2 C09", "rounding-idiom classification of level->index conversion, two-sided on-grid test, guard dominance (CFG), sibling agreement of rise/recession, CLI wiring; accepting shortcuts of an on-grid predicate; default origin taken over the levels that are stored",
            "Residue: numeric tolerance of the on-grid test."),
    "C10": ("§2 C10", "SQL AST rules on grid bounds / copies / row order (rowid-alias lemma), interpolation argument lineage and index-space agreement, validity intervals as symbolic sequences (first grid instant, per-gap samples, last grid instant), sentinel and gap predicate normal forms; boundaries of the validity intervals not passed through value-changing functions",
            "Residue: numeric equality of np.interp; gap detection threshold."),
    "C11": ("§2 C11", "time-zone API provenance discipline, same-zone def-use, guard dominance of refusals over writes (CFG + call graph), premise of the foreign-key fallback for non-uniform steps; zone constructed through helpers, a name rewrite guarded by a constant regular expression evaluated over pytz.all_timezones; no int(epoch + fraction) truncation",
            "Residue: pytz tables; DST-ambiguous hours."),
    "C12": ("§2 C12", "library API resolution against installed numpy/scipy, rounding-function agreement and half-open range shapes, pair coverage (every pair of consecutive samples, exact filters only), bracket index agreement, default interpolant, scale agreement of closed-form positions, read-only arguments (may-alias of parameter arrays vs in-place operations); no pair skipped by a test of its abscissae; no buffer for computed positions in the dtype of the input",
            "Residue: brentq tolerance; samples one ulp beside a level."),
    "C13": ("§2 C13", "entity typing of SQL joins from the FK graph, interval-kind predicates, lineage of every stored row resolved through loop bindings / per-row lists / index look-ups, grid-step lineage, index-translation table, cursor typestate, grid containment; rows referenced by the curve tables (foreign-key closure, actions parsed) are not deleted on a connection without enforced foreign keys",
            "Residue: top level when max/step is an integer (documented numeric edge)."),
    "C14": ("§2 C14", "constant propagation to splrep (s=0,k=3), clamp normal form, order-cell evaluation of integrate over all weak orderings of (a,b,xmin,xmax), delegation of value and integral to one function (one-sided value-changing wrappers); all points reach the fit (operands of splrep traced to zip(*points), no subset); no tolerance branch in the integral; sorted values not regathered by the sorting permutation",
            "Residue: FITPACK itself; splint modelled as documented."),
    "C15": ("§2 C15", "branch/formula normal forms of call_scalar, exp-of-log-spline order 1, array path = mapped scalar path (a gather by the sorting permutation is named), unit bookkeeping; no fixed-order quadrature; sorted values not regathered by the sorting permutation",
            "Residue: quadrature accuracy."),
    "C16": ("§2 C16", "API resolution; cross-language algebraic normal-form agreement between the R reference and specific_yield.py; transmissivity normal form; refusal dominance; layer sum is not a quadrature routine; parameter mapping bound to constructors by name",
            "Residue: numerical agreement with R output."),
    "C17": ("§2 C17", "affine cell-integral indices, polarity of the mean shift, SQL ordering/binding, row integrity of 2-D row arrays, label/column/unit agreement; arguments read-only over spline / specific_yield / simulate_rise; no tolerance branch in the integral",
            "Residue: inherited from C14; YAML layout."),
    "C18": ("§2 C18", "integrand normal form, cell integrals, unit bookkeeping, ET interval-predicate rule, unit conversion keyed on the section it converts, output ordering parity and label/unit agreement; no fixed-order quadrature; sorted values not regathered by the sorting permutation",
            "Residue: quadrature; sign of denominator."),
    "C19": ("§2 C19", "symbolic line counts vs declared counts, name-family equality, ordering parity pst vs simulate, format precision, instruction window width against the width of hand-formatted items, marker agreement, template/constructor keys; nothing written between the marker line and the vector; fixed template values not passed through value-changing helpers",
            "Residue: PEST's own parsing rules."),
    "C20": ("§2 C20", "transaction-effect analysis: call-graph + CFG reachability from commit points to writes, handler discipline, connection mode, first keyword of every write (driver-opened transaction), Bernstein conditions on table read/write sets; callee write / commit summaries computed from every body (new callees included)",
            "Trusted base: SQLite atomic commit; CPython sqlite3 legacy transaction control. O5 is a sufficient condition (labelled)."),
}

NOT_APPLICABLE = {
    "C06": "End-to-end numerical recovery of a planted curve through five commands; quantifies over runtime values only; no structural necessary condition beyond those claimed under C03/C05/C12/C13/C20 (static analysis cannot bound it; see DESIGN.md §4).",
    "C08": "Metamorphic relation between executions (permutation, per-interval shift, choice of zero) decided by floating-point least squares and connected components of runtime level sets; the only structural residue (index mapping) is claimed under C13.O4 (see DESIGN.md §4).",
}


def main():
    checks = []
    na = [{"property_id": k, "reason": v} for k, v in sorted(NOT_APPLICABLE.items())]
    for pid, (ref, technique, note) in sorted(CLAIMED.items()):
        mod = os.path.join(ROOT, "spverif", "props", pid.lower() + ".py")
        if not os.path.exists(mod):
            na.append({"property_id": pid,
                       "reason": "check designed (DESIGN.md %s) but not built yet in this tree; not claimed until it runs" % ref})
            continue
        checks.append({
            "property_id": pid,
            "quick_cmd": "/venv/bin/python -m spverif %s --tier quick" % pid,
            "thorough_cmd": "/venv/bin/python -m spverif %s --tier thorough" % pid,
            "evidence_file": "/verif/evidence/%s.json" % pid,
            "replay_cmd_template": "/venv/bin/python -m spverif %s --replay {path}" % pid,
            "engine": "spverif",
            "level_claimed": {
                "category": "other",
                "text": LEVEL_TEXT.format(ref=ref),
                "design_ref": "DESIGN.md " + ref,
            },
            "level_note": note,
            "technique": "static analysis: " + technique,
        })
    manifest = {
        "version": 1,
        "setup_cmd": "/venv/bin/python -m compileall -q spverif && /venv/bin/python -m spverif.selfcheck",
        "hooks": {
            "guard": "SPOWTD_VERIF",
            "enable": "none needed: static analysis reads /repo's working tree; no instrumentation exists",
            "baseline_off_cmd": "cd /repo && /venv/bin/python -m pytest -ra -q -p no:cacheprovider --timeout=900 --continue-on-collection-errors",
            "source_commits": [],
            "add_only": True,
        },
        "engines": [{
            "name": "spverif",
            "path": "/verif/spverif",
            "serves_properties": [c["property_id"] for c in checks],
            "kind_free_text": "repository-specific static analyser: semantics-preserving normal forms applied to every AST first (single-use temporaries, aliases, literal order, helpers the rules have never read unfolded), then ast + hand-built CFG / dominators / mutation-aware reaching definitions, loop-variable bindings, SQL parser and schema model with result and parameter bindings, algebraic / comparison normal forms, order-cell and finite-skeleton evaluation, symbolic sequences, small abstract domains; pure stdlib, run with /venv/bin/python; imports numpy/scipy/pytz only to read their exported names",
        }],
        "checks": checks,
        "not_applicable": na,
        "notes": "All checks are static: they parse /repo's current working tree on every run and never import or execute spowtd. Every obligation has three outcomes: holds; a construct that is present is wrong (VIOLATION naming it, exit 1); the construction is not one the rule reads (ANALYSIS-ERROR, exit 2 -- never a VIOLATION). The thorough tier adds self-validation on the current tree: labelled breaking / preserving edits, 119 independently written breaking changes (seeded/) and 158 independently written behaviour-preserving refactorings (preserving/), applied in memory.",
    }
    with open(os.path.join(ROOT, "MANIFEST.json"), "w") as fh:
        json.dump(manifest, fh, indent=1)
    print("claimed:", [c["property_id"] for c in checks])
    print("not applicable:", [n["property_id"] for n in na])


if __name__ == "__main__":
    main()
