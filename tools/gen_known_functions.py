#!/venv/bin/python
"""Freeze the list of functions of the analysed package that the rules were written against
(spverif/known_functions.json).  Run by hand when the rules have been re-read against a new tree;
never at check time."""
import json
import os
import sys

ROOT = os.path.dirname(os.path.dirname(os.path.abspath(__file__)))
sys.path.insert(0, ROOT)
from spverif.source import Repo  # noqa: E402

repo = Repo()
names = sorted(f.fq for f in repo.all_funcs())
with open(os.path.join(ROOT, "spverif", "known_functions.json"), "w") as fh:
    json.dump({"note": "functions of spowtd present when the rules were written; a violated obligation that depends on a function "
                       "not listed here is reported as 'cannot decide' (the rule has never read that function)",
               "functions": names}, fh, indent=1)
print(len(names), "functions")
