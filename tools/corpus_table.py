#!/venv/bin/python
"""Markdown table of the self-validation corpora (for DESIGN.md 8.5)."""
import importlib
import os
import sys

sys.path.insert(0, os.path.dirname(os.path.dirname(os.path.abspath(__file__))))
tot = [0, 0, 0]
print("| property | breaking edits | preserving edits (must be silent) | correct rewrites outside the idioms (no alarm; may be undecided) |")
print("|---|---|---|---|")
for p in "01 02 03 04 05 07 09 10 11 12 13 14 15 16 17 18 19 20".split():
    m = importlib.import_module("spverif.corpus.c" + p)
    f = sum(1 for e in m.EDITS if e["expect"] == "fire")
    s = sum(1 for e in m.EDITS if e["expect"] == "silent")
    n = sum(1 for e in m.EDITS if e["expect"] == "no-alarm")
    tot[0] += f
    tot[1] += s
    tot[2] += n
    print("| C%s | %d | %d | %d |" % (p, f, s, n))
print("| total | %d | %d | %d |" % tuple(tot))
