#!/venv/bin/python
"""Run all 18 checks against every independently written behaviour-preserving refactoring under
preserving/<id>/patch.diff (applied in memory to the current tree).  Prints one row per patch:
checks that report a violation (a false alarm: must be none) and checks that cannot decide.
Writes preserving/RESULTS.json.   usage: tools/run_preserving.py [--jobs N]"""
import json
import os
import sys
from concurrent.futures import ProcessPoolExecutor

ROOT = os.path.dirname(os.path.dirname(os.path.abspath(__file__)))
sys.path.insert(0, ROOT)
from spverif.__main__ import PROPS, run_property  # noqa: E402
from spverif.report import new_violations  # noqa: E402
from spverif.selftest import apply_patch  # noqa: E402
from spverif.source import Repo  # noqa: E402


def job(name):
    repo = Repo()
    ov = apply_patch(repo, "preserving/%s/patch.diff" % name)
    if ov is None:
        return {"id": name, "applies": False}
    alarms, undecided = {}, {}
    for p in PROPS:
        code, chk = run_property(p, "quick", overlay=ov, write=False, out=lambda *_: None)
        if code == 1:
            alarms[p] = sorted({"%s @ %s" % (v.rule, v.key) for v in new_violations(chk)})
        elif code == 2:
            undecided[p] = sorted({e.split(":")[0] for e in chk.errors})
    return {"id": name, "applies": True, "files": sorted(ov), "alarms": alarms, "undecided": undecided}


def main(argv):
    jobs = int(argv[argv.index("--jobs") + 1]) if "--jobs" in argv else 16
    names = sorted(n for n in os.listdir(os.path.join(ROOT, "preserving")) if os.path.exists(os.path.join(ROOT, "preserving", n, "patch.diff")))
    with ProcessPoolExecutor(max_workers=jobs) as ex:
        res = list(ex.map(job, names))
    with open(os.path.join(ROOT, "preserving", "RESULTS.json"), "w") as fh:
        json.dump(res, fh, indent=1)
    bad = 0
    for r in res:
        if not r["applies"]:
            print("%-8s does not apply to the current tree" % r["id"])
            continue
        bad += bool(r["alarms"])
        print("%-8s %-28s alarms: %-30s cannot decide: %s" % (r["id"], ",".join(f.split("/")[-1] for f in r["files"]), r["alarms"] or "-",
                                                             ", ".join("%s(%s)" % (p, "/".join(v)) for p, v in r["undecided"].items()) or "-"))
    print("%d refactorings, %d with a false alarm, %d decided by every check" % (len(res), bad, sum(1 for r in res if r["applies"] and not r["alarms"] and not r["undecided"])))
    return 1 if bad else 0


if __name__ == "__main__":
    sys.exit(main(sys.argv[1:]))
