"""usage: tools/probe.py <preserving id | path/to/patch.diff> <Cxx> [...]  -- exit code, errors and violations of the checks on the patched tree (in memory)"""
import sys, os
sys.path.insert(0,'/verif'); os.chdir('/verif')
from spverif.__main__ import run_property
from spverif.selftest import apply_patch
from spverif.source import Repo
name, props = sys.argv[1], sys.argv[2:]
repo=Repo(); ov=apply_patch(repo, name if name.endswith('.diff') else "preserving/%s/patch.diff"%name)
for p in props:
    code,chk=run_property(p,"quick",overlay=ov,write=False,out=lambda *_:None)
    print(p,code)
    for e in chk.errors: print('   ERR',e[:600])
    if code==1:
        from spverif.report import new_violations
        for v in new_violations(chk): print('   VIO',v.rule,v.key,str(getattr(v,'found',''))[:300])
