#!/venv/bin/python
"""Same table as tools/run_seeded.py (seeded/RESULTS.json), computed in memory: every seeded patch is applied as an
overlay to the current tree and all 18 checks run on it in a process pool.   usage: tools/run_seeded_fast.py [--jobs N]"""
import json
import os
import sys
from concurrent.futures import ProcessPoolExecutor

ROOT = os.path.dirname(os.path.dirname(os.path.abspath(__file__)))
sys.path.insert(0, ROOT)
os.chdir(ROOT)
from spverif.__main__ import PROPS, run_property  # noqa: E402
from spverif.report import new_violations  # noqa: E402
from spverif.selftest import apply_patch  # noqa: E402
from spverif.source import Repo  # noqa: E402


def job(a):
    label, p = a
    repo = Repo()
    ov = apply_patch(repo, "seeded/%s/patch.diff" % label)
    if ov is None:
        return label, p, "noapply", [], []
    try:
        code, chk = run_property(p, "quick", overlay=ov, write=False, out=lambda *_: None)
    except Exception as exc:  # the engine itself failed on this variant
        return label, p, 2, [], ["engine: %s" % exc]
    rules = sorted({v.rule for v in new_violations(chk)}) if code == 1 else []
    return label, p, code, rules, [e[:160] for e in chk.errors[:2]]


def main(argv):
    jobs_n = int(argv[argv.index("--jobs") + 1]) if "--jobs" in argv else 14
    sd = os.path.join(ROOT, "seeded")
    labels = sorted(d for d in os.listdir(sd) if os.path.isfile(os.path.join(sd, d, "patch.diff")))
    res = {l: {"label": l, "fired": {}, "indeterminate": {}} for l in labels}
    with ProcessPoolExecutor(max_workers=jobs_n) as ex:
        for label, p, code, rules, errs in ex.map(job, [(l, p) for l in labels for p in PROPS], chunksize=4):
            if code == 1:
                res[label]["fired"][p] = rules
            elif code == 2:
                res[label]["indeterminate"][p] = errs
            elif code == "noapply":
                res[label]["error"] = "patch does not apply"
    out = []
    n_own = n_sib = n_und = n_miss = 0
    for l in labels:
        r = res[l]
        meta = os.path.join(sd, l, "meta.json")
        if os.path.exists(meta):
            r["breaks"] = json.load(open(meta)).get("breaks_property")
        t = r.get("breaks")
        if t in r["fired"]:
            n_own += 1
        elif r["fired"]:
            n_sib += 1
        elif r["indeterminate"]:
            n_und += 1
        else:
            n_miss += 1
            print("MISSED", l)
        out.append(r)
    json.dump(out, open(os.path.join(sd, "RESULTS.json"), "w"), indent=1)
    print("%d changes: %d reported by the property's own check, %d by a sibling only, %d cannot decide, %d silent" % (len(labels), n_own, n_sib, n_und, n_miss))


if __name__ == "__main__":
    main(sys.argv[1:])
