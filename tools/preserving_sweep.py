#!/venv/bin/python
"""Generic behaviour-preserving single-point rewrites of spowtd, run against all checks.

The counterpart of tools/generic_mutants.py: every variant here computes the
same thing as the current tree, so a check that reports a VIOLATION on one of
them raises a false alarm.  "Cannot decide" (exit 2) is tolerated and tabulated
(the analysis does not know that idiom), a VIOLATION is not.

Operators (one site per variant):
  mirror     a < b            ->  b > a                (also <=, >=, ==, !=)
  commute    a * b            ->  b * a ;  x + c  ->  c + x  (c a numeric literal)
  ifswap     if c: A else: B  ->  if not c: B else: A
  ifexp      a if c else b    ->  b if not c else a
  demorgan   if a and b:      ->  if not (not a or not b):   (tests of if / while / assert only)
  extract    t = f(e, ...)    ->  _sv_tmp = e ; t = f(_sv_tmp, ...)   (first argument of the statement's own call)
  kwarg      f(a, b)          ->  f(a, name=b)   for calls that resolve to a function of the repository
  posarg     f(a, name=b)     ->  f(a, b)        when `name` is the next positional parameter
  pass       insert `pass` before a statement
  bitcomm    a & b -> b & a ; a | b -> b | a          (operands without calls)
  split      a, b = x, y      ->  a = x ; b = y        (y does not mention a)
  rettemp    return E         ->  sv_ret = E ; return sv_ret
  negidx     x[-k]            ->  x[len(x) - k]        (x a plain name, loads only)
  npdiff     np.diff(x)       ->  x[1:] - x[:-1]       (one argument, x a plain name)
  assertmsg  assert c, msg    ->  assert c
  dellog     a `LOG.x(...)` / `del name` statement removed
  swapstmts  a = E1 ; b = E2  ->  b = E2 ; a = E1      (adjacent, no calls, no shared names)
  extractp   any call-free sub-expression of a simple statement -> temporary before it
  sqlalias   one table alias of an SQL statement renamed throughout the statement
  opaque     one expression (an assigned / returned value, a test, a loop iterable, a call argument) wrapped in
             an identity helper the analysis cannot see through: whatever rule read that expression must now
             say "cannot decide", never "violation"
  sqllower   SQL keywords of one statement in lower case
  sqlws      one SQL statement re-wrapped (whitespace collapsed)
  sqlmirror  `a.x = b.y` inside SQL -> `b.y = a.x`

usage: tools/preserving_sweep.py [--seed N] [--max M (sample size for `pass`; all other sites are exhaustive)] [--modules a,b] [--jobs J] [--out file.json]
exit 0: no variant reported as a violation; exit 1: at least one false alarm (listed).
"""

import ast
import json
import os
import random
import sys
from concurrent.futures import ProcessPoolExecutor

ROOT = os.path.dirname(os.path.dirname(os.path.abspath(__file__)))
sys.path.insert(0, ROOT)

from spverif.__main__ import PROPS, run_property  # noqa: E402
from spverif.source import Repo  # noqa: E402

SKIP_MODULES = {"plot_recession", "plot_rise", "plot_specific_yield", "plot_time_series", "plot_transmissivity", "__init__"}
MIRROR = {ast.Gt: ast.Lt, ast.Lt: ast.Gt, ast.GtE: ast.LtE, ast.LtE: ast.GtE, ast.Eq: ast.Eq, ast.NotEq: ast.NotEq}


import re

SQLEQ = re.compile(r"(?<![<>!=.\w])([A-Za-z_][\w]*\.[A-Za-z_]\w*)(\s*)=(\s*)([A-Za-z_]\w*\.[A-Za-z_]\w*)(?![\w.(])")
SQLKW = ("SELECT FROM WHERE AND OR NOT JOIN ON AS ORDER BY GROUP INSERT INTO VALUES UPDATE SET DELETE LEFT INNER OUTER USING "
         "HAVING LIMIT IS NULL IN EXISTS DISTINCT CASE WHEN THEN ELSE END BETWEEN ASC DESC UNION ALL CAST INTEGER REAL").split()


def _num(n):
    return isinstance(n, ast.Constant) and isinstance(n.value, (int, float)) and not isinstance(n.value, bool)


def _pure(n):
    """No call, no subscript store, no walrus: evaluation order does not matter."""
    return not any(isinstance(x, (ast.Call, ast.NamedExpr, ast.Await, ast.Yield, ast.YieldFrom)) for x in ast.walk(n))


def _parents(tree):
    for p in ast.walk(tree):
        for c in ast.iter_child_nodes(p):
            c._p = p


def _in_scope_expr(n):
    """inside a lambda / comprehension (own scope)?"""
    p = getattr(n, "_p", None)
    while p is not None:
        if isinstance(p, (ast.Lambda, ast.ListComp, ast.GeneratorExp, ast.SetComp, ast.DictComp)):
            return True
        if isinstance(p, ast.stmt):
            return False
        p = getattr(p, "_p", None)
    return False


def repo_signatures(repo):
    """(module name, function name) -> positional parameter names, for module-level functions."""
    sig = {}
    for name, m in repo.modules.items():
        for st in m.tree.body:
            if isinstance(st, ast.FunctionDef) and not st.args.vararg and not st.args.posonlyargs:
                sig[(name, st.name)] = [a.arg for a in st.args.args]
    return sig


def resolve(modname, aliases, call, sig):
    f = call.func
    if isinstance(f, ast.Name) and (modname, f.id) in sig:
        return sig[(modname, f.id)]
    if isinstance(f, ast.Attribute) and isinstance(f.value, ast.Name):
        tgt = aliases.get(f.value.id, "")
        mod = tgt.split(".")[-1] if tgt.startswith("spowtd") else None
        if mod and (mod, f.attr) in sig:
            return sig[(mod, f.attr)]
    return None


def sites(tree, modname, aliases, sig):
    _parents(tree)
    out = []
    nodes = list(ast.walk(tree))
    for i, n in enumerate(nodes):
        if isinstance(n, ast.Compare) and len(n.ops) == 1 and type(n.ops[0]) in MIRROR and _pure(n):
            out.append(("mirror", i))
        elif isinstance(n, ast.BinOp) and isinstance(n.op, ast.Mult) and _pure(n) and not any(
                isinstance(x, (ast.List, ast.Tuple, ast.Constant)) and not _num(x) for x in (n.left, n.right)):
            out.append(("commute", i))
        elif isinstance(n, ast.BinOp) and isinstance(n.op, ast.Add) and _pure(n) and _num(n.right) and not isinstance(n.left, (ast.List, ast.Tuple)):
            out.append(("commute", i))
        elif isinstance(n, ast.If) and n.orelse and not (len(n.orelse) == 1 and isinstance(n.orelse[0], ast.If)):
            out.append(("ifswap", i))
        elif isinstance(n, ast.IfExp):
            out.append(("ifexp", i))
        elif isinstance(n, ast.BoolOp) and isinstance(n.op, ast.And) and len(n.values) == 2:
            p = getattr(n, "_p", None)
            if isinstance(p, (ast.If, ast.While, ast.Assert)) and p.test is n:
                out.append(("demorgan", i))
        if isinstance(n, (ast.Assign, ast.Expr, ast.Return)) and isinstance(getattr(n, "value", None), ast.Call):
            c = n.value
            if c.args and not isinstance(c.args[0], (ast.Name, ast.Constant, ast.Starred, ast.GeneratorExp, ast.Lambda)) \
                    and isinstance(c.func, (ast.Name, ast.Attribute)) and _pure(c.func):
                out.append(("extract", i))
        if isinstance(n, ast.Call) and not _in_scope_expr(n) or isinstance(n, ast.Call):
            ps = resolve(modname, aliases, n, sig)
            if ps is not None and not any(isinstance(a, ast.Starred) for a in n.args) and not any(k.arg is None for k in n.keywords):
                if n.args and len(n.args) <= len(ps):
                    out.append(("kwarg", i))
                if n.keywords and len(n.args) < len(ps) and n.keywords[0].arg == ps[len(n.args)]:
                    out.append(("posarg", i))
        if isinstance(n, ast.stmt) and not isinstance(n, (ast.FunctionDef, ast.ClassDef, ast.Import, ast.ImportFrom)) and isinstance(
                getattr(n, "_p", None), (ast.FunctionDef, ast.For, ast.While, ast.If, ast.With)):
            out.append(("pass", i))
        if isinstance(n, ast.BinOp) and isinstance(n.op, (ast.BitAnd, ast.BitOr)) and _pure(n):
            out.append(("bitcomm", i))
        if isinstance(n, ast.expr) and not isinstance(n, (ast.Constant, ast.Starred, ast.Yield, ast.YieldFrom, ast.Await, ast.Lambda)) \
                and isinstance(getattr(n, "ctx", ast.Load()), ast.Load) and not _in_scope_expr(n):
            p_ = getattr(n, "_p", None)
            f_ = n
            while f_ is not None and not isinstance(f_, (ast.FunctionDef, ast.AsyncFunctionDef)):
                f_ = getattr(f_, "_p", None)
            role = None
            if isinstance(p_, (ast.Assign, ast.AugAssign, ast.Return)) and p_.value is n:
                role = "value"
            elif isinstance(p_, (ast.If, ast.While)) and p_.test is n:
                role = "test"
            elif isinstance(p_, ast.For) and p_.iter is n:
                role = "iter"
            elif isinstance(p_, ast.Call) and any(a is n for a in p_.args):
                role = "arg"
            if role and f_ is not None and not any(isinstance(x, (ast.Yield, ast.YieldFrom, ast.Await)) for x in ast.walk(n)):
                out.append(("opaque", i))
        if isinstance(n, ast.Assert) and n.msg is not None:
            out.append(("assertmsg", i))
        if isinstance(n, ast.Delete) or (isinstance(n, ast.Expr) and isinstance(n.value, ast.Call) and isinstance(n.value.func, ast.Attribute)
                                         and isinstance(n.value.func.value, ast.Name) and n.value.func.value.id == "LOG"):
            out.append(("dellog", i))
        if isinstance(n, ast.Assign) and len(n.targets) == 1 and isinstance(n.targets[0], ast.Name) and _pure(n.value):
            p_ = getattr(n, "_p", None)
            for fld in ("body", "orelse"):
                b = getattr(p_, fld, None)
                if isinstance(b, list) and n in b and b.index(n) + 1 < len(b):
                    m_ = b[b.index(n) + 1]
                    if isinstance(m_, ast.Assign) and len(m_.targets) == 1 and isinstance(m_.targets[0], ast.Name) and _pure(m_.value):
                        na = {x.id for x in ast.walk(n) if isinstance(x, ast.Name)}
                        nb = {x.id for x in ast.walk(m_) if isinstance(x, ast.Name)}
                        if n.targets[0].id not in nb and m_.targets[0].id not in na:
                            out.append(("swapstmts", i))
        if isinstance(n, ast.expr) and not isinstance(n, (ast.Name, ast.Constant, ast.Starred, ast.Slice, ast.Tuple, ast.List)) and isinstance(getattr(n, "ctx", ast.Load()), ast.Load) \
                and _pure(n) and not _in_scope_expr(n) and not isinstance(getattr(n, "_p", None), (ast.stmt, ast.keyword, ast.Slice, ast.comprehension, ast.FormattedValue, ast.JoinedStr)):
            st_ = n
            while st_ is not None and not isinstance(st_, ast.stmt):
                st_ = getattr(st_, "_p", None)
            if isinstance(st_, (ast.Assign, ast.Expr, ast.Return)) and not isinstance(getattr(st_, "_p", None), (ast.Module, ast.ClassDef)):
                # only the value side, and nothing evaluated before it may be a call
                inside_value = any(x is n for x in ast.walk(st_.value)) if st_.value is not None else False
                if inside_value and not isinstance(n, ast.Attribute):
                    out.append(("extractp", i))
        if isinstance(n, ast.Assign) and len(n.targets) == 1 and isinstance(n.targets[0], ast.Tuple) and isinstance(n.value, ast.Tuple) \
                and len(n.targets[0].elts) == len(n.value.elts) and all(isinstance(t, ast.Name) for t in n.targets[0].elts):
            tn = [t.id for t in n.targets[0].elts]
            later_uses = False
            for k, v in enumerate(n.value.elts[1:], 1):
                if {x.id for x in ast.walk(v) if isinstance(x, ast.Name)} & set(tn[:k]):
                    later_uses = True
            if not later_uses:
                out.append(("split", i))
        if isinstance(n, ast.Return) and n.value is not None and not isinstance(n.value, (ast.Name, ast.Constant)):
            out.append(("rettemp", i))
        if isinstance(n, ast.Subscript) and isinstance(n.ctx, ast.Load) and isinstance(n.value, ast.Name) and isinstance(n.slice, ast.UnaryOp) \
                and isinstance(n.slice.op, ast.USub) and _num(n.slice.operand):
            out.append(("negidx", i))
        if isinstance(n, ast.Call) and isinstance(n.func, ast.Attribute) and n.func.attr == "diff" and isinstance(n.func.value, ast.Name) \
                and n.func.value.id == "np" and len(n.args) == 1 and not n.keywords and isinstance(n.args[0], ast.Name):
            out.append(("npdiff", i))
        if isinstance(n, ast.Constant) and isinstance(n.value, str) and re.search(r"\b(SELECT|INSERT|UPDATE|DELETE|CREATE)\b", n.value):
            out.append(("sqllower", i))
            for k_, m_ in enumerate(re.finditer(r"\bAS\s+([a-z_][a-z0-9_]*)\b", n.value)):
                out.append(("sqlalias:%d" % k_, i))
            out.append(("sqlws", i))
            for k_, m_ in enumerate(SQLEQ.finditer(n.value)):
                out.append(("sqlmirror:%d" % k_, i))
    return out


def transform(src, site, modname, aliases, sig):
    kind, idx = site
    tree = ast.parse(src)
    _parents(tree)
    nodes = list(ast.walk(tree))
    n = nodes[idx]
    line = getattr(n, "lineno", 0)
    if kind == "mirror":
        n.left, n.comparators[0] = n.comparators[0], n.left
        n.ops[0] = MIRROR[type(n.ops[0])]()
    elif kind == "commute":
        n.left, n.right = n.right, n.left
    elif kind == "ifswap":
        n.test = ast.UnaryOp(op=ast.Not(), operand=n.test)
        n.body, n.orelse = n.orelse, n.body
    elif kind == "ifexp":
        n.test = ast.UnaryOp(op=ast.Not(), operand=n.test)
        n.body, n.orelse = n.orelse, n.body
    elif kind == "demorgan":
        p = n._p
        p.test = ast.UnaryOp(op=ast.Not(), operand=ast.BoolOp(op=ast.Or(), values=[ast.UnaryOp(op=ast.Not(), operand=v) for v in n.values]))
    elif kind == "extract":
        c = n.value
        tmp = "sv_tmp_%d" % line
        pre = ast.Assign(targets=[ast.Name(id=tmp, ctx=ast.Store())], value=c.args[0])
        c.args[0] = ast.Name(id=tmp, ctx=ast.Load())
        p = n._p
        done = False
        for fld in ("body", "orelse", "finalbody"):
            b = getattr(p, fld, None)
            if isinstance(b, list) and n in b:
                b.insert(b.index(n), pre)
                done = True
                break
        if not done:
            return None, None
    elif kind == "kwarg":
        ps = resolve(modname, aliases, n, sig)
        k = len(n.args) - 1
        n.keywords.insert(0, ast.keyword(arg=ps[k], value=n.args.pop()))
    elif kind == "posarg":
        n.args.append(n.keywords.pop(0).value)
    elif kind == "pass":
        p = n._p
        done = False
        for fld in ("body", "orelse", "finalbody"):
            b = getattr(p, fld, None)
            if isinstance(b, list) and n in b:
                b.insert(b.index(n), ast.Pass())
                done = True
                break
        if not done:
            return None, None
    elif kind == "bitcomm":
        n.left, n.right = n.right, n.left
    elif kind == "opaque":
        new = ast.Call(func=ast.Name(id="_sv_opaque", ctx=ast.Load()), args=[n], keywords=[])
        if not _replace(n._p, n, new):
            return None, None
        tree.body.extend(ast.parse("def _sv_opaque(x):\n    y = x\n    return y\n").body)
    elif kind == "assertmsg":
        n.msg = None
    elif kind == "dellog":
        p = n._p
        done = False
        for fld in ("body", "orelse", "finalbody"):
            b = getattr(p, fld, None)
            if isinstance(b, list) and n in b:
                if len(b) == 1:
                    b[0] = ast.Pass()
                else:
                    b.remove(n)
                done = True
                break
        if not done:
            return None, None
    elif kind == "swapstmts":
        p = n._p
        done = False
        for fld in ("body", "orelse"):
            b = getattr(p, fld, None)
            if isinstance(b, list) and n in b:
                k = b.index(n)
                b[k], b[k + 1] = b[k + 1], b[k]
                done = True
                break
        if not done:
            return None, None
    elif kind == "extractp":
        st_ = n
        while not isinstance(st_, ast.stmt):
            st_ = st_._p
        # everything evaluated before n in the statement must be call-free: approximate by requiring that
        # no Call node *precedes* n in source order within the statement's value unless it contains n
        for c in ast.walk(st_.value):
            if isinstance(c, ast.Call) and not any(x is n for x in ast.walk(c)) and (c.lineno, c.col_offset) < (n.lineno, n.col_offset):
                return None, None
        tmp = "sv_p_%d_%d" % (n.lineno, n.col_offset)
        pre = ast.Assign(targets=[ast.Name(id=tmp, ctx=ast.Store())], value=n)
        if not _replace(st_, n, ast.Name(id=tmp, ctx=ast.Load())):
            return None, None
        p = st_._p
        done = False
        for fld in ("body", "orelse", "finalbody"):
            b = getattr(p, fld, None)
            if isinstance(b, list) and st_ in b:
                b.insert(b.index(st_), pre)
                done = True
                break
        if not done:
            return None, None
    elif kind.startswith("sqlalias:"):
        k_ = int(kind.split(":")[1])
        ms = list(re.finditer(r"\bAS\s+([a-z_][a-z0-9_]*)\b", n.value))
        if k_ >= len(ms):
            return None, None
        al = ms[k_].group(1)
        # an alias that is also a column / table / output name is left alone
        if re.search(r"\.%s\b" % al, n.value) or len(al) > 4:
            return None, None
        n.value = re.sub(r"(?<![\w.:])%s(?![\w])" % al, al + "_r", n.value)
    elif kind == "split":
        p = n._p
        news = [ast.Assign(targets=[t], value=v) for t, v in zip(n.targets[0].elts, n.value.elts)]
        done = False
        for fld in ("body", "orelse", "finalbody"):
            b = getattr(p, fld, None)
            if isinstance(b, list) and n in b:
                k = b.index(n)
                b[k:k + 1] = news
                done = True
                break
        if not done:
            return None, None
    elif kind == "rettemp":
        p = n._p
        tmp = "sv_ret_%d" % line
        pre = ast.Assign(targets=[ast.Name(id=tmp, ctx=ast.Store())], value=n.value)
        n.value = ast.Name(id=tmp, ctx=ast.Load())
        done = False
        for fld in ("body", "orelse", "finalbody"):
            b = getattr(p, fld, None)
            if isinstance(b, list) and n in b:
                b.insert(b.index(n), pre)
                done = True
                break
        if not done:
            return None, None
    elif kind == "negidx":
        k = n.slice.operand
        n.slice = ast.BinOp(left=ast.Call(func=ast.Name(id="len", ctx=ast.Load()), args=[ast.Name(id=n.value.id, ctx=ast.Load())], keywords=[]),
                            op=ast.Sub(), right=k)
    elif kind == "npdiff":
        x = n.args[0].id
        new = ast.parse("%s[1:] - %s[:-1]" % (x, x), mode="eval").body
        if not _replace(tree, n, new):
            return None, None
    elif kind == "sqllower":
        txt = n.value
        for kw in SQLKW:
            txt = re.sub(r"(?<![\w'])%s(?![\w'])" % kw, kw.lower(), txt)
        n.value = txt
    elif kind == "sqlws":
        if "'" in n.value or "--" in n.value:
            return None, None
        n.value = " ".join(n.value.split())
    elif kind.startswith("sqlmirror:"):
        k_ = int(kind.split(":")[1])
        ms = list(SQLEQ.finditer(n.value))
        if k_ >= len(ms):
            return None, None
        m_ = ms[k_]
        n.value = n.value[:m_.start()] + m_.group(4) + m_.group(2) + "=" + m_.group(3) + m_.group(1) + n.value[m_.end():]
    ast.fix_missing_locations(tree)
    try:
        text = ast.unparse(tree) + "\n"
        ast.parse(text)
    except Exception:
        return None, None
    return text, "line %d: %s" % (line, kind)


def _replace(root, old, new):
    for p in ast.walk(root):
        for fld, val in ast.iter_fields(p):
            if val is old:
                setattr(p, fld, new)
                return True
            if isinstance(val, list):
                for j, x in enumerate(val):
                    if x is old:
                        val[j] = new
                        return True
    return False


def _new(chk):
    from spverif.report import new_violations
    return new_violations(chk)


def evaluate(job):
    rel, text, desc, kind = job
    fired = {}
    indet = {}
    for p in PROPS:
        code, chk = run_property(p, "quick", overlay={rel: text}, write=False, out=lambda *_: None)
        if code == 1:
            fired[p] = sorted({"%s @ %s" % (v.rule, v.key) for v in _new(chk)})
        elif code == 2:
            indet[p] = [str(e)[:160] for e in chk.errors[:2]]
    return {"file": rel, "rewrite": desc, "kind": kind, "fired": fired, "indeterminate": indet}


def main(argv):
    seed = int(argv[argv.index("--seed") + 1]) if "--seed" in argv else 0
    mx = int(argv[argv.index("--max") + 1]) if "--max" in argv else 60
    jobs_n = int(argv[argv.index("--jobs") + 1]) if "--jobs" in argv else 16
    only = argv[argv.index("--modules") + 1].split(",") if "--modules" in argv else None
    kinds = argv[argv.index("--kinds") + 1].split(",") if "--kinds" in argv else None
    out = argv[argv.index("--out") + 1] if "--out" in argv else os.path.join(ROOT, "notes", "preserving_sweep.json")
    repo = Repo()
    sig = repo_signatures(repo)
    rng = random.Random(seed)
    allsites = []
    base = {}
    info = {}
    for name, m in sorted(repo.modules.items()):
        if name in SKIP_MODULES or (only and name not in only):
            continue
        src = ast.unparse(ast.parse(m.src)) + "\n"
        base[m.relpath] = src
        info[m.relpath] = (name, dict(m.aliases))
        for s in sites(ast.parse(src), name, m.aliases, sig):
            if kinds and s[0] not in kinds:
                continue
            allsites.append((m.relpath, s))
    rng.shuffle(allsites)
    jobs = []
    n_pass = 0
    n_opq = 0
    mxo = int(argv[argv.index("--max-opaque") + 1]) if "--max-opaque" in argv else 0
    pick = argv[argv.index("--only") + 1] if "--only" in argv else None   # file:line:kind
    for rel, s in allsites:
        # every site of the real rewrites; `pass` insertion (1000+ sites) is sampled
        if s[0] == "pass":
            if n_pass >= mx:
                continue
            n_pass += 1
        if s[0] == "opaque":
            if n_opq >= mxo:
                continue
            n_opq += 1
        text, desc = transform(base[rel], s, info[rel][0], info[rel][1], sig)
        if text is None or text == base[rel]:
            continue
        if pick and pick != "%s:%s:%s" % (os.path.basename(rel), desc.split(":")[0].split()[1], s[0].split(":")[0]):
            continue
        jobs.append((rel, text, desc, s[0].split(":")[0]))
    with ProcessPoolExecutor(max_workers=jobs_n) as ex:
        results = list(ex.map(evaluate, jobs, chunksize=4))
    import difflib
    for r, j in zip(results, jobs):
        if r["fired"] or r["indeterminate"]:
            r["diff"] = [l for l in difflib.unified_diff(base[j[0]].splitlines(), j[1].splitlines(), lineterm="", n=0) if not l.startswith(("---", "+++"))]
    alarms = [r for r in results if r["fired"]]
    indet = [r for r in results if not r["fired"] and r["indeterminate"]]
    by_kind = {}
    for r in results:
        k = by_kind.setdefault(r["kind"], [0, 0, 0])
        k[0 if r["fired"] else (1 if r["indeterminate"] else 2)] += 1
    summary = {"seed": seed, "variants": len(results), "false_alarms": len(alarms), "cannot_decide": len(indet),
               "silent": len(results) - len(alarms) - len(indet), "sites_available": len(allsites),
               "by_operator(alarm, cannot decide, silent)": by_kind}
    os.makedirs(os.path.dirname(out), exist_ok=True)
    with open(out, "w") as fh:
        json.dump({"summary": summary, "false_alarms": alarms, "cannot_decide": indet}, fh, indent=1)
    print(json.dumps(summary, indent=1))
    for r in alarms:
        print("FALSE-ALARM", r["file"], r["rewrite"], r["fired"])
        for l in r.get("diff", []):
            print("    " + l)
    return 1 if alarms else 0


if __name__ == "__main__":
    sys.exit(main(sys.argv[1:]))
