#!/bin/sh
# usage: tools/run_all.sh [quick|thorough] [--no-evidence]   -- one verdict line per property
cd "$(dirname "$0")/.."
tier=${1:-quick}
for p in 01 02 03 04 05 07 09 10 11 12 13 14 15 16 17 18 19 20; do
  /venv/bin/python -m spverif C$p --tier $tier $2 2>&1 | grep -E "^(OK|VIOLATION|ANALYSIS-ERROR)" | cut -c1-400 | sort | uniq -c | head -5
done
