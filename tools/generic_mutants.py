#!/venv/bin/python
"""Generic (unlabelled) single-point mutants of spowtd, tabulated against all checks.

Operators: comparison strictness / negation, + <-> -, * <-> /, small integer
constants +-1, slice bounds, swap of the first two call arguments,
`raise` -> `pass`, and textual mutations inside SQL strings (comparison
strictness, ASC/DESC, dropped ORDER BY, +/-).  Every mutant is one change;
it is analysed in memory by every check (quick tier).  The verdicts are only
tabulated: a silent mutant is either equivalent, outside every property's
scope, or a blind spot -- the table is for triage, not evidence.

usage: tools/generic_mutants.py [--seed N] [--max M] [--modules a,b] [--jobs J] [--out file.json]
"""

import ast
import copy
import json
import os
import random
import re
import sys
from concurrent.futures import ProcessPoolExecutor

ROOT = os.path.dirname(os.path.dirname(os.path.abspath(__file__)))
sys.path.insert(0, ROOT)

from spverif.__main__ import PROPS, run_property  # noqa: E402
from spverif.source import Repo  # noqa: E402

SKIP_MODULES = {"plot_recession", "plot_rise", "plot_specific_yield", "plot_time_series", "plot_transmissivity", "__init__"}
CMP = {ast.Gt: ast.GtE, ast.GtE: ast.Gt, ast.Lt: ast.LtE, ast.LtE: ast.Lt, ast.Eq: ast.NotEq, ast.NotEq: ast.Eq}
BIN = {ast.Add: ast.Sub, ast.Sub: ast.Add, ast.Mult: ast.Div, ast.Div: ast.Mult}


def sites(tree):
    """Enumerate (kind, node index, detail) mutation sites of a module AST."""
    out = []
    nodes = list(ast.walk(tree))
    for i, n in enumerate(nodes):
        if isinstance(n, ast.Compare) and len(n.ops) == 1 and type(n.ops[0]) in CMP:
            out.append(("cmp", i, None))
        elif isinstance(n, ast.BinOp) and type(n.op) in BIN:
            out.append(("bin", i, None))
        elif isinstance(n, ast.Constant) and isinstance(n.value, int) and not isinstance(n.value, bool) and -2 <= n.value <= 3:
            out.append(("const", i, +1))
            out.append(("const", i, -1))
        elif isinstance(n, ast.Slice):
            if n.lower is not None or n.upper is not None:
                out.append(("slice", i, None))
        elif isinstance(n, ast.Call) and len(n.args) >= 2 and not any(isinstance(a, ast.Starred) for a in n.args[:2]):
            out.append(("swapargs", i, None))
        elif isinstance(n, ast.Raise):
            out.append(("noraise", i, None))
        elif isinstance(n, ast.Constant) and isinstance(n.value, str) and re.search(r"\b(SELECT|INSERT|UPDATE)\b", n.value):
            for k, (pat, rep) in enumerate(SQL_MUTS):
                for m in re.finditer(pat, n.value):
                    out.append(("sql", i, (k, m.start())))
    return out


SQL_MUTS = [
    (r">=", ">"), (r"<=", "<"), (r"(?<![<>=!])>(?!=)", ">="), (r"(?<![<>=!])<(?![=>])", "<="),
    (r"\bDESC\b", "ASC"), (r"ORDER BY [^\n\"']+", ""), (r" \+ \?", " - ?"), (r"\bAND\b", "OR"),
    (r"\bavg\(", "max("), (r"\bmin\(", "max("), (r"\* 24\b", "* 12"), (r"/ 10\b", "/ 100"),
]


def mutate(src, site):
    kind, idx, detail = site
    tree = ast.parse(src)
    nodes = list(ast.walk(tree))
    n = nodes[idx]
    desc = ""
    if kind == "cmp":
        old = type(n.ops[0]).__name__
        n.ops[0] = CMP[type(n.ops[0])]()
        desc = "line %d: %s -> %s" % (n.lineno, old, type(n.ops[0]).__name__)
    elif kind == "bin":
        old = type(n.op).__name__
        n.op = BIN[type(n.op)]()
        desc = "line %d: %s -> %s" % (n.lineno, old, type(n.op).__name__)
    elif kind == "const":
        desc = "line %d: constant %d -> %d" % (n.lineno, n.value, n.value + detail)
        n.value = n.value + detail
    elif kind == "slice":
        if n.lower is not None:
            desc = "line %d: slice lower dropped" % getattr(n, "lineno", 0)
            n.lower = None
        else:
            desc = "line %d: slice upper dropped" % getattr(n, "lineno", 0)
            n.upper = None
    elif kind == "swapargs":
        n.args[0], n.args[1] = n.args[1], n.args[0]
        desc = "line %d: first two arguments of %s swapped" % (n.lineno, ast.unparse(n.func)[:40])
    elif kind == "noraise":
        # replace in parent body
        for p in nodes:
            for fld in ("body", "orelse", "finalbody"):
                b = getattr(p, fld, None)
                if isinstance(b, list) and n in b:
                    b[b.index(n)] = ast.Pass()
        desc = "line %d: raise -> pass" % n.lineno
    elif kind == "sql":
        k, pos = detail
        pat, rep = SQL_MUTS[k]
        m = re.compile(pat).match(n.value, pos)
        if not m:
            return None, None
        n.value = n.value[:pos] + rep + n.value[m.end():]
        desc = "line %d: SQL %r -> %r" % (n.lineno, m.group(0)[:30], rep)
    ast.fix_missing_locations(tree)
    try:
        text = ast.unparse(tree) + "\n"
        ast.parse(text)
    except Exception:
        return None, None
    return text, desc


def _new(chk):
    from spverif.report import new_violations
    return new_violations(chk)


def evaluate(job):
    rel, text, desc, kind = job
    fired = {}
    indet = []
    for p in PROPS:
        code, chk = run_property(p, "quick", overlay={rel: text}, write=False, out=lambda *_: None)
        if code == 1:
            fired[p] = sorted({v.rule for v in _new(chk)})
        elif code == 2:
            indet.append(p)
    return {"file": rel, "mutation": desc, "kind": kind, "fired": fired, "indeterminate": indet}


def main(argv):
    seed = int(argv[argv.index("--seed") + 1]) if "--seed" in argv else int(os.environ.get("VERIF_SEED", "0") or 0)
    mx = int(argv[argv.index("--max") + 1]) if "--max" in argv else 400
    jobs_n = int(argv[argv.index("--jobs") + 1]) if "--jobs" in argv else 16
    only = argv[argv.index("--modules") + 1].split(",") if "--modules" in argv else None
    out = argv[argv.index("--out") + 1] if "--out" in argv else os.path.join(ROOT, "notes", "generic_mutants.json")
    repo = Repo()
    rng = random.Random(seed)
    allsites = []
    base = {}
    for name, m in sorted(repo.modules.items()):
        if name in SKIP_MODULES or (only and name not in only):
            continue
        src = ast.unparse(ast.parse(m.src)) + "\n"
        base[m.relpath] = src
        for s in sites(ast.parse(src)):
            allsites.append((m.relpath, s))
    rng.shuffle(allsites)
    jobs = []
    for rel, s in allsites:
        if len(jobs) >= mx:
            break
        text, desc = mutate(base[rel], s)
        if text is None or text == base[rel]:
            continue
        jobs.append((rel, text, desc, s[0]))
    with ProcessPoolExecutor(max_workers=jobs_n) as ex:
        results = list(ex.map(evaluate, jobs, chunksize=4))
    killed = [r for r in results if r["fired"]]
    indet = [r for r in results if not r["fired"] and r["indeterminate"]]
    silent = [r for r in results if not r["fired"] and not r["indeterminate"]]
    summary = {"seed": seed, "mutants": len(results), "reported": len(killed), "indeterminate_only": len(indet), "silent": len(silent),
               "sites_available": len(allsites)}
    by_kind = {}
    for r in results:
        k = by_kind.setdefault(r["kind"], [0, 0, 0])
        k[0 if r["fired"] else (1 if r["indeterminate"] else 2)] += 1
    summary["by_operator(reported, indeterminate, silent)"] = by_kind
    os.makedirs(os.path.dirname(out), exist_ok=True)
    with open(out, "w") as fh:
        json.dump({"summary": summary, "silent": silent, "indeterminate_only": indet, "reported": killed}, fh, indent=1)
    print(json.dumps(summary, indent=1))
    return 0


if __name__ == "__main__":
    sys.exit(main(sys.argv[1:]))
