#!/venv/bin/python
"""Markdown table of the seeded changes (for DESIGN.md section 9)."""
import json, os
ROOT = os.path.dirname(os.path.dirname(os.path.abspath(__file__)))
sd = os.path.join(ROOT, "seeded")
first = json.load(open(os.path.join(sd, "first_outcome.json")))
res = {r["label"]: r for r in json.load(open(os.path.join(sd, "RESULTS.json")))}
print("| seeded change | breaks | needs to manifest | reported now by | first outcome |")
print("|---|---|---|---|---|")
for d in sorted(os.listdir(sd)):
    mp = os.path.join(sd, d, "meta.json")
    if not os.path.exists(mp):
        continue
    m = json.load(open(mp))
    fired = res.get(d, {}).get("fired", {})
    rules = ", ".join(sorted(r for v in fired.values() for r in v)) or "MISSED"
    print("| %s | %s | %s | %s | %s |" % (d, m["breaks_property"], m["needs_to_manifest"].replace("|", "/"), rules, first.get(d, "")))
