#!/venv/bin/python
"""Specificity sweep: consistent renaming of local variables must not
change any verdict.

For every module of spowtd (tests excluded) every function-local variable
(assigned in the function, not a parameter, not global) is renamed to
<name>_q by token-level rewriting inside the function's line span; the
whole renamed tree is analysed in memory (overlay) by every check.
A check that reports a VIOLATION or an ANALYSIS-ERROR on a renamed tree
depends on a local identifier -- a false alarm in waiting.

usage: tools/alpha_rename.py [--per-module] [--suffix _q]
"""

import ast
import io
import os
import sys
import tokenize

ROOT = os.path.dirname(os.path.dirname(os.path.abspath(__file__)))
sys.path.insert(0, ROOT)

from spverif.__main__ import PROPS, run_property  # noqa: E402
from spverif.source import Repo  # noqa: E402


def locals_of(fn):
    a = fn.args
    params = {x.arg for x in a.posonlyargs + a.args + a.kwonlyargs}
    if a.vararg:
        params.add(a.vararg.arg)
    if a.kwarg:
        params.add(a.kwarg.arg)
    out = set()
    skip = set()
    for n in ast.walk(fn):
        if isinstance(n, (ast.Global, ast.Nonlocal)):
            skip |= set(n.names)
        if isinstance(n, ast.Name) and isinstance(n.ctx, ast.Store):
            out.add(n.id)
        if isinstance(n, (ast.FunctionDef, ast.AsyncFunctionDef)) and n is not fn:
            out.add(n.name)
            # parameters of nested functions are renamed too (they are local to it)
            aa = n.args
            for x in aa.posonlyargs + aa.args:
                out.add(x.arg)
        if isinstance(n, ast.Lambda):
            for x in n.args.args:
                out.add(x.arg)
    # keyword names used in calls inside the function must not collide with renamed names
    kw = set()
    for n in ast.walk(fn):
        if isinstance(n, ast.keyword) and n.arg:
            kw.add(n.arg)
    # nested-function parameters that are passed by keyword somewhere: keep
    return {x for x in out if x not in params and x not in skip and x not in kw and not x.startswith("__")}


def rename_module(src, suffix):
    tree = ast.parse(src)
    spans = []
    for n in ast.walk(tree):
        if isinstance(n, (ast.FunctionDef, ast.AsyncFunctionDef)):
            # only outermost functions (nested ones are covered by the outer span)
            spans.append((n.lineno, n.end_lineno, locals_of(n)))
    # outermost only
    spans.sort()
    outer = []
    for s in spans:
        if outer and s[0] >= outer[-1][0] and s[1] <= outer[-1][1]:
            outer[-1] = (outer[-1][0], outer[-1][1], outer[-1][2] | s[2])
            continue
        outer.append(s)
    toks = list(tokenize.generate_tokens(io.StringIO(src).readline))
    out = []
    prev_significant = None
    for t in toks:
        tok = t
        if t.type == tokenize.NAME:
            line = t.start[0]
            for lo, hi, names in outer:
                if lo <= line <= hi and t.string in names:
                    # not an attribute access (preceded by '.') and not a keyword argument name (followed by '=' in a call)
                    if prev_significant is not None and prev_significant.string == ".":
                        break
                    tok = t._replace(string=t.string + suffix)
                    break
        out.append(tok)
        if t.type not in (tokenize.NL, tokenize.NEWLINE, tokenize.COMMENT, tokenize.INDENT, tokenize.DEDENT):
            prev_significant = t
    # rebuild text preserving layout as far as untokenize allows
    res = []
    last_row, last_col = 1, 0
    for t in out:
        (srow, scol), (erow, ecol) = t.start, t.end
        if srow > last_row:
            res.append("\n" * 0)
            last_col = 0
        if srow == last_row and scol > last_col:
            res.append(" " * (scol - last_col))
        elif srow > last_row:
            res.append(" " * scol) if t.type not in (tokenize.INDENT, tokenize.DEDENT, tokenize.NEWLINE, tokenize.NL) or True else None
        res.append(t.string)
        last_row, last_col = erow, ecol
        if t.type in (tokenize.NEWLINE, tokenize.NL):
            last_row, last_col = erow + 1 if not t.string.endswith("\n") else erow + 1, 0
    text = tokenize.untokenize([(t.type, t.string) for t in out])
    ast.parse(text)
    return text


def main(argv):
    suffix = "_q"
    if "--suffix" in argv:
        suffix = argv[argv.index("--suffix") + 1]
    repo = Repo()
    overlays = {}
    for name, m in sorted(repo.modules.items()):
        try:
            overlays[m.relpath] = rename_module(m.src, suffix)
        except SyntaxError as exc:
            print("cannot rename %s: %s" % (m.relpath, exc))
    groups = [(rel, {rel: txt}) for rel, txt in overlays.items()] if "--per-module" in argv else [("all modules", overlays)]
    if "--reformat" in argv:
        # ast.unparse round trip: drops comments, normalises quotes, parentheses and line breaks
        groups = [("reformatted (ast.unparse) tree", {m.relpath: ast.unparse(ast.parse(m.src)) + "\n" for m in repo.modules.values()})]
    bad = 0
    for label, ov in groups:
        for p in PROPS:
            lines = []
            code, chk = run_property(p, "quick", overlay=ov, write=False, out=lines.append)
            if code != 0:
                bad += 1
                print("%-5s on renamed %-28s exit %d" % (p, label, code))
                for l in lines:
                    if " -- found: " in l or l.startswith("ANALYSIS-ERROR"):
                        print("      " + l[:260])
    print("alpha-renaming sweep: %d check/overlay combinations with a non-zero exit" % bad)
    return 1 if bad else 0


if __name__ == "__main__":
    sys.exit(main(sys.argv[1:]))
