"""usage: tools/probe_all.py <patch.diff> [...]  -- every check on every patch (in memory, process pool); prints only the non-zero outcomes"""
import sys, os
sys.path.insert(0,'/verif'); os.chdir('/verif')
from spverif.__main__ import run_property, PROPS
from spverif.selftest import apply_patch
from spverif.source import Repo
from spverif.report import new_violations
from concurrent.futures import ProcessPoolExecutor
def job(a):
    patch,p=a
    repo=Repo(); ov=apply_patch(repo, patch)
    if ov is None: return (patch,p,'NOAPPLY',[])
    code,chk=run_property(p,"quick",overlay=ov,write=False,out=lambda *_:None)
    msgs=[e[:230] for e in chk.errors[:2]] if code==2 else (["%s %s"%(v.rule,v.key) for v in new_violations(chk)][:3] if code==1 else [])
    return (patch,p,code,msgs)
if __name__=="__main__":
    jobs=[(pt,p) for pt in sys.argv[1:] for p in PROPS]
    with ProcessPoolExecutor(max_workers=10) as ex:
        for patch,p,code,msgs in ex.map(job,jobs):
            if code not in (0,):
                print(os.path.basename(os.path.dirname(patch))+'/'+os.path.basename(patch),p,code,msgs)
    print('done')
