"""usage: tools/dump_normalized.py <preserving id | patch.diff> <module.function>  -- the function as the rules see it, after the normal forms"""
import sys, os, ast
sys.path.insert(0,'/verif'); os.chdir('/verif')
from spverif.selftest import apply_patch
from spverif.source import Repo
name, fn = sys.argv[1:3]
repo=Repo(); ov=apply_patch(repo, name if name.endswith('.diff') else "preserving/%s/patch.diff"%name)
repo2=Repo(overlay=ov) if ov else repo
f=repo2.func(fn)
print(ast.unparse(f.node))
